package xlsxlite

import (
	"os"
	"testing"
)

func TestEditAllWorkbooks(t *testing.T) {
	for _, v := range []string{"16.20", "20.14", "20.27", "20.43", "21.40"} {
		data, err := os.ReadFile("/repo/cmd/fitgen/internal/profile/testdata/" + v + ".xlsx")
		if err != nil {
			t.Skip(err)
		}
		wb, err := Open(data)
		if err != nil {
			t.Fatal(v, err)
		}
		ms := wb.Sheets[1]
		edits := 0
		for r := 3; r <= ms.Max && edits < 40; r++ {
			if ms.Cell(r, 1) == "" {
				continue
			}
			val := "1"
			if c := ms.Cell(r, 15); c != "" && c != "0" {
				val = "0"
			}
			if err := wb.SetNumber(ms, r, 15, val); err != nil {
				t.Fatal(v, r, err)
			}
			edits++
		}
		out, err := wb.Bytes()
		if err != nil {
			t.Fatal(err)
		}
		wb2, err := Open(out)
		if err != nil {
			t.Fatal(v, "reopen", err)
		}
		for r := 3; r <= ms.Max; r++ {
			for c := 0; c < 16; c++ {
				if wb2.Sheets[1].Cell(r, c) != ms.Cell(r, c) {
					t.Fatalf("%s: cell %s%d reads %q after edit, want %q", v, ColName(c), r, wb2.Sheets[1].Cell(r, c), ms.Cell(r, c))
				}
			}
		}
	}
}
