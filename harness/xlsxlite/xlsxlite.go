// Package xlsxlite is a minimal, stdlib-only reader/editor for the FIT SDK
// profile workbooks (zip + SpreadsheetML), independent of the library the
// generator uses. It reads cell texts and can overwrite single cells with a
// number.
package xlsxlite

import (
	"archive/zip"
	"bytes"
	"encoding/xml"
	"fmt"
	"io"
	"regexp"
	"sort"
	"strconv"
	"strings"
)

type Workbook struct {
	files  map[string][]byte
	order  []string
	shared []string
	Sheets []*Sheet
}

type Sheet struct {
	Path string
	Rows map[int]map[int]string // row number (1-based) -> column index (0-based) -> text
	Max  int
}

func Open(data []byte) (*Workbook, error) {
	zr, err := zip.NewReader(bytes.NewReader(data), int64(len(data)))
	if err != nil {
		return nil, err
	}
	wb := &Workbook{files: map[string][]byte{}}
	for _, f := range zr.File {
		rc, err := f.Open()
		if err != nil {
			return nil, err
		}
		b, err := io.ReadAll(rc)
		rc.Close()
		if err != nil {
			return nil, err
		}
		wb.files[f.Name] = b
		wb.order = append(wb.order, f.Name)
	}
	if b, ok := wb.files["xl/sharedStrings.xml"]; ok {
		if err := wb.parseShared(b); err != nil {
			return nil, err
		}
	}
	var sheetPaths []string
	for name := range wb.files {
		if strings.HasPrefix(name, "xl/worksheets/sheet") && strings.HasSuffix(name, ".xml") {
			sheetPaths = append(sheetPaths, name)
		}
	}
	sort.Slice(sheetPaths, func(i, j int) bool { return sheetNum(sheetPaths[i]) < sheetNum(sheetPaths[j]) })
	for _, p := range sheetPaths {
		s, err := wb.parseSheet(p)
		if err != nil {
			return nil, fmt.Errorf("%s: %v", p, err)
		}
		wb.Sheets = append(wb.Sheets, s)
	}
	return wb, nil
}

func sheetNum(p string) int {
	n, _ := strconv.Atoi(strings.TrimSuffix(strings.TrimPrefix(p, "xl/worksheets/sheet"), ".xml"))
	return n
}

func (wb *Workbook) parseShared(b []byte) error {
	dec := xml.NewDecoder(bytes.NewReader(b))
	var cur strings.Builder
	inSI, inT := false, false
	for {
		tok, err := dec.Token()
		if err == io.EOF {
			break
		}
		if err != nil {
			return err
		}
		switch t := tok.(type) {
		case xml.StartElement:
			switch t.Name.Local {
			case "si":
				inSI = true
				cur.Reset()
			case "t":
				inT = inSI
			case "rPh":
				// phonetic runs are not part of the text
				dec.Skip()
			}
		case xml.EndElement:
			switch t.Name.Local {
			case "si":
				wb.shared = append(wb.shared, cur.String())
				inSI = false
			case "t":
				inT = false
			}
		case xml.CharData:
			if inT {
				cur.Write(t)
			}
		}
	}
	return nil
}

// colIndex converts a cell reference like "AB12" to (column index, row).
func colIndex(ref string) (int, int) {
	c, i := 0, 0
	for i < len(ref) && ref[i] >= 'A' && ref[i] <= 'Z' {
		c = c*26 + int(ref[i]-'A'+1)
		i++
	}
	r, _ := strconv.Atoi(ref[i:])
	return c - 1, r
}

func ColName(c int) string {
	s := ""
	c++
	for c > 0 {
		c--
		s = string(rune('A'+c%26)) + s
		c /= 26
	}
	return s
}

func (wb *Workbook) parseSheet(path string) (*Sheet, error) {
	s := &Sheet{Path: path, Rows: map[int]map[int]string{}}
	dec := xml.NewDecoder(bytes.NewReader(wb.files[path]))
	var ref, typ string
	var val strings.Builder
	inV, inT, inC := false, false, false
	for {
		tok, err := dec.Token()
		if err == io.EOF {
			break
		}
		if err != nil {
			return nil, err
		}
		switch t := tok.(type) {
		case xml.StartElement:
			switch t.Name.Local {
			case "c":
				inC = true
				ref, typ = "", ""
				val.Reset()
				for _, a := range t.Attr {
					if a.Name.Local == "r" {
						ref = a.Value
					}
					if a.Name.Local == "t" {
						typ = a.Value
					}
				}
			case "v":
				inV = inC
			case "t":
				inT = inC
			}
		case xml.EndElement:
			switch t.Name.Local {
			case "v":
				inV = false
			case "t":
				inT = false
			case "c":
				inC = false
				text := val.String()
				if typ == "s" {
					if i, err := strconv.Atoi(strings.TrimSpace(text)); err == nil && i < len(wb.shared) {
						text = wb.shared[i]
					}
				}
				if text != "" {
					c, r := colIndex(ref)
					if s.Rows[r] == nil {
						s.Rows[r] = map[int]string{}
					}
					s.Rows[r][c] = text
					if r > s.Max {
						s.Max = r
					}
				}
			}
		case xml.CharData:
			if inV || inT {
				val.Write(t)
			}
		}
	}
	return s, nil
}

// Cell returns the text of a cell ("" when empty).
func (s *Sheet) Cell(row, col int) string { return strings.TrimSpace(s.Rows[row][col]) }

// ClearCell empties a cell (the element stays, without a value or a type), as deleting its content in a spreadsheet
// program does. A cell that does not exist is left alone.
func (wb *Workbook) ClearCell(sheet *Sheet, row, col int) {
	xmlb := wb.files[sheet.Path]
	pfx := ""
	if m := regexp.MustCompile(`<(\w+:)?sheetData`).FindSubmatch(xmlb); m != nil {
		pfx = string(m[1])
	}
	q := regexp.QuoteMeta(pfx)
	ref := ColName(col) + strconv.Itoa(row)
	reFull := regexp.MustCompile(`(?s)<` + q + `c r="` + ref + `"([^>]*?)(\s*/>|>.*?</` + q + `c>)`)
	loc := reFull.FindSubmatchIndex(xmlb)
	if loc == nil {
		return
	}
	attrs := string(xmlb[loc[2]:loc[3]])
	attrs = regexp.MustCompile(`\s+t="[^"]*"`).ReplaceAllString(attrs, "")
	attrs = strings.TrimRight(attrs, " ")
	out := append([]byte{}, xmlb[:loc[0]]...)
	out = append(out, (`<` + pfx + `c r="` + ref + `"` + attrs + `/>`)...)
	out = append(out, xmlb[loc[1]:]...)
	wb.files[sheet.Path] = out
}

// SetNumber overwrites (or creates) a cell with a plain number in the sheet XML.
// The element prefix (none, or "x:" in some SDK workbooks) is taken from the sheet itself.
func (wb *Workbook) SetNumber(sheet *Sheet, row, col int, value string) error {
	xmlb := wb.files[sheet.Path]
	pfx := ""
	if m := regexp.MustCompile(`<(\w+:)?sheetData`).FindSubmatch(xmlb); m != nil {
		pfx = string(m[1])
	}
	q := regexp.QuoteMeta(pfx)
	ref := ColName(col) + strconv.Itoa(row)
	cellXML := func(attrs string) string {
		return `<` + pfx + `c r="` + ref + `"` + attrs + `><` + pfx + `v>` + value + `</` + pfx + `v></` + pfx + `c>`
	}
	// existing cell, with or without content
	reFull := regexp.MustCompile(`(?s)<` + q + `c r="` + ref + `"([^>]*?)(\s*/>|>.*?</` + q + `c>)`)
	loc := reFull.FindSubmatchIndex(xmlb)
	if loc != nil {
		attrs := string(xmlb[loc[2]:loc[3]])
		attrs = regexp.MustCompile(`\s+t="[^"]*"`).ReplaceAllString(attrs, "")
		attrs = strings.TrimRight(attrs, " ")
		out := append([]byte{}, xmlb[:loc[0]]...)
		out = append(out, cellXML(attrs)...)
		out = append(out, xmlb[loc[1]:]...)
		wb.files[sheet.Path] = out
	} else {
		// insert into the row, keeping cells in column order
		reRow := regexp.MustCompile(`(?s)<` + q + `row r="` + strconv.Itoa(row) + `"[^>]*>(.*?)</` + q + `row>`)
		rl := reRow.FindSubmatchIndex(xmlb)
		if rl == nil {
			return fmt.Errorf("row %d not found", row)
		}
		body := xmlb[rl[2]:rl[3]]
		insertAt := rl[3]
		for _, m := range regexp.MustCompile(`<`+q+`c r="([A-Z]+)[0-9]+"`).FindAllSubmatchIndex(body, -1) {
			c, _ := colIndex(string(body[m[2]:m[3]]) + "1")
			if c > col {
				insertAt = rl[2] + m[0]
				break
			}
		}
		out := append([]byte{}, xmlb[:insertAt]...)
		out = append(out, cellXML("")...)
		out = append(out, xmlb[insertAt:]...)
		// widen the row's spans attribute so that readers which trust it see the new cell
		rowTag := regexp.MustCompile(`<` + q + `row r="` + strconv.Itoa(row) + `"[^>]*>`)
		if tl := rowTag.FindIndex(out); tl != nil {
			tag := string(out[tl[0]:tl[1]])
			if m := regexp.MustCompile(`spans="(\d+):(\d+)"`).FindStringSubmatch(tag); m != nil {
				hi, _ := strconv.Atoi(m[2])
				if hi < col+1 {
					ntag := strings.Replace(tag, m[0], `spans="`+m[1]+`:`+strconv.Itoa(col+1)+`"`, 1)
					out = append(append(append([]byte{}, out[:tl[0]]...), ntag...), out[tl[1]:]...)
				}
			}
		}
		wb.files[sheet.Path] = out
	}
	if sheet.Rows[row] == nil {
		sheet.Rows[row] = map[int]string{}
	}
	sheet.Rows[row][col] = value
	return nil
}

// Bytes re-zips the workbook.
func (wb *Workbook) Bytes() ([]byte, error) {
	var buf bytes.Buffer
	zw := zip.NewWriter(&buf)
	for _, name := range wb.order {
		w, err := zw.Create(name)
		if err != nil {
			return nil, err
		}
		if _, err := w.Write(wb.files[name]); err != nil {
			return nil, err
		}
	}
	if err := zw.Close(); err != nil {
		return nil, err
	}
	return buf.Bytes(), nil
}
