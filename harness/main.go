// Command vcheck runs one property check: vcheck <ID> [quick|thorough] | vcheck <ID> --replay <file>.
package main

import (
	_ "verif/props"
	"verif/vx"
)

func main() { vx.Main() }
