package props

import (
	"bytes"
	"encoding/hex"
	"encoding/json"
	"fmt"
	"os"
	"path/filepath"
	"reflect"
	"strings"

	"github.com/tormoder/fit"

	"verif/fitmodel"
	"verif/vx"
	"verif/xlsxlite"
)

// C15: profile tables, message structs and all-invalid constructors agree everywhere.

type c15Replay struct {
	Mesg uint16 `json:"mesg"`
	Slot int    `json:"slot"`
	What string `json:"what"`
	Hex  string `json:"stream_hex,omitempty"`
}

func init() {
	vx.Register(&vx.Prop{
		ID:    "C15",
		Level: "exploration",
		Rule: "every known message number x all 256 lookup slots x every struct field x every container member: static agreement (slot=num, struct index in range / injective / surjective, Go type = f(base,array,kind), constructor value = invalid, size*length<=255, type/constructor tables consistent with the known set, reverse lookup unique) " +
			"plus a re-check of all of it after the encoder was exercised on every array entry of every message slice (the tables are read-only), plus, per entry of a hosted message, a dynamic confirmation: a one-field stream of the profile's own type is decoded, must land in exactly that struct field, and is re-encoded and decoded back. distinct = distinct (message, field) entries checked",
		Assumptions: []string{"table contents reach the harness through the verif-tagged read-only exports"},
		Run:         runC15,
		Workers:     4,
		Replay: func(raw json.RawMessage) (string, error) {
			if s, ok, err := mixReplay(raw); ok {
				return s, err
			}
			var r c15Replay
			json.Unmarshal(raw, &r)
			if r.What == "declared-type" {
				b, err := hex.DecodeString(r.Hex)
				if err != nil {
					return "", err
				}
				if res := safeDecode(bytes.NewReader(b)); res.Panic != "" {
					return "", fmt.Errorf("Decode panics: %s", res.Panic)
				}
				return "no failing reflection access", nil
			}
			p := prof()
			if e, ok := p.fields[r.Mesg][byte(r.Slot)]; ok {
				if msg := c15Static(e); msg != "" {
					return "", fmt.Errorf("%s", msg)
				}
				if msg, _ := c15Dynamic(e); msg != "" {
					return "", fmt.Errorf("%s", msg)
				}
			}
			return "entry consistent", nil
		},
		Post: func(m *vx.Merged) error {
			if m.Distinct < 700 {
				return fmt.Errorf("only %d table entries seen; expected about 780", m.Distinct)
			}
			return nil
		},
	})
}

// c15Static checks one table entry against the struct and constructor.
func c15Static(e fit.VerifField) string {
	if int(e.Num) != e.Slot {
		return fmt.Sprintf("entry in slot %d carries field number %d", e.Slot, e.Num)
	}
	mt := fit.VerifMesgType(e.Mesg)
	if mt == nil {
		return "table row for a message without a registered Go type"
	}
	if e.Sindex < 0 || e.Sindex >= mt.NumField() {
		return fmt.Sprintf("struct index %d out of range (struct has %d fields)", e.Sindex, mt.NumField())
	}
	sf := mt.Field(e.Sindex)
	if !goTypeOK(sf.Type, e) {
		return fmt.Sprintf("struct field %s has Go type %v, table says base=%#02x array=%v kind=%d", sf.Name, sf.Type, e.Base, e.Array, e.Kind)
	}
	bs := fitmodel.BaseSize(e.Base)
	if bs == 0 {
		return fmt.Sprintf("unknown base type %#02x", e.Base)
	}
	if e.Base == fitmodel.String {
		if e.Length < 1 {
			return "string field with length 0"
		}
	} else if e.Array {
		if e.Length < 1 || bs*int(e.Length) > 255 {
			return fmt.Sprintf("array size %d x %d does not fit one byte", bs, e.Length)
		}
	}
	nm := fit.VerifNewMesg(e.Mesg)
	if !nm.IsValid() {
		return "no constructor"
	}
	if nm.Type() != mt {
		return fmt.Sprintf("constructor returns %v, type table says %v", nm.Type(), mt)
	}
	if !invalidValueOK(nm.Field(e.Sindex), e) {
		return fmt.Sprintf("constructor leaves %s = %s, not the invalid value of base %#02x", sf.Name, fitmodel.Dump(nm.Field(e.Sindex)), e.Base)
	}
	return ""
}

// probePayload builds a natural definition + payload for the entry: the
// profile's own base type, profile length, distinct ascending bytes.
func probeDef(e fit.VerifField) (fitmodel.FieldDef, []byte) {
	bs := fitmodel.BaseSize(e.Base)
	size := bs
	if e.Base == fitmodel.String {
		size = int(e.Length)
		if size < 2 {
			size = 2
		}
	} else if e.Array {
		n := int(e.Length)
		if n < 1 {
			n = 1
		}
		size = bs * n
	}
	if size > 255 {
		size = 255 / bs * bs
	}
	p := make([]byte, size)
	for i := range p {
		p[i] = byte(0x11 + i)
	}
	if e.Base == fitmodel.String {
		for i := range p {
			p[i] = byte('a' + i%26)
		}
		p[size-1] = 0
	}
	if e.Kind == kindLat || e.Kind == kindLng {
		p = []byte{0x01, 0x02, 0x03, 0x04} // small valid coordinate in both orders
	}
	return fitmodel.FieldDef{Num: e.Num, Size: byte(size), Base: e.Base}, p
}

// probeStream wraps one record of message m into a file of type ft.
func probeStream(ft byte, m uint16, big bool, fds []fitmodel.FieldDef, payload []byte) []byte {
	if m == 0 {
		// the file_id record itself carries the probe; make sure type is present
		hasType := false
		for _, fd := range fds {
			if fd.Num == 0 {
				hasType = true
			}
		}
		if !hasType {
			fds = append([]fitmodel.FieldDef{{Num: 0, Size: 1, Base: fitmodel.Enum}}, fds...)
			payload = append([]byte{ft}, payload...)
		}
		d := fitmodel.Def{Local: 0, Big: big, Global: 0, Fields: fds}
		return fitmodel.File(fitmodel.DefaultHeader, d.Bytes(), fitmodel.Data(0, payload))
	}
	recs := fitmodel.FileIdRecords(0, ft)
	d := fitmodel.Def{Local: 1, Big: big, Global: m, Fields: fds}
	recs = append(recs, d.Bytes(), fitmodel.Data(1, payload))
	return fitmodel.File(fitmodel.DefaultHeader, recs...)
}

// hostType picks a file type in which message m is observable (activity for the common messages).
func hostType(m uint16) (byte, bool) {
	switch m {
	case 0, uint16(fit.MesgNumFileCreator), uint16(fit.MesgNumTimestampCorrelation):
		return byte(fit.FileTypeActivity), true
	}
	h := hostedIn(m)
	if len(h) == 0 {
		return 0, false
	}
	return h[0], true
}

// c15Dynamic decodes a one-field stream and checks where it lands; then one encode/decode round.
func c15Dynamic(e fit.VerifField) (msg string, stream []byte) {
	m := uint16(e.Mesg)
	ft, ok := hostType(m)
	if !ok {
		return "", nil
	}
	if m == 0 && e.Num == 0 {
		return "", nil // the type field is exercised by every stream
	}
	fd, payload := probeDef(e)
	stream = probeStream(ft, m, false, []fitmodel.FieldDef{fd}, payload)
	res := safeDecode(bytes.NewReader(stream))
	if res.Panic != "" {
		return "decode of the natural one-field stream panics: " + res.Panic, stream
	}
	if res.Err != nil {
		return "decode of the natural one-field stream fails: " + res.Err.Error(), stream
	}
	got := messagesOf(res.File, m)
	if len(got) != 1 {
		return fmt.Sprintf("expected one %v message in the container, found %d", e.Mesg, len(got)), stream
	}
	want := fit.VerifNewMesg(e.Mesg)
	if m == 0 {
		want.FieldByName("Type").SetUint(uint64(ft))
	}
	if !modelSet(want, e, fd, false, payload) {
		return "", stream
	}
	if d := diffMsg(got[0], want, compIgnore(got[0])); d != "" {
		return "one-field stream lands wrong: " + d, stream
	}
	// encode and decode back: the same field must come back
	out, err, pn := safeEncode(res.File, false)
	if pn != "" {
		return "re-encode panics: " + pn, stream
	}
	if err != nil {
		return "re-encode fails: " + err.Error(), stream
	}
	res2 := safeDecode(bytes.NewReader(out))
	if res2.Panic != "" || res2.Err != nil {
		return fmt.Sprintf("decode of re-encoded bytes fails: %v %s", res2.Err, res2.Panic), stream
	}
	got2 := messagesOf(res2.File, m)
	if len(got2) != 1 {
		return fmt.Sprintf("after re-encode expected one message, found %d", len(got2)), stream
	}
	ig := compIgnore(got[0])
	if ig == nil {
		ig = map[string]bool{}
	}
	for k := range compIgnore(got2[0]) {
		ig[k] = true
	}
	if e.Kind == kindLocal {
		return "", stream // wall-clock comparison of local time after re-encode belongs to C06/C12
	}
	if e.Base == fitmodel.String && e.Length < 2 {
		return "", stream // a length-1 string field can only carry the terminator; nothing to round-trip
	}
	if d := diffMsg(got2[0], got[0], ig); d != "" {
		return "value changes over one encode/decode round: " + d, stream
	}
	return "", stream
}

func runC15(w *vx.W) {
	p := prof()
	c15HeaderTimestampPairs(w)
	nf, nt, nc := fit.VerifTableLens()
	if w.Shard == 0 {
		// table-level consistency
		for _, m := range p.known {
			w.Eval(1)
			if int(m) >= nf {
				w.Violation("known-outside-fields-table", fmt.Sprintf("known message %d is beyond the lookup table (len %d)", m, nf), c15Replay{Mesg: m, What: "tables"})
			}
			if int(m) >= nt || fit.VerifMesgType(fit.MesgNum(m)) == nil {
				w.Violation("known-without-type", fmt.Sprintf("known message %d has no Go type registered", m), c15Replay{Mesg: m, What: "tables"})
				continue
			}
			if int(m) >= nc || !fit.VerifNewMesg(fit.MesgNum(m)).IsValid() {
				w.Violation("known-without-constructor", fmt.Sprintf("known message %d has no constructor", m), c15Replay{Mesg: m, What: "tables"})
				continue
			}
			mt := fit.VerifMesgType(fit.MesgNum(m))
			if back := fit.VerifGlobalMesgNum(mt); uint16(back) != m {
				w.Violation("reverse-lookup", fmt.Sprintf("type %v of message %d maps back to message %d", mt, m, back), c15Replay{Mesg: m, What: "tables"})
			}
			// injective + surjective struct indices
			seen := map[int]int{}
			for _, e := range p.byMesg[m] {
				if prev, dup := seen[e.Sindex]; dup {
					w.Violation("sindex-not-injective", fmt.Sprintf("message %d: slots %d and %d share struct index %d", m, prev, e.Slot, e.Sindex), c15Replay{Mesg: m, Slot: e.Slot, What: "injective"})
				}
				seen[e.Sindex] = e.Slot
			}
			for i := 0; i < mt.NumField(); i++ {
				if _, ok := seen[i]; !ok {
					w.Violation("sindex-not-surjective", fmt.Sprintf("message %d (%v): struct field %d (%s) has no table entry; the encoder would dereference a nil entry", m, mt, i, mt.Field(i).Name), c15Replay{Mesg: m, What: "surjective"})
				}
			}
		}
		// every row/type/constructor entry belongs to a sane message
		for m := 0; m < nt; m++ {
			mt := fit.VerifMesgType(fit.MesgNum(m))
			if mt == nil {
				continue
			}
			w.Eval(1)
			if m >= nc || !fit.VerifNewMesg(fit.MesgNum(m)).IsValid() {
				w.Violation("type-without-constructor", fmt.Sprintf("message %d has a type but no constructor", m), c15Replay{Mesg: uint16(m), What: "tables"})
			} else if fit.VerifNewMesg(fit.MesgNum(m)).Type() != mt {
				w.Violation("constructor-type", fmt.Sprintf("message %d: constructor type differs from type table", m), c15Replay{Mesg: uint16(m), What: "tables"})
			}
		}
		// (a message with a Go type and a constructor that is *not* in the known set - gps_metadata on the pinned tree - is
		// outside the statement: the property speaks about the messages the library claims to know and about the
		// members of File and of the file containers)
		// the messages File itself holds (file_id, file_creator, timestamp_correlation, ...) are known
		ftFile := reflect.TypeOf(fit.File{})
		for i := 0; i < ftFile.NumField(); i++ {
			t := ftFile.Field(i).Type
			for t.Kind() == reflect.Ptr || t.Kind() == reflect.Slice {
				t = t.Elem()
			}
			if t.Kind() != reflect.Struct || !strings.HasSuffix(t.Name(), "Msg") || t.PkgPath() != ftFile.PkgPath() {
				continue
			}
			w.Eval(1)
			num := uint16(fit.VerifGlobalMesgNum(t))
			if !p.isKnown[num] || fit.VerifMesgType(fit.MesgNum(num)) != t {
				w.Violation("file-member-unknown", fmt.Sprintf("File.%s holds %v, which is not registered as known message %d", ftFile.Field(i).Name, t, num), c15Replay{Mesg: num, What: "container"})
			}
		}
		for _, m := range p.rowMesgs {
			if !p.isKnown[m] {
				w.Violation("row-for-unknown-message", fmt.Sprintf("lookup rows exist for message %d which is not in the known set (compressed-timestamp records would index an invalid message value)", m), c15Replay{Mesg: m, What: "tables"})
			}
		}
		// container members are known messages
		for ft, slots := range hosts() {
			for _, s := range slots {
				w.Eval(1)
				if !p.isKnown[s.Mesg] {
					w.Violation("container-member-unknown", fmt.Sprintf("file type %d member %s holds %v which is not a known message", ft, s.Name, s.MsgType), c15Replay{Mesg: s.Mesg, What: "container"})
				}
			}
		}
		// field number <-> name agreement with the newest bundled workbook (FIT profiles are append-only),
		// read with the independent stdlib reader
		c15Workbook(w)
		// all-invalid constructors: fields *without* table entry are covered by surjectivity above
		w.Sample(map[string]interface{}{"tables": map[string]int{"fields": nf, "types": nt, "constructors": nc}, "known_messages": len(p.known), "entries": len(p.all)})
	}
	for i, e := range p.all {
		if !w.Mine(int64(i)) {
			continue
		}
		w.Eval(1)
		w.Distinct(uint64(e.Mesg)<<8 | uint64(e.Slot))
		if msg := c15Static(e); msg != "" {
			w.Violation(fmt.Sprintf("static/%d.%d", e.Mesg, e.Slot), fmt.Sprintf("message %d (%v) field %d: %s", e.Mesg, e.Mesg, e.Slot, msg), c15Replay{Mesg: uint16(e.Mesg), Slot: e.Slot, What: "static"})
			continue
		}
		msg, stream := c15Dynamic(e)
		if stream != nil {
			w.Fam("dynamic-confirmations", 1)
			w.Eval(1)
		}
		if msg != "" {
			key := fmt.Sprintf("dynamic/%d.%d", e.Mesg, e.Slot)
			rep := c15Replay{Mesg: uint16(e.Mesg), Slot: e.Slot, What: "dynamic", Hex: vx.Hex(stream)}
			w.Violation(key, fmt.Sprintf("message %d (%v) field %d: %s", e.Mesg, e.Mesg, e.Slot, msg), rep)
		}
		if i == 300 {
			w.Sample(map[string]interface{}{"mesg": e.Mesg.String(), "field": e.Num, "sindex": e.Sindex, "base": e.Base, "array": e.Array, "kind": e.Kind, "length": e.Length, "stream_hex": vx.Hex(stream)})
		}
	}
	// ---- "no profile-driven reflection access can fail": every entry declared with every known base type, at that
	// type's element size, twice that, the entry's natural size and a long form, both byte orders. Whatever the
	// definition check admits, storing the value must work (a rejection is fine; a failing reflect call is not)
	var ai int64
	for _, e := range p.all {
		m := uint16(e.Mesg)
		ft, ok := hostType(m)
		if m == 0 && e.Num == 0 {
			continue
		}
		if !ok {
			ft = 4 // a message no container holds is still parsed (and then dropped): any file type will do
		}
		nat, _ := probeDef(e)
		for _, b := range fitmodel.KnownBases {
			bs := fitmodel.BaseSize(b)
			seen := map[int]bool{}
			for _, size := range []int{bs, 2 * bs, int(nat.Size) / bs * bs, 24 / bs * bs} {
				if size < 1 || size > 255 || seen[size] {
					continue
				}
				seen[size] = true
				for o := 0; o < 2; o++ {
					ai++
					if !w.Mine(ai) {
						continue
					}
					pl := make([]byte, size)
					for i := range pl {
						pl[i] = byte(0x21 + i)
					}
					fd := fitmodel.FieldDef{Num: e.Num, Size: byte(size), Base: b}
					stream := probeStream(ft, m, o == 1, []fitmodel.FieldDef{fd}, pl)
					res := safeDecode(bytes.NewReader(stream))
					w.Eval(1)
					w.Fam("every-base-type-on-every-entry", 1)
					if res.Panic != "" {
						w.Violation(fmt.Sprintf("reflection-fails/%d.%d", e.Mesg, e.Slot), fmt.Sprintf("message %d (%v) field %d declared with base type %#02x size %d (big-endian=%v): Decode panics: %s", e.Mesg, e.Mesg, e.Num, b, size, o == 1, res.Panic), c15Replay{Mesg: m, Slot: e.Slot, What: "declared-type", Hex: vx.Hex(stream)})
					}
				}
			}
		}
	}
	// long streams: hundreds and thousands of definitions in one file (whatever the decoder keeps per definition about the
	// profile entries must stay the entry of that definition's own message)
	mixLongRunsTotality(w, "long-runs-of-definitions", func(l longRun, entry, pn string, stream []byte) {
		w.Violation("reflection-fails/long-run", fmt.Sprintf("long run %s: %s panics: %s", l, entry, pn), c15Replay{What: "declared-type", Hex: vx.Hex(stream)})
	})
	// ---- the tables are read-only: after exercising the encoder on every array-valued entry of every message
	// slice (arrays longer and shorter than the profile length, two messages per slice) and the decoder on the
	// dynamic confirmations above, every entry must still pass the static checks and the table digest is unchanged
	before := tablesDigest()
	for _, gs := range genSlots() {
		if gs.Common != "" || !gs.Slot.IsSlice {
			continue
		}
		for _, e := range p.byMesg[gs.Mesg] {
			if !e.Array || e.Kind != kindNative || e.Base == fitmodel.String {
				continue
			}
			f, err := fit.NewFile(fit.FileType(gs.FT), fit.NewHeader(fit.V20, true))
			if err != nil {
				continue
			}
			c := container(f)
			fv := c.Elem().Field(gs.Slot.Index)
			for mi, n := range []int{200, 1, int(e.Length) + 3} {
				mv := fit.VerifNewMesg(fit.MesgNum(gs.Mesg))
				sl := reflect.MakeSlice(mv.Field(e.Sindex).Type(), n, n)
				for j := 0; j < n; j++ {
					setInt(sl.Index(j), uint64(j+1+mi), fitmodel.BaseSize(e.Base), false)
				}
				mv.Field(e.Sindex).Set(sl)
				fv.Set(reflect.Append(fv, mv.Addr()))
			}
			safeEncode(f, false)
			safeEncode(f, true)
			w.Eval(2)
			w.Fam("encoder-exercised-for-table-immutability", 1)
		}
	}
	if after := tablesDigest(); after != before {
		w.Violation("tables-mutated-at-run-time", "the profile lookup table changed while encoding Files with array fields (digest before "+before+", after "+after+")", c15Replay{What: "immutability"})
	}
	for i, e := range fit.VerifFields() {
		if !w.Mine(int64(i)) {
			continue
		}
		if msg := c15Static(e); msg != "" {
			w.Violation(fmt.Sprintf("static-after-use/%d.%d", e.Mesg, e.Slot), fmt.Sprintf("after encoder/decoder use, message %d (%v) field %d: %s", e.Mesg, e.Mesg, e.Slot, msg), c15Replay{Mesg: uint16(e.Mesg), Slot: e.Slot, What: "static-after-use"})
		}
	}
	_ = reflect.TypeOf
}

// c15Workbook compares, for every (message, field number) row of the bundled 21.40
// workbook that the compiled-in profile also has, the struct field the lookup
// entry designates with the row's field name.
func c15Workbook(w *vx.W) {
	data, err := os.ReadFile(filepath.Join(repoRoot, "cmd", "fitgen", "internal", "profile", "testdata", "21.40.xlsx"))
	if err != nil {
		w.Note("bundled 21.40 workbook not readable: field-name agreement skipped")
		return
	}
	wb, err := xlsxlite.Open(data)
	if err != nil {
		w.HarnessError("independent reader cannot open 21.40.xlsx: %v", err)
	}
	msgs, baseOf, err := readProfile(wb)
	if err != nil {
		w.HarnessError("21.40.xlsx: %v", err)
	}
	p := prof()
	byName := map[string]uint16{}
	for _, m := range p.known {
		byName[fit.MesgNum(m).String()] = m
	}
	common := 0
	for _, m := range msgs {
		num, ok := byName[camel(m.Name)]
		if !ok {
			continue
		}
		mt := fit.VerifMesgType(fit.MesgNum(num))
		for _, f := range m.Fields {
			e, ok := p.fields[num][byte(f.Num)]
			if !ok || f.Num > 255 {
				continue
			}
			if e.Sindex < 0 || e.Sindex >= mt.NumField() {
				continue // reported by the static check
			}
			common++
			w.Eval(1)
			got := mt.Field(e.Sindex).Name
			if got != camel(f.Name) {
				// renamed fields exist between profile versions: only a name that belongs to ANOTHER row of the same message is a mix-up
				other := false
				for _, f2 := range m.Fields {
					if camel(f2.Name) == got && f2.Num != f.Num {
						other = true
					}
				}
				if other {
					w.Violation(fmt.Sprintf("workbook-name/%d.%d", num, f.Num), fmt.Sprintf("message %s field number %d: the lookup entry designates struct field %s, the SDK workbook assigns that number to %s (and %s to another number)", m.Name, f.Num, got, f.Name, got), c15Replay{Mesg: num, Slot: f.Num, What: "workbook"})
				} else {
					w.Note(fmt.Sprintf("field renamed since SDK 21.40: %s.%d %s -> %s", m.Name, f.Num, f.Name, got))
				}
				continue
			}
			if wantBase, ok := expectedBase(f, baseOf); ok {
				if idx, ok2 := baseIndexOfByte(e.Base); ok2 && idx != wantBase {
					w.Violation(fmt.Sprintf("workbook-base/%d.%d", num, f.Num), fmt.Sprintf("message %s field %d (%s): compiled-in base type index %d, SDK workbook type %s has %d", m.Name, f.Num, f.Name, idx, f.Type, wantBase), c15Replay{Mesg: num, Slot: f.Num, What: "workbook"})
				}
			}
		}
	}
	w.Fam("workbook-rows-compared", int64(common))
	if common < 500 {
		w.HarnessError("only %d rows in common with the 21.40 workbook", common)
	}
}

func baseIndexOfByte(b byte) (int, bool) {
	for i, k := range fitmodel.KnownBases {
		if k == b {
			return i, true
		}
	}
	return 0, false
}

// ---- the timestamp a compressed-timestamp header gives a message goes through the profile entry for field 253 of
// *that* message: every ordered pair of known messages on one local message type (the slot is redefined from the
// first to the second), both written with compressed headers after a reference time was set. No reflection access
// may fail, and each message gets the time iff its profile has a date_time field 253.
func c15HeaderTimestampPairs(w *vx.W) {
	p := prof()
	var idx int64
	for _, m1 := range p.known {
		for _, m2 := range p.known {
			idx++
			if !w.Mine(idx) {
				continue
			}
			if m1 == 0 || m2 == 0 {
				continue
			}
			ft, ok := hostType(m2)
			if !ok {
				ft, ok = hostType(m1)
				if !ok {
					ft = 4
				}
			}
			ref := fitmodel.Def{Local: 3, Global: 0xFF00, Fields: []fitmodel.FieldDef{{Num: 253, Size: 4, Base: fitmodel.Uint32}}}
			_ = ref
			tsDef := recordDef(3, false)
			if ft != 4 && ft != byte(fit.FileTypeCourse) {
				// record is not held everywhere; any known message with field 253 sets the reference, held or not
				tsDef = recordDef(3, false)
			}
			d1 := fitmodel.Def{Local: 1, Global: m1}
			d2 := fitmodel.Def{Local: 1, Big: true, Global: m2}
			stream := fitmodel.File(fitmodel.DefaultHeader, append(fitmodel.FileIdRecords(0, ft), tsDef.Bytes(), recordData(3, false, 1000000000, 61, 1),
				d1.Bytes(), fitmodel.Compressed(1, 5, nil), d2.Bytes(), fitmodel.Compressed(1, 9, nil), fitmodel.Compressed(1, 9, nil))...)
			w.Eval(1)
			w.Fam("header-timestamp-message-pairs", 1)
			if msg := mixCheck(stream); msg != "" {
				w.Violation("header-timestamp", fmt.Sprintf("local type 1 defined as %v, then as %v, compressed-timestamp records under each: %s", fit.MesgNum(m1), fit.MesgNum(m2), msg), mixReplayT{Mix: true, Word: fmt.Sprintf("%v then %v", fit.MesgNum(m1), fit.MesgNum(m2)), Stream: vx.Hex(stream)})
			}
		}
	}
}
