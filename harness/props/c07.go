package props

import (
	"bytes"
	"encoding/binary"
	"encoding/json"
	"fmt"
	"os"
	"reflect"
	"strings"
	"unicode/utf8"

	"github.com/tormoder/fit"

	"verif/fitmodel"
	"verif/vx"
)

// C07: anything Decode accepts can be re-encoded, and one round trip is a fixpoint.

type c07Replay struct {
	Source string `json:"source"`
	Hex    string `json:"stream_hex,omitempty"`
	Path   string `json:"path,omitempty"`
	Big    bool   `json:"big_endian"`
}

func init() {
	vx.Register(&vx.Prop{
		ID:    "C07",
		Level: "exploration",
		Rule: "pool of streams that Decode accepts: every observable (message, field) entry x compat definitions x byte orders x boundary payloads (C02 family), timestamp words (C12, length<=2), slot words (C13, length<=2), component streams (C18), strings that are not UTF-8 or exceed the profile length (cut inside and outside a rune), longer-than-profile arrays, repeated file_id records, developer fields, every testdata file and crasher input that decodes; each x both target byte orders. " +
			"gen1=Decode(x); bytes1=Encode(gen1); gen2=Decode(bytes1); bytes2=Encode(gen2); gen3=Decode(bytes2). Oracle: Encode neither panics nor fails, CheckIntegrity(bytes1) passes, gen2 has gen1's per-member counts and equal values (strings/arrays up to profile length, local time by wall clock), gen3 equals gen2. distinct = distinct accepted input streams",
		Assumptions: []string{"accumulated component destinations are excluded when their source is present (C18's listed findings make them history dependent)"},
		Run:         runC07,
		Sub:         func(args []string) { tzSub(args) },
		QuickBudget: 240,
		Replay: func(raw json.RawMessage) (string, error) {
			var r c07Replay
			json.Unmarshal(raw, &r)
			b := vx.UnHex(r.Hex)
			if r.Path != "" {
				b, _ = os.ReadFile(r.Path)
			}
			msg, class, _ := c07Check(b, r.Big)
			if msg != "" {
				return "", fmt.Errorf("[%s] %s", class, msg)
			}
			return "ok", nil
		},
	})
}

// c07Eq compares field values of generation a (earlier) and b (later).
func c07Eq(a, b reflect.Value, e fit.VerifField) bool {
	switch {
	case e.Base == fitmodel.String && !e.Array && e.Kind == kindNative:
		s := a.String()
		max := int(e.Length) - 1
		if max < 0 {
			max = 0
		}
		if len(s) > max {
			s = s[:max]
			// cut at a rune boundary (the only way a UTF-8 encoder can truncate)
			for len(s) > 0 && !utf8.ValidString(s) {
				s = s[:len(s)-1]
			}
		}
		return b.String() == s
	case e.Array && e.Base != fitmodel.String:
		// up to the profile length; beyond the elements present: invalid padding
		n := int(e.Length)
		inv := fitmodel.BaseInvalidBits(e.Base)
		bits := func(el reflect.Value) uint64 {
			switch el.Kind() {
			case reflect.Int8, reflect.Int16, reflect.Int32, reflect.Int64:
				return uint64(el.Int()) & (uint64(1)<<(8*uint(fitmodel.BaseSize(e.Base))) - 1)
			}
			return el.Uint()
		}
		allInv := func(v reflect.Value, from int) bool {
			for i := from; i < v.Len(); i++ {
				if bits(v.Index(i)) != inv {
					return false
				}
			}
			return true
		}
		la := a.Len()
		if la > n {
			la = n
		}
		for i := 0; i < la; i++ {
			if i >= b.Len() {
				// b shorter: the rest of a (up to n) must be padding
				return allInv(a.Slice(0, la), i)
			}
			if bits(a.Index(i)) != bits(b.Index(i)) {
				return false
			}
		}
		return allInv(b, la)
	case e.Kind == kindLocal && !e.Array:
		return eqField(b, a, e)
	}
	return fitmodel.Dump(a) == fitmodel.Dump(b)
}

// Only the distance accumulator is history-dependent on the pinned tree (listed finding: package-level accumulator).
// The cycles / accumulated-power accumulators are created with mask 0 (another listed finding) and therefore always
// yield 0: equal in every generation, so they are compared like any other field.
var accumulatedDests = map[string][]string{"CompressedSpeedDistance": {"Distance"}}

// c07CompareFiles compares two generations; returns message, class.
func c07CompareFiles(a, b *fit.File, strict bool) (string, string) {
	if a.Type() != b.Type() {
		return fmt.Sprintf("file type %v became %v", a.Type(), b.Type()), "type"
	}
	cmpMsg := func(name string, x, y reflect.Value) (string, string) {
		m := uint16(fit.VerifGlobalMesgNum(x.Type()))
		ignore := map[string]bool{}
		if x.Type().Name() == "RecordMsg" {
			for src, dests := range accumulatedDests {
				if srcPresent(x, src) || srcPresent(y, src) {
					for _, d := range dests {
						ignore[d] = true
					}
				}
			}
		}
		for _, e := range prof().byMesg[m] {
			fn := x.Type().Field(e.Sindex).Name
			if ignore[fn] {
				continue
			}
			if !c07Eq(x.Field(e.Sindex), y.Field(e.Sindex), e) {
				class := "value"
				if x.Type().Name() == "RecordMsg" && (fn == "Speed" || fn == "EnhancedSpeed") {
					// defect model: a short compressed_speed_distance padded by Encode and expanded on re-decode
					cx, cy := x.FieldByName("CompressedSpeedDistance"), y.FieldByName("CompressedSpeedDistance")
					if !cx.IsNil() && cx.Len() != 3 && cy.Len() == 3 {
						b := cy.Bytes()
						sp := uint64(b[0]) | uint64(b[1]&0x0F)<<8
						if fn == "Speed" && y.FieldByName("Speed").Uint() == sp {
							class = "csd-resized-then-expanded"
						}
						if fn == "EnhancedSpeed" && (y.FieldByName("EnhancedSpeed").Uint() == sp || y.FieldByName("EnhancedSpeed").Uint() == x.FieldByName("Speed").Uint()) {
							class = "csd-resized-then-expanded"
						}
					}
				}
				if fn == "EnhancedSpeed" && x.Type().Name() == "RecordMsg" && srcPresent(x, "CompressedSpeedDistance") &&
					y.FieldByName("EnhancedSpeed").Uint() == y.FieldByName("Speed").Uint() {
					class = "enhanced-speed-not-propagated"
				}
				return fmt.Sprintf("%s field %s: %s became %s", name, fn, trunc(fitmodel.Dump(x.Field(e.Sindex)), 100), trunc(fitmodel.Dump(y.Field(e.Sindex)), 100)), class
			}
		}
		return "", ""
	}
	if msg, cl := cmpMsg("file_id", reflect.ValueOf(a.FileId), reflect.ValueOf(b.FileId)); msg != "" {
		return msg, cl
	}
	for _, pair := range [][2]interface{}{{a.FileCreator, b.FileCreator}, {a.TimestampCorrelation, b.TimestampCorrelation}} {
		x, y := reflect.ValueOf(pair[0]), reflect.ValueOf(pair[1])
		if x.IsNil() != y.IsNil() {
			return fmt.Sprintf("%v present=%v became present=%v", x.Type(), !x.IsNil(), !y.IsNil()), "count"
		}
		if !x.IsNil() {
			if msg, cl := cmpMsg(x.Type().Elem().Name(), x.Elem(), y.Elem()); msg != "" {
				return msg, cl
			}
		}
	}
	ca, cb := container(a), container(b)
	if ca.IsValid() != cb.IsValid() {
		return "container lost", "type"
	}
	if !ca.IsValid() {
		return "", ""
	}
	var firstKnown, firstKnownClass string
	for _, s := range hosts()[byte(a.Type())] {
		fa, fb := ca.Elem().Field(s.Index), cb.Elem().Field(s.Index)
		var la, lb []reflect.Value
		if s.IsSlice {
			for i := 0; i < fa.Len(); i++ {
				la = append(la, fa.Index(i).Elem())
			}
			for i := 0; i < fb.Len(); i++ {
				lb = append(lb, fb.Index(i).Elem())
			}
		} else {
			if !fa.IsNil() {
				la = append(la, fa.Elem())
			}
			if !fb.IsNil() {
				lb = append(lb, fb.Elem())
			}
		}
		if len(la) != len(lb) {
			return fmt.Sprintf("member %s: %d messages became %d", s.Name, len(la), len(lb)), "count"
		}
		for i := range la {
			if msg, cl := cmpMsg(fmt.Sprintf("%s[%d]", s.Name, i), la[i], lb[i]); msg != "" {
				if cl == "value" {
					return msg, cl
				}
				_ = strict
				if firstKnown == "" {
					firstKnown, firstKnownClass = msg, cl
				}
			}
		}
	}
	return firstKnown, firstKnownClass
}

// hasBadString reports whether any string field of the File is not valid UTF-8.
func hasNonUTF8(f *fit.File) bool {
	bad := false
	var walk func(v reflect.Value)
	walk = func(v reflect.Value) {
		if bad {
			return
		}
		switch v.Kind() {
		case reflect.Ptr:
			if !v.IsNil() {
				walk(v.Elem())
			}
		case reflect.Struct:
			if v.Type() == tTime {
				return
			}
			for i := 0; i < v.NumField(); i++ {
				walk(v.Field(i))
			}
		case reflect.Slice:
			for i := 0; i < v.Len(); i++ {
				walk(v.Index(i))
			}
		case reflect.String:
			if !utf8.ValidString(v.String()) {
				bad = true
			}
		}
	}
	walk(reflect.ValueOf(f.FileId))
	walk(reflect.ValueOf(f.FileCreator))
	if c := container(f); c.IsValid() {
		walk(c)
	}
	return bad
}

func hasStringArray(f *fit.File) bool {
	found := false
	c := container(f)
	if !c.IsValid() {
		return false
	}
	var walk func(v reflect.Value)
	walk = func(v reflect.Value) {
		switch v.Kind() {
		case reflect.Ptr:
			if !v.IsNil() {
				walk(v.Elem())
			}
		case reflect.Struct:
			if v.Type() == tTime {
				return
			}
			for i := 0; i < v.NumField(); i++ {
				walk(v.Field(i))
			}
		case reflect.Slice:
			if v.Type().Elem().Kind() == reflect.String && !v.IsNil() {
				found = true
				return
			}
			for i := 0; i < v.Len(); i++ {
				walk(v.Index(i))
			}
		}
	}
	walk(c)
	return found
}

// c07Check runs the three generations for one input. Returns message, class, accepted.
var c07KnownClasses = map[string]bool{"non-utf8-string": true, "enhanced-speed-not-propagated": true, "csd-resized-then-expanded": true}

// c07Check returns the first unexplained violation (message, class), or the first
// known-class mismatch if there is no violation; c07Knowns collects all known-class ones.
func c07Check(x []byte, big bool) (string, string, bool) {
	msg, class, _, acc := c07CheckAll(x, big)
	return msg, class, acc
}

func c07CheckAll(x []byte, big bool) (string, string, [][2]string, bool) {
	var knowns [][2]string
	m, c, acc := c07check(x, big, &knowns)
	return m, c, knowns, acc
}

func c07check(x []byte, big bool, knowns *[][2]string) (string, string, bool) {
	r1 := safeDecode(bytes.NewReader(x))
	if r1.Panic != "" {
		return "Decode panics: " + r1.Panic, "decode-panic", false
	}
	if r1.Err != nil {
		return "", "", false
	}
	g1 := r1.File
	// generation 1 is what Decode returned: the comparison below uses a second decode of x that Encode never saw, so
	// that an Encode which writes into the File it is given cannot make the two sides agree
	g1ref := g1
	if rr := safeDecode(bytes.NewReader(x)); rr.Err == nil && rr.Panic == "" {
		g1ref = rr.File
	}
	b1, err, pn := safeEncode(g1, big)
	if pn != "" {
		return "Encode of a decoded File panics: " + pn, "encode-panic", true
	}
	if err != nil {
		class := "encode-error"
		if strings.Contains(err.Error(), "UTF-8") && hasNonUTF8(g1) {
			class = "non-utf8-string"
		} else if strings.Contains(err.Error(), "array of strings") && hasStringArray(g1) {
			class = "string-array"
		}
		if c07KnownClasses[class] {
			*knowns = append(*knowns, [2]string{class, "Encode of a decoded File fails: " + err.Error()})
			return "", "", true
		}
		return "Encode of a decoded File fails: " + err.Error(), class, true
	}
	if ci := safeCheckIntegrity(bytes.NewReader(b1), false); ci.Err != nil || ci.Panic != "" {
		return fmt.Sprintf("CheckIntegrity of the re-encoded bytes fails: %v %s", ci.Err, ci.Panic), "integrity", true
	}
	r2 := safeDecode(bytes.NewReader(b1))
	if r2.Err != nil || r2.Panic != "" {
		return fmt.Sprintf("Decode of the re-encoded bytes fails: %v %s", r2.Err, r2.Panic), "redecode", true
	}
	msg12, class12 := c07CompareFiles(g1ref, r2.File, false)
	if msg12 != "" {
		if !c07KnownClasses[class12] {
			return "generation 2 differs from generation 1: " + msg12, class12, true
		}
		*knowns = append(*knowns, [2]string{class12, "generation 2 differs from generation 1: " + msg12})
	}
	b2, err, pn := safeEncode(r2.File, big)
	if pn != "" || err != nil {
		return fmt.Sprintf("second Encode fails: %v %s", err, pn), "encode-error-2", true
	}
	r3 := safeDecode(bytes.NewReader(b2))
	if r3.Err != nil || r3.Panic != "" {
		return fmt.Sprintf("Decode of the twice re-encoded bytes fails: %v %s", r3.Err, r3.Panic), "redecode", true
	}
	if msg, cl := c07CompareFiles(r2.File, r3.File, true); msg != "" {
		if !c07KnownClasses[cl] {
			return "generation 3 differs from generation 2: " + msg, "fixpoint/" + cl, true
		}
		*knowns = append(*knowns, [2]string{cl, "generation 3 differs from generation 2: " + msg})
	}
	return "", "", true
}

func runC07(w *vx.W) {
	procsFamily(w, "C07", "encode")
	var k int64
	feed := func(source string, x []byte, path string) {
		k++
		if !w.Mine(k) {
			return
		}
		for _, big := range []bool{false, true} {
			msg, class, knowns, accepted := c07CheckAll(x, big)
			if !accepted && msg == "" {
				w.Fam("rejected-by-decode", 1)
				return
			}
			w.Eval(1)
			w.Fam("accepted/"+strings.SplitN(source, ":", 2)[0], 1)
			if !big {
				w.Distinct(vx.HashB(x))
			}
			rep := c07Replay{Source: source, Big: big}
			if path != "" {
				rep.Path = path
			} else {
				rep.Hex = vx.Hex(x)
			}
			for _, kn := range knowns {
				w.Known(kn[0], source+": "+kn[1], rep)
			}
			if msg != "" {
				w.Violation(class, source+": "+msg, rep)
			}
		}
	}
	p := prof()
	// (1) C02 family: every observable entry x compat defs x orders x payloads
	for _, e := range p.all {
		m := uint16(e.Mesg)
		ft, ok := hostType(m)
		if !ok || (m == 0 && e.Num == 0) {
			continue
		}
		for _, fd := range c02Defs(e) {
			for o := 0; o < 2; o++ {
				for pi, pl := range c02Payloads(e, fd, o == 1) {
					if w.Quick() && pi > 3 && pi != 7 {
						continue
					}
					feed(fmt.Sprintf("c02:%v.%d def=%02x/%d", e.Mesg, e.Num, fd.Base, fd.Size), probeStream(ft, m, o == 1, []fitmodel.FieldDef{fd}, pl), "")
				}
			}
		}
		// longer than the profile: arrays with more elements, strings beyond the length (cut outside / inside a rune), non UTF-8
		bs := fitmodel.BaseSize(e.Base)
		if e.Kind == kindNative && e.Array && e.Base != fitmodel.String {
			n := (int(e.Length) + 2) * bs
			if n <= 255 {
				pl := make([]byte, n)
				for i := range pl {
					pl[i] = byte(i + 1)
				}
				feed(fmt.Sprintf("long-array:%v.%d", e.Mesg, e.Num), probeStream(ft, m, false, []fitmodel.FieldDef{{Num: e.Num, Size: byte(n), Base: e.Base}}, pl), "")
			}
		}
		if e.Kind == kindNative && e.Base == fitmodel.String && !e.Array {
			L := int(e.Length)
			mk := func(s []byte) []byte {
				return probeStream(ft, m, false, []fitmodel.FieldDef{{Num: e.Num, Size: byte(len(s)), Base: fitmodel.String}}, s)
			}
			if L+6 <= 255 && L >= 2 {
				long := bytes.Repeat([]byte("x"), L+5)
				feed(fmt.Sprintf("long-string:%v.%d", e.Mesg, e.Num), mk(append(long, 0)), "")
				// a 2-byte rune straddling the cut position L-1
				s := bytes.Repeat([]byte("y"), L+5)
				copy(s[L-2:], "é")
				feed(fmt.Sprintf("rune-cut-string:%v.%d", e.Mesg, e.Num), mk(append(s, 0)), "")
				// a 3-byte rune straddling
				if L >= 3 {
					s3 := bytes.Repeat([]byte("z"), L+5)
					copy(s3[L-3:], "日")
					feed(fmt.Sprintf("rune-cut-string:%v.%d", e.Mesg, e.Num), mk(append(s3, 0)), "")
					s4 := bytes.Repeat([]byte("z"), L+5)
					copy(s4[L-2:], "日")
					feed(fmt.Sprintf("rune-cut-string:%v.%d", e.Mesg, e.Num), mk(append(s4, 0)), "")
				}
			}
			feed(fmt.Sprintf("non-utf8-string:%v.%d", e.Mesg, e.Num), mk([]byte{'a', 0xFF, 0xFE, 0}), "")
		}
	}
	// (2) timestamp words
	var alpha []c12Op
	T := uint32(c12T)
	for _, v := range []uint32{T, T + 31, 0xFFFFFFFF, 0x10000000} {
		alpha = append(alpha, c12Op{Kind: "E", V: v})
	}
	alpha = append(alpha, c12Op{Kind: "C", Off: 1}, c12Op{Kind: "C", Off: 31}, c12Op{Kind: "X", Off: 7, V: T + 100}, c12Op{Kind: "N", Off: 20}, c12Op{Kind: "U", Off: 9},
		c12Op{Kind: "L", V: T + 3600}, c12Op{Kind: "L", V: T - 7195}, c12Op{Kind: "B", V: T + 64, V2: T + 64 + 7200}, c12Op{Kind: "B", V: T + 65, V2: T + 65 - 39600})
	seqWords(len(alpha), 2, func(int64) bool { return true }, func(word []int) bool {
		ops := make([]c12Op, len(word))
		for i, a := range word {
			ops[i] = alpha[a]
		}
		for _, big := range []bool{false, true} {
			if s, _, _, why := c12Stream(ops, big); why == "" {
				feed("c12:"+ops2(ops), s, "")
			}
		}
		return true
	})
	// (2b) placement of a local time: before or after its message's own timestamp (or alone), after a record whose
	// timestamp is a few seconds or minutes away, at zone offsets on and next to whole quarter hours
	for _, order := range []int{0, 1, 2} {
		for _, d := range []int{-3, 0, 3, 47} {
			for _, off := range []int{0, 3, 3600, 3613, 12307, -897, 898, 35999, -39600} {
				for _, big := range []bool{false, true} {
					var bo binary.ByteOrder = binary.LittleEndian
					if big {
						bo = binary.BigEndian
					}
					u32 := func(v int) []byte { return fitmodel.PutUint(bo, 4, uint64(uint32(v))) }
					ts, local := int(T)+60, int(T)+60+off
					ad := fitmodel.Def{Local: 2, Big: big, Global: 34}
					var pl []byte
					switch order {
					case 0:
						ad.Fields = []fitmodel.FieldDef{{Num: 5, Size: 4, Base: fitmodel.Uint32}, {Num: 253, Size: 4, Base: fitmodel.Uint32}}
						pl = append(u32(local), u32(ts)...)
					case 1:
						ad.Fields = []fitmodel.FieldDef{{Num: 253, Size: 4, Base: fitmodel.Uint32}, {Num: 5, Size: 4, Base: fitmodel.Uint32}}
						pl = append(u32(ts), u32(local)...)
					case 2:
						ad.Fields = []fitmodel.FieldDef{{Num: 5, Size: 4, Base: fitmodel.Uint32}}
						pl = u32(local)
					}
					recs := append(fitmodel.FileIdRecords(0, 4), recordDef(1, big).Bytes(), recordData(1, big, uint32(ts+d), 70, 100), ad.Bytes(), fitmodel.Data(2, pl))
					feed(fmt.Sprintf("local-placement:order%d ref%+ds zone%+ds", order, d, off), fitmodel.File(fitmodel.DefaultHeader, recs...), "")
				}
			}
		}
	}
	// (2c) long runs: decoded Files of tens of thousands of messages (re-encoded sizes above 64 KiB, slices grown many
	// times) through the generations
	for _, l := range []longRun{{0, 0, 2, 4097}, {1, 0, 2, 4097}, {1, 1, 2, 8193}, {3, 6, 7, 4097}, {0, 13, 2, 65537}, {1, 0, 2, 65537}, {2, 5, 2, 4097}} {
		if st, _, ok := mixStream(l.ops(), true); ok {
			feed("long-run:"+l.String(), st, "")
		}
	}
	// (3) slot words
	a13 := c13Alphabet([]byte{0, 1, 3})
	seqWords(len(a13), 2, func(int64) bool { return true }, func(word []int) bool {
		ops := make([]c13Op, len(word))
		for i, a := range word {
			ops[i] = a13[a]
		}
		s, _ := c13Run(0, ops)
		feed("c13:"+wordString(ops), s, "")
		return true
	})
	// (4) component streams
	for _, ft := range []byte{byte(fit.FileTypeActivity), byte(fit.FileTypeCourse)} {
		for _, b1 := range []byte{0x00, 0x0F, 0xF0, 0x5A} {
			for _, b2 := range []byte{0x00, 0xF0, 0x12} {
				for _, withSpeed := range []bool{false, true} {
					msgs := []c18Msg{{20, []c18Field{fB("CompressedSpeedDistance", 0x33, b1, b2), fU("Cycles", 1, 7), fU("CompressedAccumulatedPower", 2, 0x0102)}},
						{20, []c18Field{fB("CompressedSpeedDistance", 0x44, b2, b1)}}}
					if withSpeed {
						msgs[0].Fields = append(msgs[0].Fields, fU("Speed", 2, 0x0777), fU("Altitude", 2, 0x0888))
					}
					parts := fitmodel.FileIdRecords(0, ft)
					for i, m := range msgs {
						rec, _ := m.wire(byte(1+i), false, ft, false)
						parts = append(parts, rec)
					}
					feed(fmt.Sprintf("c18:csd %02x %02x speed=%v", b1, b2, withSpeed), fitmodel.File(fitmodel.DefaultHeader, parts...), "")
				}
			}
		}
	}
	for _, ev := range []uint64{uint64(fit.EventSportPoint), uint64(fit.EventRearGearChange), uint64(fit.EventTimer)} {
		for _, d := range []uint64{0x01020304, 0xFFFFFFFF} {
			m := c18Msg{21, []c18Field{fU("Event", 1, ev), fU("Data", 4, d), fU("Data16", 2, 0x0A0B)}}
			rec, _ := m.wire(1, true, 4, false)
			feed("c18:event", fitmodel.File(fitmodel.DefaultHeader, append(fitmodel.FileIdRecords(0, 4), rec)...), "")
		}
	}
	for _, m := range []uint16{18, 19, 142} {
		for _, ft := range hostedIn(m) {
			mm := c18Msg{m, []c18Field{fU("AvgAltitude", 2, 0x1234), fU("MaxAltitude", 2, 0xFFFF), fU("MinAltitude", 2, 0)}}
			rec, _ := mm.wire(1, false, ft, false)
			feed("c18:altitudes", fitmodel.File(fitmodel.DefaultHeader, append(fitmodel.FileIdRecords(0, ft), rec)...), "")
		}
	}
	// (5) shared valid streams, repeated file_id, developer fields
	for _, s := range []namedStream{sMin12, sMin14, sMin14z, sAct3, sAct3BE, sSet, sBig} {
		feed("stream:"+s.Name, s.B, "")
	}
	{
		parts := fitmodel.FileIdRecords(0, 4)
		parts = append(parts, fitmodel.Data(0, []byte{4}), recordDef(1, false).Bytes(), recordData(1, false, T, 60, 5), fitmodel.Data(0, []byte{4}))
		feed("repeated-file_id", fitmodel.File(fitmodel.DefaultHeader, parts...), "")
		d := fitmodel.Def{Local: 1, Global: 20, Fields: []fitmodel.FieldDef{{Num: 3, Size: 1, Base: fitmodel.Uint8}}, DevFlag: true, Dev: []fitmodel.DevDef{{Num: 0, Size: 2, Idx: 0}}}
		feed("developer-fields", fitmodel.File(fitmodel.DefaultHeader, append(fitmodel.FileIdRecords(0, 4), d.Bytes(), fitmodel.Data(1, []byte{70, 1, 2}))...), "")
	}
	// (7) mix-family words (both byte orders, zero-field and developer-field definitions, unknown items, local times,
	// unhosted messages, redefinitions) and files in which every member holds fully populated messages
	{
		alphaM := mixAlphabet()
		ml := 2
		if !w.Quick() {
			ml = 3
		}
		seqWords(len(alphaM), ml, func(int64) bool { return true }, func(word []int) bool {
			var ops []mixOp
			for _, a := range word {
				ops = append(ops, alphaM[a])
			}
			if st, full, ok := mixStream(ops, true); ok {
				feed("mix:"+mixWordString(full), st, "")
			}
			return true
		})
		for _, t := range fileTypes {
			for seed := 1; seed <= 2; seed++ {
				st, _ := richStream(byte(t.Type), seed*17, seed)
				feed(fmt.Sprintf("rich:%s/%d", t.Name, seed), st, "")
			}
			// sparse after rich: the same slice holds messages with many fields and messages with one
			for _, sl := range hosts()[byte(t.Type)] {
				if !sl.IsSlice {
					continue
				}
				r1, _ := richRecord(sl.Mesg, 1, 5, false, byte(t.Type))
				var sparse []byte
				for _, e := range p.byMesg[sl.Mesg] {
					if e.Kind == kindNative && !e.Array && e.Base != fitmodel.String && fitmodel.BaseSize(e.Base) <= 4 {
						d := fitmodel.Def{Local: 2, Big: true, Global: sl.Mesg, Fields: []fitmodel.FieldDef{{Num: e.Num, Size: byte(fitmodel.BaseSize(e.Base)), Base: e.Base}}}
						sparse = fitmodel.Concat(d.Bytes(), fitmodel.Data(2, fitmodel.PutUint(d.Order(), fitmodel.BaseSize(e.Base), 9)))
						break
					}
				}
				if sparse == nil {
					continue
				}
				r3, _ := richRecord(sl.Mesg, 3, 8, true, byte(t.Type))
				feed(fmt.Sprintf("rich-sparse-rich:%s/%s", t.Name, sl.Name), fitmodel.File(fitmodel.DefaultHeader, append(fitmodel.FileIdRecords(0, byte(t.Type)), r1, sparse, r3, sparse)...), "")
			}
		}
	}
	// (8) string sequences: records of one message whose string field holds a longer, then a shorter value (multi-byte
	// runes whose lead byte falls where the shorter string ends), all ordered pairs and a triple
	{
		strs := []string{"Zürich", "A", "", "日本語", "Zü", "plain ascii text"}
		for _, e := range p.all {
			m := uint16(e.Mesg)
			if e.Kind != kindNative || e.Base != fitmodel.String || e.Array || int(e.Length) < 8 {
				continue
			}
			ft, ok := hostType(m)
			if !ok || !slotIsSlice(ft, m) {
				continue
			}
			size := 20
			field := func(v string) []byte {
				b := make([]byte, size)
				copy(b, v)
				return b
			}
			d := fitmodel.Def{Local: 1, Global: m, Fields: []fitmodel.FieldDef{{Num: e.Num, Size: byte(size), Base: fitmodel.String}}}
			for i, a := range strs {
				for j, b := range strs {
					parts := append(fitmodel.FileIdRecords(0, ft), d.Bytes(), fitmodel.Data(1, field(a)), fitmodel.Data(1, field(b)), fitmodel.Data(1, field(strs[(i+j+1)%len(strs)])))
					feed(fmt.Sprintf("string-sequence:%v.%d %q %q", e.Mesg, e.Num, a, b), fitmodel.File(fitmodel.DefaultHeader, parts...), "")
				}
			}
		}
	}
	// (10) consecutive messages of one slice that differ in exactly one field, for every field of the messages with more
	// than 60 fields (session, lap, segment_lap ...): bookkeeping over field sets must not be limited to a machine word
	for _, e := range p.all {
		m := uint16(e.Mesg)
		if len(p.byMesg[m]) <= 60 || e.Kind != kindNative || e.Array || e.Base == fitmodel.String || fitmodel.BaseSize(e.Base) > 4 {
			continue
		}
		ft, ok := hostType(m)
		if !ok || !slotIsSlice(ft, m) {
			continue
		}
		base := p.byMesg[m][0]
		for _, b0 := range p.byMesg[m] {
			if b0.Kind == kindNative && !b0.Array && b0.Base != fitmodel.String && fitmodel.BaseSize(b0.Base) <= 4 && b0.Num != e.Num {
				base = b0
				break
			}
		}
		bsB, bsE := fitmodel.BaseSize(base.Base), fitmodel.BaseSize(e.Base)
		d1 := fitmodel.Def{Local: 1, Global: m, Fields: []fitmodel.FieldDef{{Num: base.Num, Size: byte(bsB), Base: base.Base}}}
		d2 := fitmodel.Def{Local: 2, Big: true, Global: m, Fields: []fitmodel.FieldDef{{Num: base.Num, Size: byte(bsB), Base: base.Base}, {Num: e.Num, Size: byte(bsE), Base: e.Base}}}
		parts := append(fitmodel.FileIdRecords(0, ft), d1.Bytes(), fitmodel.Data(1, fitmodel.PutUint(d1.Order(), bsB, 5)),
			d2.Bytes(), fitmodel.Data(2, fitmodel.Concat(fitmodel.PutUint(d2.Order(), bsB, 5), fitmodel.PutUint(d2.Order(), bsE, 9))),
			fitmodel.Data(1, fitmodel.PutUint(d1.Order(), bsB, 6)))
		feed(fmt.Sprintf("delta-field:%v.%d", e.Mesg, e.Num), fitmodel.File(fitmodel.DefaultHeader, parts...), "")
	}
	// (11) every protocol-version byte 0x00..0x3F in the header (12- and 14-byte): a version Decode accepts is a
	// version Encode must be able to write back
	for pv := 0; pv < 0x40; pv++ {
		for _, h := range []fitmodel.Header{hdr12(), hdr14()} {
			h.Proto = byte(pv)
			parts := append(fitmodel.FileIdRecords(0, 4), recordDef(1, false).Bytes(), recordData(1, false, 1000000000, 60, 5))
			feed(fmt.Sprintf("protocol-version:%#02x/header%d", pv, h.Size), fitmodel.File(h, parts...), "")
		}
	}
	// (9) every file_id.type byte: whatever type Decode accepts must be a type Encode can write
	for t := 0; t < 256; t++ {
		parts := append(fitmodel.FileIdRecords(0, byte(t)), recordDef(1, false).Bytes(), recordData(1, false, 1000000000, 60, 5))
		feed(fmt.Sprintf("file-type:%d", t), fitmodel.File(fitmodel.DefaultHeader, parts...), "")
	}
	// (6) corpus
	for i, b := range crasherInputs() {
		feed(fmt.Sprintf("crasher:%d", i), b, "")
	}
	for _, path := range corpusFiles() {
		b, err := os.ReadFile(path)
		if err != nil {
			continue
		}
		if w.Quick() && len(b) > 400000 {
			continue
		}
		feed("corpus:"+path, nil2(b), path)
	}
	if w.Shard == 0 {
		w.Sample(map[string]interface{}{"source": "stream:" + sAct3.Name, "stream_hex": vx.Hex(sAct3.B), "generations": "decode, encode, decode, encode, decode"})
	}
}

func nil2(b []byte) []byte { return b }
