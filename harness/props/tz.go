package props

import (
	"bytes"
	"encoding/binary"
	"fmt"
	"strings"
	"time"

	"github.com/tormoder/fit"

	"verif/fitmodel"
	"verif/vx"
)

// Process time zone as an environment answer: what Decode returns and what Encode writes must not depend on the zone
// the process runs in (time.Local). A compact family — decoded dumps of timestamp-bearing streams, Encode outputs of
// Files whose times carry UTC, fixed and named zones, the time conversions at their boundaries — is executed in fresh
// processes under three settings of TZ and the digests are compared. Shared by C06, C12 and C17.

func tzDigest() string {
	var sb strings.Builder
	// decoded dumps: mix words up to length 2 (explicit, compressed and local timestamps), a zone-offset sweep file
	alpha := mixAlphabet()
	seqWords(len(alpha), 2, func(int64) bool { return true }, func(word []int) bool {
		var ops []mixOp
		for _, a := range word {
			ops = append(ops, alpha[a])
		}
		if st, _, ok := mixStream(ops, true); ok {
			res := safeDecode(bytes.NewReader(st))
			fmt.Fprintf(&sb, "%v|%s\n", res.Err, dumpFile(res.File))
		}
		return true
	})
	for _, start := range []int{-54000, -500, 0, 49900, 53500} {
		st, _ := localSweepFile(start, start%2 == 0)
		res := safeDecode(bytes.NewReader(st))
		fmt.Fprintf(&sb, "%v|%s\n", res.Err, dumpFile(res.File))
	}
	// local times whose distance from UTC equals an offset one of the process zones uses in either of its regimes
	// (+5:45; -3:30 / -2:30; +12:45 / +13:45; a few others), at instants in September 2021, January 2022, October 2026
	// and March 2027 — i.e. inside and outside daylight-saving time on both hemispheres
	for _, off := range []int{20700, -12600, -9000, 45900, 49500, 0, 3600, 7200, -18000} {
		for _, inst := range []int{1000000000, 1010000000, 1161000000, 1174000000} {
			for _, big := range []bool{false, true} {
				var bo binary.ByteOrder = binary.LittleEndian
				if big {
					bo = binary.BigEndian
				}
				u32 := func(v int) []byte { return fitmodel.PutUint(bo, 4, uint64(uint32(v))) }
				ad := fitmodel.Def{Local: 2, Big: big, Global: 34, Fields: []fitmodel.FieldDef{{Num: 253, Size: 4, Base: fitmodel.Uint32}, {Num: 5, Size: 4, Base: fitmodel.Uint32}}}
				md := fitmodel.Def{Local: 3, Big: big, Global: 55, Fields: []fitmodel.FieldDef{{Num: 11, Size: 4, Base: fitmodel.Uint32}}}
				recs := append(fitmodel.FileIdRecords(0, 4), recordDef(1, big).Bytes(), recordData(1, big, uint32(inst), 70, 100),
					ad.Bytes(), fitmodel.Data(2, append(u32(inst+30), u32(inst+30+off)...)), md.Bytes(), fitmodel.Data(3, u32(inst+30+off)))
				res := safeDecode(bytes.NewReader(fitmodel.File(fitmodel.DefaultHeader, recs...)))
				fmt.Fprintf(&sb, "%v|%s\n", res.Err, dumpFile(res.File))
			}
		}
	}
	// Encode outputs: times given in UTC, in fixed zones, in a named zone and as time.Local
	zones := []*time.Location{time.UTC, time.FixedZone("X", 3600), time.FixedZone("Y", -12307), time.Local}
	if l := genDSTZone(); l != nil {
		zones = append(zones, l)
	}
	for zi, z := range zones {
		f, _ := fit.NewFile(fit.FileTypeActivity, fit.NewHeader(fit.V20, true))
		a, _ := f.Activity()
		m := fit.NewActivityMsg()
		inst := time.Unix(fitmodel.FitEpoch+1000000000, 0)
		m.Timestamp = inst.In(z)
		m.LocalTimestamp = inst.In(time.FixedZone("FITLOCAL", 7200))
		a.Activity = m
		r := fit.NewRecordMsg()
		r.Timestamp = inst.Add(time.Minute).In(z)
		a.Records = append(a.Records, r)
		var buf bytes.Buffer
		err := fit.Encode(&buf, f, binary.LittleEndian)
		out := buf.Bytes()
		if zi == 3 {
			// time.Local is the one input that differs between the processes: the same instant must give the same bytes
		}
		fmt.Fprintf(&sb, "enc%d %v %s\n", zi, err, vx.Hex(out))
		if err == nil {
			res := safeDecode(bytes.NewReader(out))
			fmt.Fprintf(&sb, "%v|%s\n", res.Err, dumpFile(res.File))
		}
	}
	// conversions
	for _, x := range []uint32{0, 1, 86399, 86400, 0x0FFFFFFF, 0x10000000, 1000000000, 0x7FFFFFFF, 0x80000000, 0xFFFFFFFE, 0xFFFFFFFF} {
		t := fit.VerifDecodeDateTime(x)
		fmt.Fprintf(&sb, "dt %d %d %s %v %d\n", x, t.Unix(), t.Format(time.RFC3339), fit.IsBaseTime(t), fit.VerifEncodeTime(t))
		fmt.Fprintf(&sb, "et %d\n", fit.VerifEncodeTime(t.In(time.Local)))
	}
	return fmt.Sprintf("%016x %d", vx.Hash(sb.String()), sb.Len())
}

var tzSettings = []string{"UTC", "Asia/Kathmandu", "America/St_Johns", "Pacific/Chatham"}

// tzFamily runs the digest under each TZ in a fresh process; any difference is a dependence on the process zone.
func tzFamily(w *vx.W, id string) {
	if w.Shard != 0 {
		return
	}
	var first string
	for i, tz := range tzSettings {
		out, err := vx.SubRunEnv(id, []string{"TZ=" + tz}, "tz")
		if err != nil {
			w.HarnessError("time-zone family under TZ=%s: %v", tz, err)
		}
		got := strings.TrimSpace(string(out))
		w.Eval(1)
		w.Trace(1)
		w.Fam("process-time-zones", 1)
		if i == 0 {
			first = got
			continue
		}
		if got != first {
			w.Violation("depends-on-process-time-zone", fmt.Sprintf("decoded content / encoded bytes / time conversions differ between TZ=%s (%s) and TZ=%s (%s)", tzSettings[0], first, tz, got), map[string]interface{}{"tz": tz})
		}
	}
}

// tzSub serves `--sub tz`.
func tzSub(args []string) bool {
	if procsSub(args) || envSub(args) {
		return true
	}
	if len(args) > 0 && args[0] == "tz" {
		fmt.Println(tzDigest())
		return true
	}
	return false
}
