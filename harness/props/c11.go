package props

import (
	"bytes"
	"encoding/json"
	"fmt"
	"io"
	"strings"

	"github.com/tormoder/fit"

	"verif/fitmodel"
	"verif/vx"
)

var c11Entries = append(append([]string{}, entryNames...), "Decode+options", "DecodeChained+options")

// C11: truncation and read faults never yield silent success.

type c11Replay struct {
	Stream  string `json:"stream"`
	Hex     string `json:"stream_hex"`
	Entry   string `json:"entry"`
	Kind    string `json:"kind"` // cut | fault | fault-with-data
	Offset  int    `json:"offset"`
	OneByte bool   `json:"one_byte_reads"`
}

func init() {
	vx.Register(&vx.Prop{
		ID:    "C11",
		Level: "fault_enumeration",
		Rule: "every valid stream (single files with 12/14-byte headers, with zero header CRC, 2- and 3-chains) x every cut offset 0..len x every fault offset (reader returns a non-EOF error from that offset on, alone or together with the preceding bytes of the same call) x six entry points x {whole-buffer, 1-byte} reads. " +
			"Oracle: non-nil error unless the entry point's frame ends before the cut/fault or (cuts only) the cut is exactly on a member boundary of a chain after >=1 file; Files returned with the error hold exactly the messages of records complete before the offset (compared, per message type, with the first n messages of the uncut stream's decode, n = data records complete before the offset per the independent parser); complete chain members equal their stand-alone decode. " +
			"distinct = distinct (stream, entry, kind, offset, read mode) cases",
		Assumptions: []string{"record boundaries come from the independent grammar parser; streams with messages in single-valued slots carry no partial-content demand"},
		Run:         runC11,
		Sub:         func(args []string) { tzSub(args) },
		Replay: func(raw json.RawMessage) (string, error) {
			var r c11Replay
			json.Unmarshal(raw, &r)
			res := callEntry(r.Entry, c11Reader(vx.UnHex(r.Hex), r.Kind, r.Offset, r.OneByte))
			n := 0
			if res.Files != nil {
				n = len(res.Files)
			}
			return fmt.Sprintf("err=%v panic=%q files=%d file=%s", res.Err, res.Panic, n, trunc(dumpFileContent(res.File), 300)), nil
		},
	})
}

// faultReader delivers data[:off] and then fails with errInjected forever.
type faultReader struct {
	data     []byte
	pos      int
	off      int
	withData bool // a read spanning off returns the bytes before off together with the error
	chunk    int
	err      error // the error value (errInjected if nil)
}

func (r *faultReader) fault() error {
	if r.err != nil {
		return r.err
	}
	return errInjected
}

func (r *faultReader) Read(p []byte) (int, error) {
	if len(p) == 0 {
		return 0, nil
	}
	if r.pos >= r.off {
		return 0, r.fault()
	}
	n := len(p)
	if r.chunk > 0 && n > r.chunk {
		n = r.chunk
	}
	if r.pos+n >= r.off {
		n = r.off - r.pos
		copy(p, r.data[r.pos:r.pos+n])
		r.pos += n
		if r.withData {
			return n, r.fault()
		}
		return n, nil
	}
	copy(p, r.data[r.pos:r.pos+n])
	r.pos += n
	return n, nil
}

func c11Reader(data []byte, kind string, off int, oneByte bool) io.Reader {
	chunk := 0
	if oneByte {
		chunk = 1
	}
	switch kind {
	case "cut":
		return &countingReader{b: data[:off], chunk: chunk}
	case "fault":
		return &faultReader{data: data, off: off, chunk: chunk}
	case "fault-unexpected-eof":
		// a non-EOF error value that transport layers really return (truncated gzip / http bodies)
		return &faultReader{data: data, off: off, chunk: chunk, err: io.ErrUnexpectedEOF}
	case "fault-closed-pipe":
		return &faultReader{data: data, off: off, chunk: chunk, err: io.ErrClosedPipe}
	default:
		return &faultReader{data: data, off: off, withData: true, chunk: chunk}
	}
}

// c11Partial returns what the File for member m must hold when only m[:avail] could be read: for every message
// type, the messages of the data records that are complete before the offset (record boundaries from the
// independent parser), taken from the decode of the *uncut* member. ok=false when the file_id record is incomplete
// or the member holds messages in single-valued slots (no demand then).
func c11Partial(m []byte, avail int) (map[uint16][]string, bool) {
	p, _, err := fitmodel.ParseOne(m)
	if err != nil || len(p.Recs) == 0 {
		return nil, false
	}
	full := safeDecode(bytes.NewReader(m))
	if full.Err != nil || full.Panic != "" {
		return nil, false
	}
	counts := map[uint16]int{}
	for i, r := range p.Recs {
		end := r.Offset + 1 + len(r.Payload)
		if end > avail {
			if i == 0 {
				return nil, false // file_id record incomplete
			}
			break
		}
		counts[r.Def.Global]++
	}
	out := map[uint16][]string{}
	ft := byte(full.File.Type())
	for _, sl := range hosts()[ft] {
		if !sl.IsSlice {
			if len(messagesOf(full.File, sl.Mesg)) > 0 {
				return nil, false
			}
			continue
		}
		all := messagesOf(full.File, sl.Mesg)
		n := counts[sl.Mesg]
		if n > len(all) {
			return nil, false
		}
		var ds []string
		for _, v := range all[:n] {
			ds = append(ds, fitmodel.Dump(v))
		}
		out[sl.Mesg] = ds
	}
	return out, true
}

// c11PartialDiff compares the File returned with an error against the expectation.
func c11PartialDiff(f *fit.File, want map[uint16][]string) string {
	if f == nil {
		return "no File returned although the header and the file_id record were complete"
	}
	for m, ds := range want {
		got := messagesOf(f, m)
		if len(got) != len(ds) {
			return fmt.Sprintf("%v: File holds %d message(s), %d records were complete before the offset", fit.MesgNum(m), len(got), len(ds))
		}
		for i := range got {
			if fitmodel.Dump(got[i]) != ds[i] {
				return fmt.Sprintf("%v #%d differs from the message decoded from the uncut stream", fit.MesgNum(m), i)
			}
		}
	}
	return ""
}

func runC11(w *vx.W) {
	procsFamily(w, "C11", "chain-faults")
	crcStreams()
	streams := []namedStream{sMin12, sMin14, sMin14z, sAct3, sAct3BE, sSet, sZero, sDev, sMonState, sChain2, sChain2b, sChain3, sChainZero, sChainState, sCRChi0, sCRClo0, sCRC00, sChainCRC0, sLongFields, sLongFieldsL, sUnkTail}
	if !w.Quick() {
		streams = append(streams, sBig, sChainBig, s8192)
	}
	streams = append(streams, s4096)
	// a file of 80 KiB (what a decoder does differently once it has consumed 64 KiB): a sparse offset set
	s140k := single("activity-datasize-81920", sizedActivity(hdr14(), 81920))
	streams = append(streams, s140k)
	kinds := []string{"cut", "fault", "fault-with-data", "fault-unexpected-eof", "fault-closed-pipe"}
	var idx int64
	for _, s := range streams {
		// member boundaries
		bounds := []int{0}
		for _, m := range s.Members {
			bounds = append(bounds, bounds[len(bounds)-1]+len(m))
		}
		aloneOpt := make([]string, len(s.Members)) // the same with decode options (the lists they add are part of the dump)
		for i, m := range s.Members {
			aloneOpt[i] = dumpFile(callEntry("Decode+options", bytes.NewReader(m)).File)
		}
		aloneBare := make([]string, len(s.Members))
		for i, m := range s.Members {
			aloneBare[i] = dumpFile(safeDecode(bytes.NewReader(m)).File)
		}
		first := s.Members[0]
		hs := int(first[0])
		// where the first data record (file_id) ends: what DecodeHeaderAndFileID needs
		fileIdEnd := hs + 11
		if pp, _, perr := fitmodel.ParseOne(first); perr == nil && len(pp.Recs) > 0 {
			fileIdEnd = pp.Recs[0].Offset + 1 + len(pp.Recs[0].Payload)
		}
		for off := 0; off <= len(s.B); off++ {
			if s.Name == s140k.Name {
				// the offsets around every multiple of 32 KiB, every 1021st offset beyond 64 KiB, the last 40 offsets
				near := off%32768 <= 2 || off%32768 >= 32766
				if !(near || (off > 65536 && off%1021 == 0) || off >= len(s.B)-40) {
					continue
				}
			} else if len(s.B) > 2000 && off > 300 && off < len(s.B)-300 && off%97 != 0 && off%4096 > 2 && off%4096 < 4094 &&
				!((s.Name == sLongFields.Name || s.Name == sLongFieldsL.Name) && off > 3800 && off < 4600 && off%3 == 0) {
				continue
			}
			for _, kind := range kinds {
				if s.Name == s140k.Name && kind != "cut" && kind != "fault" {
					continue
				}
				for _, ob := range []bool{false, true} {
					for _, en := range c11Entries {
						e := strings.TrimSuffix(en, "+options") // same obligations with and without decode options
						alone := aloneBare
						if e != en {
							alone = aloneOpt
						}
						idx++
						if !w.Mine(idx) {
							continue
						}
						res := callEntry(en, c11Reader(s.B, kind, off, ob))
						w.Eval(1)
						w.Distinct(uint64(idx))
						rep := c11Replay{s.Name, vx.Hex(s.B), en, kind, off, ob}
						where := fmt.Sprintf("%s on %s, %s at offset %d/%d (one-byte reads: %v)", en, s.Name, kind, off, len(s.B), ob)
						if res.Panic != "" {
							w.Violation("panic/"+e, where+": panic "+res.Panic, rep)
							continue
						}
						// frame needed by this entry point
						need := len(first)
						switch e {
						case "DecodeHeader", "CheckIntegrityHeaderOnly":
							need = hs
						case "DecodeHeaderAndFileID":
							need = fileIdEnd
						case "DecodeChained":
							need = len(s.B)
						}
						mustFail := off < need
						if e == "DecodeChained" {
							// which member is incomplete
							// DecodeChained reads to the end of input by contract, so a reader that
							// fails (instead of reporting EOF) after the last member is an error too.
							mustFail = off < len(s.B) || kind != "cut"
							if kind == "cut" {
								for _, b := range bounds[1:] {
									if off == b {
										mustFail = false
									}
								}
							}
						}
						if mustFail && res.Err == nil {
							key := "silent-success/" + e + "/" + kind
							if e == "DecodeChained" && kind != "cut" {
								onBoundary := false
								for _, b := range bounds[1:] {
									if off == b {
										onBoundary = true
									}
								}
								if onBoundary {
									key = "chained-boundary-fault-swallowed"
								}
							}
							w.Violation(key, where+": returned nil error", rep)
							continue
						}
						if !mustFail && res.Err != nil {
							w.Violation("spurious-error/"+e, where+": frame is complete but error: "+res.Err.Error(), rep)
							continue
						}
						// content of returned Files
						switch e {
						case "Decode":
							if res.Err == nil {
								if dumpFile(res.File) != alone[0] {
									w.Violation("content/"+e, where+": complete frame decoded differently", rep)
								}
								continue
							}
							if off < hs {
								if res.File != nil {
									w.Violation("content/"+e, where+": File returned although the header is incomplete", rep)
								}
								continue
							}
							if want, ok := c11Partial(first, off); ok {
								if d := c11PartialDiff(res.File, want); d != "" {
									w.Violation("partial-content/"+e, where+": File returned with the error does not hold exactly the complete records: "+d, rep)
								}
								w.Fam("partial-content-compared", 1)
							}
						case "DecodeChained":
							// complete members before off
							nComplete := 0
							for i := 1; i < len(bounds); i++ {
								if bounds[i] <= off {
									nComplete = i
								}
							}
							for i := 0; i < nComplete && i < len(res.Files); i++ {
								if dumpFile(res.Files[i]) != alone[i] {
									w.Violation("chain-member-content", fmt.Sprintf("%s: member %d differs from its stand-alone decode", where, i), rep)
								}
							}
							if res.Err == nil {
								if len(res.Files) != nComplete {
									w.Violation("chain-count", fmt.Sprintf("%s: %d files returned, %d members complete", where, len(res.Files), nComplete), rep)
								}
								continue
							}
							if nComplete >= len(s.Members) {
								continue
							}
							rel := off - bounds[nComplete]
							m := s.Members[nComplete]
							wantFiles := nComplete
							if rel >= int(m[0]) {
								wantFiles++
							}
							if len(res.Files) != wantFiles {
								w.Violation("chain-count", fmt.Sprintf("%s: %d files returned with the error, expected %d", where, len(res.Files), wantFiles), rep)
								continue
							}
							if wantFiles > nComplete {
								if want, ok := c11Partial(m, rel); ok {
									if d := c11PartialDiff(res.Files[nComplete], want); d != "" {
										w.Violation("partial-content/"+e, where+": partial last File does not hold exactly the complete records: "+d, rep)
									}
									w.Fam("partial-content-compared", 1)
								}
							}
						}
					}
				}
			}
		}
	}
	// ---- fault answers inside deviation-bounded read schedules (Env explorer, bound 2)
	var caseNo int64
	for _, s := range []namedStream{sMin12, sAct3, sChain2} {
		for _, e := range []string{"Decode", "DecodeChained", "CheckIntegrity", "DecodeHeaderAndFileID"} {
			for _, ob := range []bool{false, true} {
				caseNo++
				cn := caseNo
				first := s.Members[0]
				need := len(first)
				switch e {
				case "DecodeHeaderAndFileID":
					need = int(first[0]) + 11
				case "DecodeChained":
					need = len(s.B) + 1 // reads until end of input
				}
				var res callResult
				_, _, err := envExplore(s.B, ob, true, 2,
					func(k int64) bool { return w.Mine(k + cn) },
					func(r *envReader) { res = callEntry(e, r) },
					func(x *envExec, choices []int) {
						w.Eval(1)
						w.Fam("env-fault-schedules", 1)
						// position at which the first injected fault was answered (if any)
						faultAt := -1
						for _, p := range x.points {
							if p.err == errInjected {
								faultAt = p.pos + p.n
								break
							}
						}
						rep := c11Replay{s.Name, vx.Hex(s.B), e, fmt.Sprintf("schedule %v", choices), faultAt, ob}
						if res.Panic != "" {
							w.Violation("panic/"+e, fmt.Sprintf("%s on %s under read schedule %v: panic %s", e, s.Name, choices, res.Panic), rep)
							return
						}
						if faultAt >= 0 && faultAt < need && res.Err == nil {
							w.Violation("silent-success/"+e+"/env-fault", fmt.Sprintf("%s on %s: read schedule %v injects a fault at offset %d (frame needs %d bytes) but the call returns nil", e, s.Name, choices, faultAt, need), rep)
						}
						if faultAt < 0 && res.Err != nil {
							w.Violation("spurious-error/"+e, fmt.Sprintf("%s on %s: fault-free read schedule %v fails: %v", e, s.Name, choices, res.Err), rep)
						}
					})
				if err != nil {
					w.HarnessError("C11 env %s/%s: %v", s.Name, e, err)
				}
			}
		}
	}
	w.Sample(map[string]interface{}{"stream": sChain2.Name, "stream_hex": vx.Hex(sChain2.B), "kinds": kinds, "offsets": fmt.Sprintf("0..%d", len(sChain2.B)), "entries": entryNames})
	_ = fit.V20
}
