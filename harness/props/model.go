package props

import (
	"reflect"
	"time"

	"github.com/tormoder/fit"

	"verif/fitmodel"
)

const (
	kindNative = 0
	kindUTC    = 1
	kindLocal  = 2
	kindLat    = 3
	kindLng    = 4
)

var (
	tTime = reflect.TypeOf(time.Time{})
	tLat  = reflect.TypeOf(fit.Latitude{})
	tLng  = reflect.TypeOf(fit.Longitude{})
)

// goKindForBase: the Go kind a scalar of the given protocol base type is stored in.
func goKindForBase(b byte) reflect.Kind {
	switch b {
	case fitmodel.Enum, fitmodel.Uint8, fitmodel.Uint8z, fitmodel.Byte:
		return reflect.Uint8
	case fitmodel.Sint8:
		return reflect.Int8
	case fitmodel.Sint16:
		return reflect.Int16
	case fitmodel.Uint16, fitmodel.Uint16z:
		return reflect.Uint16
	case fitmodel.Sint32:
		return reflect.Int32
	case fitmodel.Uint32, fitmodel.Uint32z:
		return reflect.Uint32
	case fitmodel.String:
		return reflect.String
	case fitmodel.Float32:
		return reflect.Float32
	case fitmodel.Float64:
		return reflect.Float64
	case fitmodel.Sint64:
		return reflect.Int64
	case fitmodel.Uint64, fitmodel.Uint64z:
		return reflect.Uint64
	}
	return reflect.Invalid
}

func isIntLike(b byte) bool {
	return fitmodel.BaseInteger(b) || b == fitmodel.Enum || b == fitmodel.Byte
}

// compat reports whether definition fd is in the compat set for profile entry e
// (the set for which the property promises the wire value).
func compat(e fit.VerifField, fd fitmodel.FieldDef) bool {
	bs := fitmodel.BaseSize(fd.Base)
	if bs == 0 || fd.Size == 0 {
		return false
	}
	switch e.Kind {
	case kindNative:
		if e.Base == fitmodel.String {
			return fd.Base == fitmodel.String
		}
		if e.Array {
			return fd.Base == e.Base && int(fd.Size)%bs == 0
		}
		if !isIntLike(e.Base) || !isIntLike(fd.Base) {
			return fd.Base == e.Base && int(fd.Size) == bs
		}
		return int(fd.Size) == bs && bs <= fitmodel.BaseSize(e.Base) && fitmodel.BaseSigned(fd.Base) == fitmodel.BaseSigned(e.Base)
	case kindUTC, kindLocal:
		switch fd.Base {
		case fitmodel.Uint32, fitmodel.Uint16, fitmodel.Uint8:
			return int(fd.Size) == bs
		}
		return false
	case kindLat, kindLng:
		// the profile type, or a narrower signed type ("signed values, fields narrower than the profile type ...
		// and coordinates included")
		switch fd.Base {
		case fitmodel.Sint32, fitmodel.Sint16, fitmodel.Sint8:
			return int(fd.Size) == bs
		}
		return false
	}
	return false
}

// coordValue: the semicircles a coordinate field's wire bytes denote (sign-extended from a narrower signed type);
// ok is false for the invalid pattern of a narrower type, for which the model makes no demand.
func coordValue(fd fitmodel.FieldDef, big bool, payload []byte) (int32, bool) {
	bs := fitmodel.BaseSize(fd.Base)
	raw := fitmodel.GetUint(big, payload[:bs])
	if bs < 4 && raw == fitmodel.BaseInvalidBits(fd.Base) {
		return 0, false
	}
	return int32(fitmodel.SignExtend(raw, bs)), true
}

// latValid is the reference validity rule for latitude semicircles.
func latValid(s int32) bool { return s != 0x7FFFFFFF && s >= -(1<<30) && s <= (1<<30) }

// modelSet stores into msg (an addressable message struct) the value that the
// wire bytes `payload` denote for profile entry e under definition fd / byte
// order. It returns false if the model makes no demand for this case.
// localNoRef: local_date_time is modelled for the "no UTC reference" context only.
func modelSet(msg reflect.Value, e fit.VerifField, fd fitmodel.FieldDef, big bool, payload []byte) bool {
	if !compat(e, fd) {
		return false
	}
	fv := msg.Field(e.Sindex)
	bs := fitmodel.BaseSize(fd.Base)
	switch e.Kind {
	case kindUTC, kindLocal:
		raw := fitmodel.GetUint(big, payload[:bs])
		if bs < 4 {
			if raw == fitmodel.BaseInvalidBits(fd.Base) {
				return false // invalid sentinel of a narrow type: no demand
			}
		}
		if bs == 4 && raw == 0xFFFFFFFF {
			return true // stays at the invalid base time
		}
		t := time.Unix(fitmodel.FitEpoch+int64(raw), 0).UTC()
		if e.Kind == kindLocal {
			t = t.In(time.FixedZone("FITLOCAL", 0))
		}
		fv.Set(reflect.ValueOf(t))
		return true
	case kindLat:
		s, ok := coordValue(fd, big, payload)
		if !ok {
			return false
		}
		if s == 1<<30 {
			return false // +90 degrees: C17's known finding, no demand here
		}
		if latValid(s) {
			fv.Set(reflect.ValueOf(fit.NewLatitude(s)))
			if fit.NewLatitude(s).Semicircles() != s {
				return false
			}
		} else {
			fv.Set(reflect.ValueOf(fit.NewLatitudeInvalid()))
		}
		return true
	case kindLng:
		s, ok := coordValue(fd, big, payload)
		if !ok {
			return false
		}
		fv.Set(reflect.ValueOf(fit.NewLongitude(s)))
		return true
	}
	// native
	if e.Base == fitmodel.String {
		if e.Array {
			strs, ok := modelStringArray(payload)
			if !ok {
				return false
			}
			if strs != nil {
				fv.Set(reflect.ValueOf(strs))
			}
			return true
		}
		n := 0
		for n < len(payload) && payload[n] != 0 {
			n++
		}
		fv.SetString(string(payload[:n]))
		return true
	}
	if e.Array {
		n := len(payload) / bs
		if e.Base == fitmodel.Byte || fv.Type().Elem().Kind() == reflect.Uint8 && fv.Type() == reflect.TypeOf([]byte(nil)) {
			b := make([]byte, len(payload))
			copy(b, payload)
			fv.SetBytes(b)
			return true
		}
		sl := reflect.MakeSlice(fv.Type(), n, n)
		for i := 0; i < n; i++ {
			raw := fitmodel.GetUint(big, payload[i*bs:(i+1)*bs])
			setInt(sl.Index(i), raw, bs, fitmodel.BaseSigned(fd.Base))
		}
		fv.Set(sl)
		return true
	}
	raw := fitmodel.GetUint(big, payload[:bs])
	setInt(fv, raw, bs, fitmodel.BaseSigned(fd.Base))
	return true
}

func setInt(v reflect.Value, raw uint64, size int, signed bool) {
	switch v.Kind() {
	case reflect.Int8, reflect.Int16, reflect.Int32, reflect.Int64, reflect.Int:
		if signed {
			v.SetInt(fitmodel.SignExtend(raw, size))
		} else {
			v.SetInt(int64(raw))
		}
	case reflect.Uint8, reflect.Uint16, reflect.Uint32, reflect.Uint64, reflect.Uint:
		v.SetUint(raw)
	}
}

// modelStringArray: NUL-separated strings; demand only for payloads without an
// empty string before the end (leading NUL or double NUL followed by text is
// outside the model because the protocol does not define it).
func modelStringArray(p []byte) ([]string, bool) {
	var out []string
	i := 0
	for i < len(p) {
		j := i
		for j < len(p) && p[j] != 0 {
			j++
		}
		if j == i {
			// empty string: everything after must be NUL padding
			for _, b := range p[i:] {
				if b != 0 {
					return nil, false
				}
			}
			break
		}
		out = append(out, string(p[i:j]))
		i = j + 1
	}
	return out, true
}

// invalidValueOK reports whether struct field fv holds the invalid value for profile entry e.
func invalidValueOK(fv reflect.Value, e fit.VerifField) bool {
	switch e.Kind {
	case kindUTC, kindLocal:
		if e.Array {
			return fv.Kind() == reflect.Slice && fv.IsNil()
		}
		t, ok := fv.Interface().(time.Time)
		if !ok {
			return false
		}
		_, off := t.Zone()
		return t.Unix() == fitmodel.FitEpoch && t.Nanosecond() == 0 && off == 0
	case kindLat:
		l, ok := fv.Interface().(fit.Latitude)
		return ok && l.Invalid()
	case kindLng:
		l, ok := fv.Interface().(fit.Longitude)
		return ok && l.Invalid()
	}
	if e.Array {
		return fv.Kind() == reflect.Slice && fv.IsNil()
	}
	inv := fitmodel.BaseInvalidBits(e.Base)
	switch fv.Kind() {
	case reflect.String:
		return fv.String() == ""
	case reflect.Int8, reflect.Int16, reflect.Int32, reflect.Int64:
		return fv.Int() == int64(inv)
	case reflect.Uint8, reflect.Uint16, reflect.Uint32, reflect.Uint64:
		return fv.Uint() == inv
	}
	return false
}

// expectedGoType returns whether Go type t is right for profile entry e.
func goTypeOK(t reflect.Type, e fit.VerifField) bool {
	elem := t
	if e.Array {
		if t.Kind() != reflect.Slice {
			return false
		}
		elem = t.Elem()
	}
	switch e.Kind {
	case kindUTC, kindLocal:
		return elem == tTime && e.Base == fitmodel.Uint32
	case kindLat:
		return elem == tLat && e.Base == fitmodel.Sint32
	case kindLng:
		return elem == tLng && e.Base == fitmodel.Sint32
	case kindNative:
		k := goKindForBase(e.Base)
		return k != reflect.Invalid && elem.Kind() == k
	}
	return false
}
