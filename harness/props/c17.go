package props

import (
	"bytes"
	"encoding/binary"
	"encoding/json"
	"fmt"
	"math"
	"strconv"
	"sync"
	"time"

	"github.com/tormoder/fit"

	"verif/fitmodel"
	"verif/vx"
)

// C17: coordinate and time value types, exhaustively over all 2^32 values.

type c17Replay struct {
	Kind  string `json:"kind"` // lat | lng | time
	Value int64  `json:"value"`
}

const sentinel = 0x7FFFFFFF

func init() {
	vx.Register(&vx.Prop{
		ID:    "C17",
		Level: "exploration",
		Rule: "all 2^32 semicircle values for Latitude and for Longitude (validity, Semicircles, exact Degrees by integer arithmetic, NaN iff invalid, degree-constructor round trip) and all 2^32 FIT second counts (encode(decode(x))=x, Unix()=631065600+x, zero nanoseconds, IsBaseTime iff x=0); printed form on a stride plus boundary neighbourhoods and the neighbourhood of every whole and half degree (quick) or every value (thorough). Through the decoder: position_lat / position_long / timestamp of record messages with the values k*2^16 and k*2^16+0xFFFF for every k and the neighbourhoods of the range ends, both byte orders, must decode to exactly what the constructors / conversion give. " +
			"distinct = distinct outcome classes (type, validity, round-trip delta, sign, printed-error bucket)",
		Assumptions: []string{"±90° is taken as legal for latitude (the statement says invalid when *outside* ±90°); the +90° case is the listed finding K5"},
		Run:         runC17,
		Sub:         func(args []string) { tzSub(args) },
		QuickBudget: 400, ThoroughBudget: 3000,
		Replay: func(raw json.RawMessage) (string, error) {
			var r c17Replay
			if err := json.Unmarshal(raw, &r); err != nil {
				return "", err
			}
			switch r.Kind {
			case "lat":
				if msg, _ := checkLat(int32(r.Value), true); msg != "" {
					return "", fmt.Errorf("%s", msg)
				}
			case "lng":
				if msg := checkLng(int32(r.Value), true); msg != "" {
					return "", fmt.Errorf("%s", msg)
				}
			case "time":
				if msg := checkTime(uint32(r.Value)); msg != "" {
					return "", fmt.Errorf("%s", msg)
				}
			case "concurrent":
				return "sampled concurrent pass: re-run ./check C17 quick", nil
			case "decoded-narrow":
				// the value as a 2-byte (and, if it fits, 1-byte) coordinate in both byte orders
				for _, width := range []int{2, 1} {
					if width == 1 && r.Value > 255 {
						continue
					}
					for _, big := range []bool{false, true} {
						d := fitmodel.Def{Local: 1, Big: big, Global: 20, Fields: []fitmodel.FieldDef{{Num: 0, Size: byte(width), Base: []byte{0, fitmodel.Sint8, fitmodel.Sint16}[width]}}}
						stream := fitmodel.File(fitmodel.DefaultHeader, append(fitmodel.FileIdRecords(0, 4), d.Bytes(), fitmodel.Data(1, fitmodel.PutUint(d.Order(), width, uint64(r.Value))))...)
						res := safeDecode(bytes.NewReader(stream))
						a, _ := res.File.Activity()
						if res.Err != nil || a == nil || len(a.Records) != 1 {
							return "", fmt.Errorf("decode fails: %v %s", res.Err, res.Panic)
						}
						want := int32(int16(r.Value))
						if width == 1 {
							want = int32(int8(r.Value))
						}
						if r.Value != int64(1)<<(8*width-1)-1 && a.Records[0].PositionLat != fit.NewLatitude(want) {
							return "", fmt.Errorf("position_lat transmitted as %d-byte value %d (big-endian=%v) decodes to semicircles %d", width, want, big, a.Records[0].PositionLat.Semicircles())
						}
					}
				}
			case "decoded":
				for _, big := range []bool{false, true} {
					if msg := c17DecodedOne(uint32(r.Value), big); msg != "" {
						return "", fmt.Errorf("%s", msg)
					}
				}
			}
			return "ok", nil
		},
	})
}

func printedOK(s string, deg float64) bool {
	f, err := strconv.ParseFloat(s, 64)
	if err != nil {
		return false
	}
	return math.Abs(f-deg) <= 2e-5
}

// checkLat returns a violation message ("" if fine) and whether it is the known +90° case.
func checkLat(s int32, printed bool) (string, bool) {
	l := fit.NewLatitude(s)
	wantInvalid := s == sentinel || s < -(1<<30) || s > (1<<30)
	if l.Invalid() != wantInvalid {
		if s == 1<<30 && l.Invalid() && l.Semicircles() == sentinel && math.IsNaN(l.Degrees()) && l.String() == "Invalid" {
			return "NewLatitude(1<<30) (exactly +90°) is invalid", true
		}
		return fmt.Sprintf("NewLatitude(%d).Invalid()=%v want %v", s, l.Invalid(), wantInvalid), false
	}
	if wantInvalid {
		if l.Semicircles() != sentinel {
			return fmt.Sprintf("invalid latitude from %d stores %d, not the sentinel", s, l.Semicircles()), false
		}
		if !math.IsNaN(l.Degrees()) {
			return fmt.Sprintf("invalid latitude from %d has Degrees()=%v, want NaN", s, l.Degrees()), false
		}
		if l != fit.NewLatitudeInvalid() {
			return fmt.Sprintf("invalid latitude from %d differs from NewLatitudeInvalid()", s), false
		}
		if printed && l.String() != "Invalid" {
			return fmt.Sprintf("invalid latitude prints %q", l.String()), false
		}
		return "", false
	}
	if l.Semicircles() != s {
		return fmt.Sprintf("NewLatitude(%d).Semicircles()=%d", s, l.Semicircles()), false
	}
	d := l.Degrees()
	if math.IsNaN(d) || d*(1<<29) != float64(s)*45 {
		return fmt.Sprintf("NewLatitude(%d).Degrees()=%v is not s*180/2^31", s, d), false
	}
	if d > -90 && d < 90 {
		r := fit.NewLatitudeDegrees(d)
		if r.Invalid() || absI64(int64(r.Semicircles())-int64(s)) > 1 {
			return fmt.Sprintf("NewLatitudeDegrees(NewLatitude(%d).Degrees()) = %d (invalid=%v)", s, r.Semicircles(), r.Invalid()), false
		}
	}
	if printed && !printedOK(l.String(), d) {
		return fmt.Sprintf("NewLatitude(%d).String()=%q but Degrees()=%v", s, l.String(), d), false
	}
	return "", false
}

func checkLng(s int32, printed bool) string {
	l := fit.NewLongitude(s)
	wantInvalid := s == sentinel
	if l.Invalid() != wantInvalid {
		return fmt.Sprintf("NewLongitude(%d).Invalid()=%v want %v", s, l.Invalid(), wantInvalid)
	}
	if l.Semicircles() != s {
		return fmt.Sprintf("NewLongitude(%d).Semicircles()=%d", s, l.Semicircles())
	}
	d := l.Degrees()
	if wantInvalid {
		if !math.IsNaN(d) {
			return fmt.Sprintf("invalid longitude has Degrees()=%v", d)
		}
		if l != fit.NewLongitudeInvalid() {
			return "invalid longitude differs from NewLongitudeInvalid()"
		}
		if printed && l.String() != "Invalid" {
			return fmt.Sprintf("invalid longitude prints %q", l.String())
		}
		return ""
	}
	if math.IsNaN(d) || d*(1<<29) != float64(s)*45 {
		return fmt.Sprintf("NewLongitude(%d).Degrees()=%v is not s*180/2^31", s, d)
	}
	if d > -180 && d < 180 {
		r := fit.NewLongitudeDegrees(d)
		if r.Invalid() || absI64(int64(r.Semicircles())-int64(s)) > 1 {
			return fmt.Sprintf("NewLongitudeDegrees(NewLongitude(%d).Degrees()) = %d (invalid=%v)", s, r.Semicircles(), r.Invalid())
		}
	}
	if printed && !printedOK(l.String(), d) {
		return fmt.Sprintf("NewLongitude(%d).String()=%q but Degrees()=%v", s, l.String(), d)
	}
	return ""
}

var (
	zoneEast = time.FixedZone("E", 5*3600+1800)
	zoneWest = time.FixedZone("W", -11*3600)
)

func checkTime(x uint32) string {
	t := fit.VerifDecodeDateTime(x)
	if t.Unix() != fitmodel.FitEpoch+int64(x) {
		return fmt.Sprintf("decode(%d).Unix()=%d want %d", x, t.Unix(), fitmodel.FitEpoch+int64(x))
	}
	if t.Nanosecond() != 0 {
		return fmt.Sprintf("decode(%d) has %d ns", x, t.Nanosecond())
	}
	if e := fit.VerifEncodeTime(t); e != x {
		return fmt.Sprintf("encode(decode(%d))=%d", x, e)
	}
	if fit.IsBaseTime(t) != (x == 0) {
		return fmt.Sprintf("IsBaseTime(decode(%d))=%v", x, fit.IsBaseTime(t))
	}
	return ""
}

func checkTimeZones(x uint32) string {
	t := fit.VerifDecodeDateTime(x)
	if _, off := t.Zone(); off != 0 {
		return fmt.Sprintf("decode(%d) is not in UTC (offset %d)", x, off)
	}
	for _, z := range []*time.Location{zoneEast, zoneWest, time.UTC} {
		tz := t.In(z)
		if fit.IsBaseTime(tz) != (x == 0) {
			return fmt.Sprintf("IsBaseTime(decode(%d) in zone %v)=%v", x, z, fit.IsBaseTime(tz))
		}
		if e := fit.VerifEncodeTime(tz); e != x {
			return fmt.Sprintf("encode(decode(%d) in zone %v)=%d", x, z, e)
		}
	}
	return ""
}

func absI64(a int64) int64 {
	if a < 0 {
		return -a
	}
	return a
}

func runC17(w *vx.W) {
	thorough := !w.Quick()
	c17Decoded(w)
	c17LateFix(w)
	tzFamily(w, "C17")
	c17Concurrent(w)
	// printed-form selection in the quick tier
	near := func(s int64) bool {
		for _, c := range []int64{0, 1 << 30, -(1 << 30), 1<<31 - 1, -(1 << 31), sentinel} {
			if absI64(s-c) <= 1024 {
				return true
			}
		}
		// within 12 semicircles (about a millionth of a degree) of a whole or half degree: where the printed fraction
		// rounds up into the next unit
		q := s * 360 // half-degrees in units of 2^31
		r := q % (1 << 31)
		if r < 0 {
			r += 1 << 31
		}
		if r <= 12*360 || r >= 1<<31-12*360 {
			return true
		}
		return false
	}
	const block = 1 << 20
	nblocks := int64(1<<32) / block
	classes := map[string]bool{}
	for b := int64(0); b < nblocks; b++ {
		if !w.Mine(b) {
			continue
		}
		if w.Expired("C17 main loop") {
			break
		}
		lo := b*block - (1 << 31)
		for s := lo; s < lo+block; s++ {
			printed := thorough || s%257 == 0 || near(s)
			s32 := int32(s)
			if msg, known := checkLat(s32, printed); msg != "" {
				if known {
					w.Known("lat/+90-invalid", msg, c17Replay{"lat", s})
				} else {
					w.Violation("lat", msg, c17Replay{"lat", s})
				}
			}
			if msg := checkLng(s32, printed); msg != "" {
				w.Violation("lng", msg, c17Replay{"lng", s})
			}
			x := uint32(s + (1 << 31))
			if msg := checkTime(x); msg != "" {
				w.Violation("time", msg, c17Replay{"time", int64(x)})
			}
			if printed {
				w.Fam("printed-form-checked", 2)
			}
		}
		w.Eval(3 * block)
		w.Fam("latitude", block)
		w.Fam("longitude", block)
		w.Fam("seconds", block)
		// outcome classes for this block (sampled at block edges + middle; cheap, counted not assumed)
		for _, s := range []int64{lo, lo + block/2, lo + block - 1} {
			l := fit.NewLatitude(int32(s))
			g := fit.NewLongitude(int32(s))
			cl := fmt.Sprintf("lat inv=%v sign=%v", l.Invalid(), s < 0)
			if !l.Invalid() {
				d := l.Degrees()
				if d > -90 && d < 90 {
					cl += fmt.Sprintf(" rt=%d", int64(fit.NewLatitudeDegrees(d).Semicircles())-s)
				}
			}
			classes[cl] = true
			cg := fmt.Sprintf("lng inv=%v sign=%v", g.Invalid(), s < 0)
			if !g.Invalid() {
				d := g.Degrees()
				if d > -180 && d < 180 {
					cg += fmt.Sprintf(" rt=%d", int64(fit.NewLongitudeDegrees(d).Semicircles())-s)
				}
			}
			classes[cg] = true
		}
	}
	for c := range classes {
		w.DistinctS(c)
	}
	// zone-sensitivity of the time helpers on boundary values (cheap, all workers' shard 0)
	if w.Shard == 0 {
		for _, x := range []uint32{0, 1, 2, 59, 60, 86399, 86400, 0x0FFFFFFF, 0x10000000, 0x7FFFFFFF, 0x80000000, 0x80000001, 0xFFFFFFFE, 0xFFFFFFFF} {
			if msg := checkTimeZones(x); msg != "" {
				w.Violation("time-zone", msg, c17Replay{"time", int64(x)})
			}
			w.Eval(1)
		}
		for x := uint32(0); x < 1<<16; x++ {
			if msg := checkTimeZones(x * 65537); msg != "" {
				w.Violation("time-zone", msg, c17Replay{"time", int64(x * 65537)})
				break
			}
		}
		w.Eval(1 << 16)
		// degree constructors at and beyond the range ends
		for _, d := range []float64{90, -90, 90.0000001, -90.0000001, 180, -180, 180.5, -1e9, 1e9, math.Inf(1), math.Inf(-1)} {
			if d >= 90 || d <= -90 {
				if !fit.NewLatitudeDegrees(d).Invalid() {
					w.Violation("lat-deg", fmt.Sprintf("NewLatitudeDegrees(%v) is valid", d), nil)
				}
			}
			if d >= 180 || d <= -180 {
				if !fit.NewLongitudeDegrees(d).Invalid() {
					w.Violation("lng-deg", fmt.Sprintf("NewLongitudeDegrees(%v) is valid", d), nil)
				}
			}
			w.Eval(1)
		}
		w.Sample(map[string]interface{}{"latitude_semicircles": 1 << 29, "degrees": fit.NewLatitude(1 << 29).Degrees(), "printed": fit.NewLatitude(1 << 29).String()})
		w.Sample(map[string]interface{}{"seconds": 1000000000, "decoded": fit.VerifDecodeDateTime(1000000000).String()})
	}
	if !thorough {
		w.Note("printed form checked for s%257==0, within 1024 of 0, ±2^30, ±2^31 and the sentinel, and within 12 semicircles of every whole and half degree (every value in thorough)")
	}
}

// ---- through the decoder: the value types as Decode produces them (not only as the constructors do) ----
// Values k*2^16 and k*2^16+0xFFFF for every k, plus the neighbourhoods of the range ends, in position_lat,
// position_long and timestamp of record messages, both byte orders. Oracle: the decoded field is exactly what the
// (exhaustively checked) constructor / conversion gives for the wire value.
func c17Decoded(w *vx.W) {
	var vals []uint32
	for k := uint32(0); k < 1<<16; k++ {
		vals = append(vals, k<<16, k<<16|0xFFFF)
	}
	for _, c := range []int64{0, 1 << 30, -(1 << 30), 1<<31 - 1, -(1 << 31), 1 << 29, -(1 << 29)} {
		for d := int64(-3); d <= 3; d++ {
			vals = append(vals, uint32(int32(c+d)))
		}
	}
	// each boundary value also as the first and only record of a fresh decode (a decoder starts from zero state)
	if w.Shard == 0 {
		firsts := append([]uint32{}, vals[len(vals)-49:]...)
		firsts = append(firsts, 0, 1, 2, 0xFFFFFFFF, 0xFFFFFFFE, 0x0FFFFFFF, 0x10000000, 0x10000001, 0x80000000, 0x7FFFFFFF)
		for k := uint32(0); k < 1<<16; k += 251 {
			firsts = append(firsts, k<<16, k<<16|0xFFFF, k)
		}
		for _, v := range firsts {
			for _, big := range []bool{false, true} {
				w.Eval(3)
				w.Fam("decoded-values-first-record", 3)
				if msg := c17DecodedOne(v, big); msg != "" {
					w.Violation("decoded/first-record", "as the first record of a decode: "+msg, c17Replay{"decoded", int64(v)})
				}
			}
		}
	}
	// coordinates transmitted narrower than 32 bits: every sint16 and sint8 value, both byte orders; the coordinate is
	// the sign-extended value (the narrow types' own invalid sentinels carry no demand)
	for wi, width := range []int{2, 1} {
		for o := 0; o < 2; o++ {
			if !w.Mine(int64(1000 + wi*2 + o)) {
				continue
			}
			big := o == 1
			base := byte(fitmodel.Sint16)
			n := 1 << 16
			if width == 1 {
				base, n = fitmodel.Sint8, 1<<8
			}
			d := fitmodel.Def{Local: 1, Big: big, Global: 20, Fields: []fitmodel.FieldDef{{Num: 0, Size: byte(width), Base: base}, {Num: 3, Size: 1, Base: fitmodel.Uint8}, {Num: 1, Size: byte(width), Base: base}}}
			recs := append(fitmodel.FileIdRecords(0, 4), d.Bytes())
			ord := d.Order()
			for v := 0; v < n; v++ {
				recs = append(recs, fitmodel.Data(1, fitmodel.Concat(fitmodel.PutUint(ord, width, uint64(v)), []byte{77}, fitmodel.PutUint(ord, width, uint64(n-1-v)))))
			}
			res := safeDecode(bytes.NewReader(fitmodel.File(fitmodel.DefaultHeader, recs...)))
			w.Eval(int64(2 * n))
			w.Fam("decoded-narrow-coordinates", int64(2*n))
			a, _ := res.File.Activity()
			if res.Err != nil || res.Panic != "" || a == nil || len(a.Records) != n {
				w.Violation("decoded/decode-fails", fmt.Sprintf("Decode of records with %d-byte coordinates fails: err=%v panic=%s", width, res.Err, res.Panic), c17Replay{"decoded-narrow", 0})
				continue
			}
			ext := func(v int) int32 {
				if width == 1 {
					return int32(int8(v))
				}
				return int32(int16(v))
			}
			sentinel := n/2 - 1
			for v := 0; v < n; v++ {
				r := a.Records[v]
				if v != sentinel {
					if wl := fit.NewLatitude(ext(v)); r.PositionLat != wl {
						w.Violation("decoded/narrow-lat", fmt.Sprintf("position_lat transmitted as %d-byte signed value %d (big-endian=%v) decodes to {semicircles %d invalid %v}, expected semicircles %d", width, ext(v), big, r.PositionLat.Semicircles(), r.PositionLat.Invalid(), wl.Semicircles()), c17Replay{"decoded-narrow", int64(v)})
						break
					}
				}
				if u := n - 1 - v; u != sentinel {
					if wg := fit.NewLongitude(ext(u)); r.PositionLong != wg {
						w.Violation("decoded/narrow-lng", fmt.Sprintf("position_long transmitted as %d-byte signed value %d (big-endian=%v) decodes to {semicircles %d invalid %v}, expected semicircles %d", width, ext(u), big, r.PositionLong.Semicircles(), r.PositionLong.Invalid(), wg.Semicircles()), c17Replay{"decoded-narrow", int64(u)})
						break
					}
				}
			}
		}
	}
	const per = 2048
	nfiles := (len(vals) + per - 1) / per
	for fi := 0; fi < nfiles; fi++ {
		if !w.Mine(int64(fi)) {
			continue
		}
		chunk := vals[fi*per : minInt((fi+1)*per, len(vals))]
		for o := 0; o < 2; o++ {
			big := o == 1
			d := fitmodel.Def{Local: 1, Big: big, Global: 20, Fields: []fitmodel.FieldDef{{Num: 253, Size: 4, Base: fitmodel.Uint32}, {Num: 0, Size: 4, Base: fitmodel.Sint32}, {Num: 1, Size: 4, Base: fitmodel.Sint32}}}
			recs := append(fitmodel.FileIdRecords(0, 4), d.Bytes())
			ord := d.Order()
			for i, v := range chunk {
				x := v ^ 0x5A5A0000 // a different value in the timestamp field
				_ = i
				p := fitmodel.Concat(fitmodel.PutUint(ord, 4, uint64(x)), fitmodel.PutUint(ord, 4, uint64(v)), fitmodel.PutUint(ord, 4, uint64(v)))
				recs = append(recs, fitmodel.Data(1, p))
			}
			stream := fitmodel.File(fitmodel.DefaultHeader, recs...)
			res := safeDecode(bytes.NewReader(stream))
			w.Eval(int64(3 * len(chunk)))
			w.Fam("decoded-values", int64(3*len(chunk)))
			if res.Err != nil || res.Panic != "" {
				w.Violation("decoded/decode-fails", fmt.Sprintf("Decode of records with boundary coordinates fails: err=%v panic=%s", res.Err, res.Panic), c17Replay{"decoded", int64(chunk[0])})
				continue
			}
			a, _ := res.File.Activity()
			if a == nil || len(a.Records) != len(chunk) {
				w.Violation("decoded/count", "records lost", c17Replay{"decoded", int64(chunk[0])})
				continue
			}
			for i, v := range chunk {
				r := a.Records[i]
				s := int32(v)
				if wl := fit.NewLatitude(s); r.PositionLat != wl || r.PositionLat.Invalid() != wl.Invalid() {
					w.Violation("decoded/lat", fmt.Sprintf("position_lat %d (big-endian=%v) decodes to {semicircles %d invalid %v}, NewLatitude gives {semicircles %d invalid %v}", s, big, r.PositionLat.Semicircles(), r.PositionLat.Invalid(), wl.Semicircles(), wl.Invalid()), c17Replay{"decoded", int64(s)})
					break
				}
				if wg := fit.NewLongitude(s); r.PositionLong != wg {
					w.Violation("decoded/lng", fmt.Sprintf("position_long %d (big-endian=%v) decodes to {semicircles %d invalid %v}, NewLongitude gives {semicircles %d invalid %v}", s, big, r.PositionLong.Semicircles(), r.PositionLong.Invalid(), wg.Semicircles(), wg.Invalid()), c17Replay{"decoded", int64(s)})
					break
				}
				x := v ^ 0x5A5A0000
				wt := fit.VerifDecodeDateTime(x)
				if x == 0xFFFFFFFF {
					wt = fitBase
				}
				if !r.Timestamp.Equal(wt) || r.Timestamp.Location() != time.UTC {
					w.Violation("decoded/time", fmt.Sprintf("timestamp %d (big-endian=%v) decodes to %v, the conversion gives %v", x, big, r.Timestamp, wt), c17Replay{"decoded", int64(x)})
					break
				}
			}
		}
	}
}

func minInt(a, b int) int {
	if a < b {
		return a
	}
	return b
}

// c17DecodedOne: one record carrying v in position_lat, position_long and (xor-ed) in timestamp.
func c17DecodedOne(v uint32, big bool) string {
	d := fitmodel.Def{Local: 1, Big: big, Global: 20, Fields: []fitmodel.FieldDef{{Num: 253, Size: 4, Base: fitmodel.Uint32}, {Num: 0, Size: 4, Base: fitmodel.Sint32}, {Num: 1, Size: 4, Base: fitmodel.Sint32}}}
	ord := d.Order()
	p := fitmodel.Concat(fitmodel.PutUint(ord, 4, uint64(v)), fitmodel.PutUint(ord, 4, uint64(v)), fitmodel.PutUint(ord, 4, uint64(v)))
	stream := fitmodel.File(fitmodel.DefaultHeader, append(fitmodel.FileIdRecords(0, 4), d.Bytes(), fitmodel.Data(1, p))...)
	res := safeDecode(bytes.NewReader(stream))
	if res.Err != nil || res.Panic != "" {
		return fmt.Sprintf("decode fails: %v %s", res.Err, res.Panic)
	}
	a, _ := res.File.Activity()
	if a == nil || len(a.Records) != 1 {
		return "record lost"
	}
	r := a.Records[0]
	s := int32(v)
	if wl := fit.NewLatitude(s); r.PositionLat != wl {
		return fmt.Sprintf("position_lat %d (big-endian=%v) decodes to {semicircles %d invalid %v}, NewLatitude gives {semicircles %d invalid %v}", s, big, r.PositionLat.Semicircles(), r.PositionLat.Invalid(), wl.Semicircles(), wl.Invalid())
	}
	if wg := fit.NewLongitude(s); r.PositionLong != wg {
		return fmt.Sprintf("position_long %d (big-endian=%v) decodes to {semicircles %d invalid %v}, NewLongitude gives {semicircles %d invalid %v}", s, big, r.PositionLong.Semicircles(), r.PositionLong.Invalid(), wg.Semicircles(), wg.Invalid())
	}
	wt := fit.VerifDecodeDateTime(v)
	if v == 0xFFFFFFFF {
		wt = fitBase
	}
	if !r.Timestamp.Equal(wt) {
		return fmt.Sprintf("timestamp %d (big-endian=%v) decodes to %v, the conversion gives %v", v, big, r.Timestamp, wt)
	}
	return ""
}

// c17LateFix: a long activity whose first records carry no time and no position (no fix yet): the values of the
// later records must come back from Encode / Decode, however many records precede the first one that has them.
func c17LateFix(w *vx.W) {
	ks := []int{1023, 1024, 1025, 1026, 4097, 40000}
	if !w.Quick() {
		ks = append(ks, 255, 256, 257, 4095, 4096, 8193, 65535, 65536, 65537)
	}
	for ki, k := range ks {
		for o := 0; o < 2; o++ {
			if !w.Mine(int64(2000 + ki*2 + o)) {
				continue
			}
			f, _ := fit.NewFile(fit.FileTypeActivity, fit.NewHeader(fit.V20, true))
			fid := fit.VerifNewMesg(0)
			fid.FieldByName("Type").SetUint(4)
			f.FileId = fid.Interface().(fit.FileIdMsg)
			a, _ := f.Activity()
			n := k + 3
			for i := 0; i < n; i++ {
				r := fit.NewRecordMsg()
				r.HeartRate = uint8(60 + i%100)
				if i >= k {
					r.Timestamp = time.Unix(fitmodel.FitEpoch+int64(1000000000+i), 0).UTC()
					r.PositionLat = fit.NewLatitude(int32(500000000 + i))
					r.PositionLong = fit.NewLongitude(int32(-100000000 - i))
				}
				a.Records = append(a.Records, r)
			}
			out, err, pn := safeEncode(f, o == 1)
			w.Eval(int64(3 * n))
			w.Fam("late-first-fix", 1)
			if err != nil || pn != "" {
				w.Violation("late-fix/encode", fmt.Sprintf("Encode of %d records (first fix at #%d) fails: %v %s", n, k, err, pn), c17Replay{"late-fix", int64(k)})
				continue
			}
			res := safeDecode(bytes.NewReader(out))
			da, _ := res.File.Activity()
			if res.Err != nil || res.Panic != "" || da == nil || len(da.Records) != n {
				w.Violation("late-fix/decode", fmt.Sprintf("%d records (first fix at #%d): decode of the encoded bytes fails or loses records: %v %s", n, k, res.Err, res.Panic), c17Replay{"late-fix", int64(k)})
				continue
			}
			for i, r := range da.Records {
				want := a.Records[i]
				if r == nil || !r.Timestamp.Equal(want.Timestamp) || r.PositionLat != want.PositionLat || r.PositionLong != want.PositionLong {
					w.Violation("late-fix/value", fmt.Sprintf("%d records, the first %d without time and position (big-endian=%v): record #%d comes back as %s, put in %s", n, k, o == 1, i, fitmodel.DumpI(r), fitmodel.DumpI(want)), c17Replay{"late-fix", int64(k)})
					break
				}
			}
		}
	}
}

// c17Concurrent: a free-running (sampled, not exhaustive) pass: eight goroutines encode and decode Files whose
// timestamps and coordinates differ per goroutine; every result must equal the one computed alone beforehand.
// Conversions that go through shared scratch state show here; the exhaustive schedule exploration is C09's.
func c17Concurrent(w *vx.W) {
	if w.Shard != 0 {
		return
	}
	mk := func(g int) *fit.File {
		f, _ := fit.NewFile(fit.FileTypeActivity, fit.NewHeader(fit.V20, true))
		a, _ := f.Activity()
		for i := 0; i < 40; i++ {
			r := fit.NewRecordMsg()
			r.Timestamp = time.Unix(fitmodel.FitEpoch+int64(100000000*(g+1)+i), 0).UTC()
			r.PositionLat = fit.NewLatitude(int32(g*1000000 + i))
			r.PositionLong = fit.NewLongitude(int32(-g*2000000 - i))
			a.Records = append(a.Records, r)
		}
		return f
	}
	const G = 8
	want := make([]string, G)
	for g := 0; g < G; g++ {
		var buf bytes.Buffer
		if err := fit.Encode(&buf, mk(g), binary.LittleEndian); err != nil {
			return
		}
		want[g] = vx.Hex(buf.Bytes()) + "|" + dumpFile(safeDecode(bytes.NewReader(buf.Bytes())).File)
	}
	bad := make([]string, G)
	var wg sync.WaitGroup
	for g := 0; g < G; g++ {
		wg.Add(1)
		go func(g int) {
			defer wg.Done()
			for round := 0; round < 150 && bad[g] == ""; round++ {
				var buf bytes.Buffer
				if err := fit.Encode(&buf, mk(g), binary.LittleEndian); err != nil {
					bad[g] = err.Error()
					return
				}
				got := vx.Hex(buf.Bytes()) + "|" + dumpFile(safeDecode(bytes.NewReader(buf.Bytes())).File)
				if got != want[g] {
					bad[g] = fmt.Sprintf("round %d: %s", round, diffAt(got, want[g]))
				}
			}
		}(g)
	}
	wg.Wait()
	w.Eval(G * 150)
	w.Fam("concurrent-encode-decode-sampled", G*150)
	for g, b := range bad {
		if b != "" {
			w.Violation("concurrent-conversion", fmt.Sprintf("goroutine %d, encoding and decoding its own File next to 7 others, gets another result than alone: %s", g, b), c17Replay{"concurrent", int64(g)})
			break
		}
	}
}
