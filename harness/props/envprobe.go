package props

import (
	"bytes"
	"fmt"
	"go/ast"
	"go/parser"
	"go/token"
	"os"
	"path/filepath"
	"sort"
	"strconv"
	"strings"

	"verif/vx"
)

// Environment variables as environment answers. The library packages (fit, dyncrc16, internal/types) are scanned
// for reads of the process environment (os.Getenv / os.LookupEnv with a literal name; os.Environ). For every name
// found, a compact behavioural digest (decoded dumps, encoded bytes, bytes consumed per entry point, chain member
// counts, integrity verdicts) is computed in fresh processes with the variable unset and set to each candidate value
// (1, true, all, and every short string literal of the file that reads it, alone and as "literal=1"); any
// difference is a dependence of the result on the environment. No read of the environment = nothing to probe.

type envRead struct {
	Name   string
	File   string
	Values []string
}

func envReads() ([]envRead, []string) {
	var out []envRead
	var other []string
	fset := token.NewFileSet()
	for _, dir := range []string{"", "dyncrc16", filepath.Join("internal", "types")} {
		ents, err := os.ReadDir(filepath.Join(repoRoot, dir))
		if err != nil {
			continue
		}
		for _, e := range ents {
			n := e.Name()
			if e.IsDir() || !strings.HasSuffix(n, ".go") || strings.HasSuffix(n, "_test.go") {
				continue
			}
			src, err := os.ReadFile(filepath.Join(repoRoot, dir, n))
			if err != nil || bytes.Contains(src, []byte("//go:build")) {
				continue
			}
			f, err := parser.ParseFile(fset, n, src, 0)
			if err != nil {
				continue
			}
			var lits []string
			var names []string
			ast.Inspect(f, func(nd ast.Node) bool {
				switch x := nd.(type) {
				case *ast.BasicLit:
					if x.Kind == token.STRING {
						if v, err := strconv.Unquote(x.Value); err == nil && len(v) > 0 && len(v) <= 24 && !strings.ContainsAny(v, " \n\t%") {
							lits = append(lits, v)
						}
					}
				case *ast.CallExpr:
					if sel, ok := x.Fun.(*ast.SelectorExpr); ok {
						if id, ok := sel.X.(*ast.Ident); ok && id.Name == "os" {
							switch sel.Sel.Name {
							case "Getenv", "LookupEnv":
								if len(x.Args) == 1 {
									if bl, ok := x.Args[0].(*ast.BasicLit); ok {
										if v, err := strconv.Unquote(bl.Value); err == nil {
											names = append(names, v)
										}
									} else {
										other = append(other, filepath.Join(dir, n)+": os."+sel.Sel.Name+" with a computed name")
									}
								}
							case "Environ", "ExpandEnv":
								other = append(other, filepath.Join(dir, n)+": os."+sel.Sel.Name)
							}
						}
					}
				}
				return true
			})
			for _, nm := range names {
				vals := []string{"1", "true", "all", "0"}
				seen := map[string]bool{}
				for _, l := range lits {
					if l == nm || seen[l] {
						continue
					}
					seen[l] = true
					vals = append(vals, l, l+"=1", l+"=true")
				}
				if len(vals) > 80 {
					vals = vals[:80]
				}
				out = append(out, envRead{Name: nm, File: filepath.Join(dir, n), Values: vals})
			}
		}
	}
	sort.Slice(out, func(i, j int) bool { return out[i].Name < out[j].Name })
	return out, other
}

// envDigest: the behaviour that must not depend on the environment.
func envDigest() string {
	var sb strings.Builder
	sb.WriteString(tzDigest())
	for _, s := range []namedStream{sAct3, sChain3, sSet, sDev} {
		for _, e := range []string{"Decode", "DecodeChained", "CheckIntegrity", "DecodeHeader", "DecodeHeaderAndFileID", "Decode+options"} {
			rd := &countingReader{b: s.B}
			res := callEntry(e, rd)
			fmt.Fprintf(&sb, "%s/%s consumed=%d err=%v files=%d %016x\n", s.Name, e, rd.i, res.Err, len(res.Files), vx.Hash(dumpFile(res.File)))
		}
		b := append([]byte{}, s.B...)
		b[len(b)-1] ^= 0x55
		fmt.Fprintf(&sb, "corrupt %s decode=%v ci=%v\n", s.Name, safeDecode(bytes.NewReader(b)).Err != nil, safeCheckIntegrity(bytes.NewReader(b), false).Err != nil)
	}
	return fmt.Sprintf("%016x/%d", vx.Hash(sb.String()), sb.Len())
}

func envSub(args []string) bool {
	if len(args) > 0 && args[0] == "envdigest" {
		fmt.Println(envDigest())
		return true
	}
	return false
}

func envProbeFamily(w *vx.W, id string) {
	if w.Shard != 0 {
		return
	}
	reads, other := envReads()
	var names []string
	for _, r := range reads {
		names = append(names, r.Name)
	}
	w.Extra("environment_variables_read_by_the_library", names)
	for _, o := range other {
		w.Violation("reads-process-environment", "the library reads the whole process environment ("+o+"): its results cannot be shown independent of it", map[string]interface{}{"site": o})
	}
	if len(reads) == 0 {
		return
	}
	base, err := vx.SubRunEnv(id, nil, "envdigest")
	if err != nil {
		w.HarnessError("environment digest: %v", err)
	}
	for _, r := range reads {
		for _, v := range r.Values {
			out, err := vx.SubRunEnv(id, []string{r.Name + "=" + v}, "envdigest")
			w.Eval(1)
			w.Trace(1)
			w.Fam("environment-variable-probes", 1)
			if err != nil {
				w.Violation("depends-on-environment-variable", fmt.Sprintf("with %s=%q in the environment (read in %s) the digest run fails: %v", r.Name, v, r.File, err), map[string]interface{}{"env": r.Name + "=" + v})
				break
			}
			if strings.TrimSpace(string(out)) != strings.TrimSpace(string(base)) {
				w.Violation("depends-on-environment-variable", fmt.Sprintf("decoded content / bytes consumed / verdicts / encoded bytes differ when %s=%q is in the environment (the variable is read in %s)", r.Name, v, r.File), map[string]interface{}{"env": r.Name + "=" + v})
				break
			}
		}
	}
}
