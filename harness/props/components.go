package props

import (
	"fmt"
	"reflect"

	"verif/fitmodel"
)

// Component rules as the profile (and property C18) words them, by Go field name.
type compRule struct {
	Msg   string
	Src   string
	Dests []string
}

var compRules = []compRule{
	{"RecordMsg", "Altitude", []string{"EnhancedAltitude"}},
	{"RecordMsg", "Speed", []string{"EnhancedSpeed"}},
	{"RecordMsg", "CompressedSpeedDistance", []string{"Speed", "Distance", "EnhancedSpeed"}},
	{"RecordMsg", "Cycles", []string{"TotalCycles"}},
	{"RecordMsg", "CompressedAccumulatedPower", []string{"AccumulatedPower"}},
	{"LapMsg", "AvgSpeed", []string{"EnhancedAvgSpeed"}},
	{"LapMsg", "MaxSpeed", []string{"EnhancedMaxSpeed"}},
	{"LapMsg", "AvgAltitude", []string{"EnhancedAvgAltitude"}},
	{"LapMsg", "MaxAltitude", []string{"EnhancedMaxAltitude"}},
	{"LapMsg", "MinAltitude", []string{"EnhancedMinAltitude"}},
	{"SessionMsg", "AvgSpeed", []string{"EnhancedAvgSpeed"}},
	{"SessionMsg", "MaxSpeed", []string{"EnhancedMaxSpeed"}},
	{"SessionMsg", "AvgAltitude", []string{"EnhancedAvgAltitude"}},
	{"SessionMsg", "MaxAltitude", []string{"EnhancedMaxAltitude"}},
	{"SessionMsg", "MinAltitude", []string{"EnhancedMinAltitude"}},
	{"SegmentLapMsg", "AvgAltitude", []string{"EnhancedAvgAltitude"}},
	{"SegmentLapMsg", "MaxAltitude", []string{"EnhancedMaxAltitude"}},
	{"SegmentLapMsg", "MinAltitude", []string{"EnhancedMinAltitude"}},
	{"SegmentPointMsg", "Altitude", []string{"EnhancedAltitude"}},
	{"EventMsg", "Data16", []string{"Data", "Score", "OpponentScore", "RearGearNum", "RearGear", "FrontGearNum", "FrontGear"}},
	{"EventMsg", "Data", []string{"Score", "OpponentScore", "RearGearNum", "RearGear", "FrontGearNum", "FrontGear"}},
}

// fieldIsInvalidByType: generic "holds its type's invalid value" by Go type
// only (used for component sources, where profile entry lookup is not needed).
func srcPresent(msg reflect.Value, name string) bool {
	fv := msg.FieldByName(name)
	if !fv.IsValid() {
		return false
	}
	switch fv.Kind() {
	case reflect.Slice:
		return !fv.IsNil()
	case reflect.Uint8:
		return fv.Uint() != 0xFF
	case reflect.Uint16:
		return fv.Uint() != 0xFFFF
	case reflect.Uint32:
		return fv.Uint() != 0xFFFFFFFF
	}
	return true
}

// compIgnore returns the destination fields of msg that belong to C18 because
// one of their sources is present in the decoded message.
func compIgnore(msg reflect.Value) map[string]bool {
	var ig map[string]bool
	name := msg.Type().Name()
	for _, r := range compRules {
		if r.Msg != name {
			continue
		}
		if srcPresent(msg, r.Src) {
			if ig == nil {
				ig = map[string]bool{}
			}
			for _, d := range r.Dests {
				ig[d] = true
			}
		}
	}
	return ig
}

// isCompDest reports whether field `name` of message type `msg` can be written by expansion.
func isCompDest(msgName, field string) bool {
	for _, r := range compRules {
		if r.Msg == msgName {
			for _, d := range r.Dests {
				if d == field {
					return true
				}
			}
		}
	}
	return false
}

// diffMsg compares two message structs field by field (canonical dump),
// skipping `ignore`; returns "" when equal.
func diffMsg(got, want reflect.Value, ignore map[string]bool) string {
	if got.Type() != want.Type() {
		return fmt.Sprintf("type %v vs %v", got.Type(), want.Type())
	}
	for i := 0; i < got.NumField(); i++ {
		n := got.Type().Field(i).Name
		if ignore[n] {
			continue
		}
		g, w := fitmodel.Dump(got.Field(i)), fitmodel.Dump(want.Field(i))
		if g != w {
			return fmt.Sprintf("field %s: got %s, model %s", n, trunc(g, 120), trunc(w, 120))
		}
	}
	return ""
}

func trunc(s string, n int) string {
	if len(s) > n {
		return s[:n] + "..."
	}
	return s
}
