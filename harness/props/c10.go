package props

import (
	"bufio"
	"bytes"
	"encoding/json"
	"fmt"
	"io"
	"math/bits"
	"os"
	"strings"
	"testing/iotest"

	"verif/fitmodel"
	"verif/vx"
)

// C10: framing — a decode consumes exactly one file, however reads are chunked.

type c10Replay struct {
	Stream  string `json:"stream"`
	Hex     string `json:"stream_hex"`
	Entry   string `json:"entry"`
	OneByte bool   `json:"default_one_byte"`
	Choices []int  `json:"choices,omitempty"`
	Cuts    uint64 `json:"cuts,omitempty"`
	Chunk   int    `json:"chunk,omitempty"`
	Frame   int    `json:"frame_len"`
}

func init() {
	vx.Register(&vx.Prop{
		ID:    "C10",
		Level: "model_checking",
		Rule: "environment-schedule exploration: the harness owns the io.Reader and explores its answers (as much as fits / 1 byte / half / len-1 / empty read (<=2 in a row) / last bytes together with io.EOF) by stateless DFS with deviation bound 2 from two default behaviours (whole-buffer, 1-byte), over valid single files followed by a second valid file as sentinel and over 2- and 3-chains; plus uniform chunk sizes 1..33,4095,4096,4097 on a file larger than the internal buffer and all cut sets of the minimal file (<=3 cuts quick, all 2^24 thorough). " +
			"Oracle: success; bytes delivered == header+data+2 (exactly the header for header-only entry points, <= header+data for DecodeHeaderAndFileID); result equal to the whole-buffer result; DecodeChained returns one File per member equal to decoding the member alone; header / file_id agreement across entry points. " +
			"states = distinct (stream, entry, reader offset, empty-read run) environment states; transitions = Read answers; traces = complete schedules executed on the implementation",
		Assumptions: []string{"streams avoid component-accumulating fields so that K3 (package-level accumulators) cannot interfere; that is C08/C18's subject"},
		Run:         runC10,
		Sub:         func(args []string) { tzSub(args) },
		Replay:      replayC10,
		QuickBudget: 200,
	})
}

type c10Case struct {
	s        namedStream
	sentinel []byte
	entry    string
}

func c10Baseline(entry string, frame []byte) string {
	res := callEntry(entry, bytes.NewReader(frame))
	return c10Obs(entry, res)
}

func c10Obs(entry string, res callResult) string {
	if res.Panic != "" {
		return "panic:" + res.Panic
	}
	if res.Err != nil {
		return "error:" + res.Err.Error()
	}
	switch entry {
	case "Decode":
		return dumpFile(res.File)
	case "DecodeChained":
		s := fmt.Sprintf("%d files;", len(res.Files))
		for _, f := range res.Files {
			s += dumpFile(f) + ";"
		}
		return s
	case "DecodeHeader":
		return fitmodel.DumpI(res.Header)
	case "DecodeHeaderAndFileID":
		return fitmodel.DumpI(res.Header) + fitmodel.DumpI(res.FileId)
	}
	return "ok"
}

// c10Expect returns the allowed [min,max] number of delivered bytes on success.
func c10Expect(entry string, frame []byte) (int, int) {
	hs := int(frame[0])
	switch entry {
	case "Decode", "CheckIntegrity", "DecodeChained":
		return len(frame), len(frame)
	case "DecodeHeader", "CheckIntegrityHeaderOnly":
		return hs, hs
	case "DecodeHeaderAndFileID":
		return hs + 11, len(frame) - 2
	}
	return 0, 0
}

func runC10(w *vx.W) {
	envProbeFamily(w, "C10")
	c10MixChains(w)
	c10LongChains(w)
	c10ReaderKindsFamily(w)
	c10FileIdShapes(w)
	thorough := !w.Quick()
	crcStreams()
	singles := []namedStream{sMin12, sMin14, sMin14z, sAct3, sAct3BE, sSet, sMonState, sZero, sDev, sCRC00, sUnkTail}
	chains := []namedStream{sChain2, sChain2b, sChain3, sChainState, sChainState3, sChainZero, sChainDev, sChainCRC0}
	entries := []string{"Decode", "CheckIntegrity", "CheckIntegrityHeaderOnly", "DecodeHeader", "DecodeHeaderAndFileID"}
	states := map[uint64]struct{}{}

	// cross-entry agreement on every single stream (whole buffer)
	if w.Shard == 0 {
		for _, s := range append(singles, sBig) {
			d := safeDecode(bytes.NewReader(s.B))
			h := safeDecodeHeader(bytes.NewReader(s.B))
			hf := safeDecodeHeaderAndFileID(bytes.NewReader(s.B))
			w.Eval(3)
			if d.Err != nil || h.Err != nil || hf.Err != nil {
				w.Violation("valid-stream-rejected/"+s.Name, fmt.Sprintf("%s: Decode=%v DecodeHeader=%v DecodeHeaderAndFileID=%v", s.Name, d.Err, h.Err, hf.Err), c10Replay{Stream: s.Name, Hex: vx.Hex(s.B), Entry: "Decode"})
				continue
			}
			if fitmodel.DumpI(d.File.Header) != fitmodel.DumpI(h.Header) || fitmodel.DumpI(d.File.Header) != fitmodel.DumpI(hf.Header) || fitmodel.DumpI(d.File.FileId) != fitmodel.DumpI(hf.FileId) {
				w.Violation("header-fileid-disagree/"+s.Name, fmt.Sprintf("%s: Decode reports %s / %s, DecodeHeader %s, DecodeHeaderAndFileID %s / %s", s.Name, fitmodel.DumpI(d.File.Header), fitmodel.DumpI(d.File.FileId), fitmodel.DumpI(h.Header), fitmodel.DumpI(hf.Header), fitmodel.DumpI(hf.FileId)), c10Replay{Stream: s.Name, Hex: vx.Hex(s.B), Entry: "DecodeHeaderAndFileID"})
			}
			// the reported header equals the bytes on the wire
			wantDS := uint32(len(s.B) - int(s.B[0]) - 2)
			if d.File.Header.Size != s.B[0] || d.File.Header.DataSize != wantDS || d.File.Header.ProtocolVersion != s.B[1] {
				w.Violation("header-content/"+s.Name, "decoded header differs from the wire: "+fitmodel.DumpI(d.File.Header), c10Replay{Stream: s.Name, Hex: vx.Hex(s.B), Entry: "Decode"})
			}
		}
	}

	check := func(cs c10Case, data []byte, base string, frameLen int, rep c10Replay) func(x *envExec, choices []int, obs string) {
		lo, hi := c10Expect(cs.entry, data[:frameLen])
		return func(x *envExec, choices []int, obs string) {
			w.Eval(1)
			w.Trace(1)
			w.Transition(int64(len(x.points)))
			zr := 0
			for _, p := range x.points {
				states[vx.Hash(fmt.Sprintf("%s/%s/%d/%d", cs.s.Name, cs.entry, p.pos, zr))] = struct{}{}
				if p.chosen != 0 {
					zr++
				}
			}
			w.DistinctS(fmt.Sprintf("%s/%s/%v", cs.s.Name, cs.entry, choices))
			rep.Choices = choices
			if obs != base {
				w.Violation("schedule-dependent-result/"+cs.entry, fmt.Sprintf("%s on %s: result under read schedule %v differs from whole-buffer result: %s vs %s", cs.entry, cs.s.Name, choices, trunc(obs, 200), trunc(base, 200)), rep)
				return
			}
			if x.consumed < lo || x.consumed > hi {
				w.Violation("frame-overrun/"+cs.entry, fmt.Sprintf("%s on %s consumed %d bytes under schedule %v; frame allows [%d,%d]", cs.entry, cs.s.Name, x.consumed, choices, lo, hi), rep)
			}
		}
	}

	var caseNo int64
	runEnv := func(cs c10Case, oneByte bool, bound int) {
		caseNo++
		data := append(append([]byte{}, cs.s.B...), cs.sentinel...)
		frameLen := len(cs.s.B)
		var base string
		if cs.entry == "DecodeChained" {
			base = fmt.Sprintf("%d files;", len(cs.s.Members))
			for _, m := range cs.s.Members {
				base += c10Baseline("Decode", m) + ";"
			}
		} else {
			base = c10Baseline(cs.entry, cs.s.B)
		}
		rep := c10Replay{Stream: cs.s.Name, Hex: vx.Hex(data), Entry: cs.entry, OneByte: oneByte, Frame: frameLen}
		ck := check(cs, data, base, frameLen, rep)
		var obs string
		cn := caseNo
		_, _, err := envExplore(data, oneByte, false, bound,
			func(k int64) bool { return w.Mine(k + cn) },
			func(r *envReader) { obs = c10Obs(cs.entry, callEntry(cs.entry, r)) },
			func(x *envExec, choices []int) { ck(x, choices, obs) })
		if err != nil {
			w.HarnessError("C10 %s/%s: %v", cs.s.Name, cs.entry, err)
		}
		w.Fam(fmt.Sprintf("env-bound%d", bound), 1)
	}

	for _, s := range singles {
		for _, e := range entries {
			for _, ob := range []bool{false, true} {
				if w.Expired("single streams") {
					break
				}
				runEnv(c10Case{s, sMin12.B, e}, ob, 2)
			}
		}
	}
	// the same single streams as the *whole* input (no sentinel): the last bytes may arrive together with io.EOF
	for _, s := range []namedStream{sMin12, sAct3, sDev} {
		for _, e := range []string{"Decode", "CheckIntegrity"} {
			for _, ob := range []bool{false, true} {
				runEnv(c10Case{s, nil, e}, ob, 2)
			}
		}
	}
	for _, s := range chains {
		for _, ob := range []bool{false, true} {
			if w.Expired("chains") {
				break
			}
			bound := 2
			if ob && len(s.B) > 150 && !thorough {
				bound = 1 // long chains under 1-byte default reads: bound 1 in the quick tier
			}
			runEnv(c10Case{s, nil, "DecodeChained"}, ob, bound)
		}
	}
	// larger than the internal 4096-byte buffer
	for _, e := range []string{"Decode", "CheckIntegrity"} {
		// data areas that are an exact multiple of the decoder's buffer
		runEnv(c10Case{s4096, sMin12.B, e}, false, 2)
		runEnv(c10Case{s8192, sMin12.B, e}, false, 2)
	}
	for _, e := range []string{"Decode", "CheckIntegrity", "DecodeHeaderAndFileID"} {
		runEnv(c10Case{sBig, sMin12.B, e}, false, 2)
		if thorough {
			runEnv(c10Case{sBig, sMin12.B, e}, true, 1)
		}
	}
	runEnv(c10Case{sChainBig, nil, "DecodeChained"}, false, 2)
	w.Sample(map[string]interface{}{"stream": sAct3.Name, "stream_hex": vx.Hex(sAct3.B), "sentinel": "a second valid file", "entry": "Decode", "schedule_example": []int{0, 2, 0, 4}, "menu": "0 default,1 other default,2 half,3 len-1,4 empty read,5 data+EOF"})

	// uniform chunk sizes
	chunks := []int{}
	for c := 1; c <= 33; c++ {
		chunks = append(chunks, c)
	}
	chunks = append(chunks, 4095, 4096, 4097, 8192)
	var idx int64
	for _, s := range []namedStream{sBig, s4096, s8192, sChainBig, sAct3, sChain3} {
		for _, e := range append(entries, "DecodeChained") {
			if len(s.Members) > 1 && e != "DecodeChained" {
				continue
			}
			var base string
			var data []byte
			frame := len(s.B)
			if e == "DecodeChained" {
				data = s.B
				base = fmt.Sprintf("%d files;", len(s.Members))
				for _, m := range s.Members {
					base += c10Baseline("Decode", m) + ";"
				}
			} else {
				data = append(append([]byte{}, s.B...), sMin12.B...)
				base = c10Baseline(e, s.B)
			}
			lo, hi := c10Expect(e, s.B)
			for _, c := range chunks {
				idx++
				if !w.Mine(idx) {
					continue
				}
				r := &countingReader{b: data, chunk: c}
				obs := c10Obs(e, callEntry(e, r))
				w.Eval(1)
				w.Trace(1)
				w.Transition(int64(r.reads))
				w.Fam("uniform-chunks", 1)
				rep := c10Replay{Stream: s.Name, Hex: vx.Hex(data), Entry: e, Chunk: c, Frame: frame}
				if obs != base {
					w.Violation("schedule-dependent-result/"+e, fmt.Sprintf("%s on %s with %d-byte reads differs from whole-buffer result: %s", e, s.Name, c, trunc(obs, 200)), rep)
				} else if r.i < lo || r.i > hi {
					w.Violation("frame-overrun/"+e, fmt.Sprintf("%s on %s with %d-byte reads consumed %d bytes; frame allows [%d,%d]", e, s.Name, c, r.i, lo, hi), rep)
				}
			}
		}
	}

	// all cut sets of the minimal file
	for _, e := range []string{"Decode", "CheckIntegrity"} {
		s := sMin12
		data := append(append([]byte{}, s.B...), sMin12.B...)
		base := c10Baseline(e, s.B)
		n := uint(len(s.B) - 1)
		total := uint64(1) << n
		for cuts := uint64(0); cuts < total; cuts++ {
			if !thorough && bits.OnesCount64(cuts) > 3 {
				continue
			}
			if !w.Mine(int64(cuts >> 4)) {
				continue
			}
			if cuts&0xFFFF == 0 && w.Expired("cut sets") {
				break
			}
			r := &cutReader{data: data, cuts: cuts}
			obs := c10Obs(e, callEntry(e, r))
			w.Eval(1)
			w.Trace(1)
			w.Fam("cut-sets", 1)
			if obs != base || r.pos != len(s.B) {
				w.Violation("cut-set/"+e, fmt.Sprintf("%s on %s with cut set %#x: consumed %d (frame %d), result %s", e, s.Name, cuts, r.pos, len(s.B), trunc(obs, 160)),
					c10Replay{Stream: s.Name, Hex: vx.Hex(data), Entry: e, Cuts: cuts, Frame: len(s.B)})
			}
		}
	}
	if !thorough {
		w.Note("cut sets of the minimal file limited to <=3 cuts in the quick tier (all 2^24 in thorough)")
	}
	for h := range states {
		w.State(h)
	}
}

// mixChainReplay: shared by the properties that run the chain family.
func mixChainReplay(raw json.RawMessage) (string, bool, error) {
	var mr c10MixReplay
	if json.Unmarshal(raw, &mr) != nil || !mr.MixChain {
		return "", false, nil
	}
	var members [][]byte
	for _, h := range mr.Members {
		members = append(members, vx.UnHex(h))
	}
	if msg := c10MixChainCheck(members); msg != "" {
		return "", true, fmt.Errorf("%s: %s", strings.Join(mr.Words, " + "), msg)
	}
	return "ok", true, nil
}

func replayC10(raw json.RawMessage) (string, error) {
	if s, ok, err := mixChainReplay(raw); ok {
		return s, err
	}
	var kr c10KindReplay
	if json.Unmarshal(raw, &kr) == nil && kr.ReaderKind == "file_id-shape" {
		if msg := c10FileIdAgree(vx.UnHex(kr.Hex)); msg != "" {
			return "", fmt.Errorf("%s", msg)
		}
		return "ok", nil
	}
	if json.Unmarshal(raw, &kr) == nil && kr.ReaderKind != "" {
		if msg := c10KindCheck(kr.ReaderKind, strings.TrimSuffix(kr.Entry, "+options"), vx.UnHex(kr.Hex), kr.Frame); msg != "" {
			return "", fmt.Errorf("%s through %s: %s", kr.Entry, kr.ReaderKind, msg)
		}
		return "ok", nil
	}
	var r c10Replay
	if err := json.Unmarshal(raw, &r); err != nil {
		return "", err
	}
	data := vx.UnHex(r.Hex)
	var obs string
	var consumed int
	switch {
	case r.Chunk > 0:
		rd := &countingReader{b: data, chunk: r.Chunk}
		obs = c10Obs(r.Entry, callEntry(r.Entry, rd))
		consumed = rd.i
	case r.Cuts != 0:
		rd := &cutReader{data: data, cuts: r.Cuts}
		obs = c10Obs(r.Entry, callEntry(r.Entry, rd))
		consumed = rd.pos
	default:
		rd := &envReader{data: data, oneByte: r.OneByte, prefix: r.Choices}
		obs = c10Obs(r.Entry, callEntry(r.Entry, rd))
		consumed = rd.pos
	}
	out := fmt.Sprintf("consumed=%d frame=%d result=%s", consumed, r.Frame, trunc(obs, 300))
	if r.Entry != "DecodeChained" {
		base := c10Baseline(r.Entry, data[:r.Frame])
		lo, hi := c10Expect(r.Entry, data[:r.Frame])
		if obs != base || consumed < lo || consumed > hi {
			return out, fmt.Errorf("schedule-dependent or overrunning: %s", out)
		}
	}
	return out, nil
}

// ---- chains of mix words: every ordered pair (and, for single-op words, triple) of words of the mix family
// concatenated and given to DecodeChained; each returned File must agree with the reference decoder's prediction
// for that member alone (so nothing — slots, reference time, counters — crosses a file boundary), and Decode of
// the concatenation must consume exactly the first member.

type c10MixReplay struct {
	MixChain bool     `json:"mix_chain"`
	Words    []string `json:"words"`
	Members  []string `json:"members_hex"`
}

func c10MixChainCheck(members [][]byte) string {
	data := fitmodel.Concat(members...)
	res := safeDecodeChained(bytes.NewReader(data))
	if res.Panic != "" {
		return "panic: " + res.Panic
	}
	refs := make([]*refFile, len(members))
	for i, m := range members {
		rf, err := refDecode(m)
		if err != nil || rf.expectError || rf.mayReject {
			return "" // outside the model
		}
		refs[i] = rf
	}
	if res.Err != nil {
		return "DecodeChained rejects a chain of valid files: " + res.Err.Error()
	}
	if len(res.Files) != len(members) {
		return fmt.Sprintf("DecodeChained returns %d files for %d members", len(res.Files), len(members))
	}
	for i := range members {
		if d := refCompare(res.Files[i], refs[i]); d != "" {
			return fmt.Sprintf("member %d: %s", i, d)
		}
		// also where the reference decoder demands nothing (a compressed-timestamp record before any reference):
		// the member must come out exactly as when it is decoded alone
		alone := safeDecode(bytes.NewReader(members[i]))
		if alone.Err != nil || alone.Panic != "" {
			return fmt.Sprintf("member %d alone: err=%v panic=%q", i, alone.Err, alone.Panic)
		}
		if a, c := dumpFileContent(alone.File), dumpFileContent(res.Files[i]); a != c {
			return fmt.Sprintf("member %d differs from the same file decoded alone: chained %s, alone %s", i, trunc(c, 300), trunc(a, 300))
		}
	}
	// with decode options: what the options add (unknown-item lists) must be per member as well
	resO := callEntry("DecodeChained+options", bytes.NewReader(data))
	if resO.Panic != "" || resO.Err != nil || len(resO.Files) != len(members) {
		return fmt.Sprintf("DecodeChained with all options: %d files, err=%v panic=%q", len(resO.Files), resO.Err, resO.Panic)
	}
	for i := range members {
		alone := callEntry("Decode+options", bytes.NewReader(members[i]))
		if a, c := dumpFile(alone.File), dumpFile(resO.Files[i]); a != c {
			return fmt.Sprintf("with all options, member %d differs from the same file decoded alone: chained %s, alone %s", i, trunc(c, 300), trunc(a, 300))
		}
	}
	rd := &countingReader{b: data}
	one := safeDecode(rd)
	if one.Panic != "" || one.Err != nil {
		return fmt.Sprintf("Decode of the chain: err=%v panic=%q", one.Err, one.Panic)
	}
	if rd.i != len(members[0]) {
		return fmt.Sprintf("Decode of the chain consumed %d bytes, the first member has %d", rd.i, len(members[0]))
	}
	if d := refCompare(one.File, refs[0]); d != "" {
		return "Decode of the chain: " + d
	}
	return ""
}

// c10LongChains: chains of hundreds and thousands of small files (a cap, a counter or a table indexed by the member
// number shows only there): DecodeChained must return one File per member, each equal to the member decoded alone, and
// consume the whole input; Decode of the chain consumes exactly the first member.
func c10LongChains(w *vx.W) {
	ns := []int{255, 256, 257, 4096, 4097, 5000}
	if !w.Quick() {
		ns = append(ns, 1023, 1024, 1025, 65535, 65536, 65537)
	}
	members := [][]byte{sMin12.B, sAct3.B, sSet.B, sMin14.B}
	var alone []string
	for _, m := range members {
		alone = append(alone, dumpFile(safeDecode(bytes.NewReader(m)).File))
	}
	for ni, n := range ns {
		for v := 0; v < 2; v++ {
			if !w.Mine(int64(ni*2 + v)) {
				continue
			}
			var parts [][]byte
			var idx []int
			for i := 0; i < n; i++ {
				k := 0
				if v == 1 {
					k = (i*7 + i/5) % len(members)
				}
				parts = append(parts, members[k])
				idx = append(idx, k)
			}
			chain := fitmodel.Concat(parts...)
			r := &countingReader{b: chain}
			res := safeDecodeChained(r)
			w.Eval(int64(n))
			w.Fam("long-chains", 1)
			rep := c10KindReplay{ReaderKind: fmt.Sprintf("long-chain n=%d variant=%d", n, v), Entry: "DecodeChained", Frame: len(chain)}
			switch {
			case res.Panic != "" || res.Err != nil:
				w.Violation("long-chain", fmt.Sprintf("DecodeChained on a chain of %d valid files fails: %v %s", n, res.Err, res.Panic), rep)
			case len(res.Files) != n:
				w.Violation("long-chain", fmt.Sprintf("DecodeChained on a chain of %d valid files returns %d files (nil error)", n, len(res.Files)), rep)
			case r.i != len(chain):
				w.Violation("long-chain", fmt.Sprintf("DecodeChained on a chain of %d valid files consumed %d of %d bytes", n, r.i, len(chain)), rep)
			default:
				for i, f := range res.Files {
					if d := dumpFile(f); d != alone[idx[i]] {
						w.Violation("long-chain", fmt.Sprintf("chain of %d files: member %d differs from the same file decoded alone: %s", n, i, diffAt(d, alone[idx[i]])), rep)
						break
					}
				}
			}
		}
	}
}

func c10MixChains(w *vx.W) {
	alpha := mixAlphabet()
	type word struct {
		name string
		b    []byte
	}
	var words []word
	maxLen := 1
	if !w.Quick() {
		maxLen = 2
	}
	seqWords(len(alpha), maxLen, func(int64) bool { return true }, func(wd []int) bool {
		var ops []mixOp
		for _, a := range wd {
			ops = append(ops, alpha[a])
		}
		if stream, full, ok := mixStream(ops, true); ok {
			words = append(words, word{mixWordString(full), stream})
		}
		return true
	})
	// an empty word (file_id only)
	if s, full, ok := mixStream(nil, true); ok {
		words = append(words, word{mixWordString(full), s})
	}
	var idx int64
	run := func(ws ...word) {
		idx++
		if !w.Mine(idx) {
			return
		}
		var members [][]byte
		var names []string
		for _, x := range ws {
			members = append(members, x.b)
			names = append(names, "["+x.name+"]")
		}
		w.Eval(2)
		w.Trace(2)
		w.Fam(fmt.Sprintf("mix-chains-%d", len(ws)), 1)
		w.Distinct(vx.HashB(fitmodel.Concat(members...)))
		if msg := c10MixChainCheck(members); msg != "" {
			var hx []string
			for _, m := range members {
				hx = append(hx, vx.Hex(m))
			}
			w.Violation("mix-chain", strings.Join(names, " + ")+": "+msg, c10MixReplay{MixChain: true, Words: names, Members: hx})
		}
	}
	for _, a := range words {
		for _, b := range words {
			if w.Expired("mix-chain pairs") {
				return
			}
			run(a, b)
		}
	}
	// triples over the single-op words
	var short []word
	for _, x := range words {
		if strings.Count(x.name, "def(") <= 1 && len(short) < 30 {
			short = append(short, x)
		}
	}
	for _, a := range short {
		for _, b := range short {
			for _, c := range short {
				if w.Expired("mix-chain triples") {
					return
				}
				run(a, b, c)
			}
		}
	}
}

// ---- reader kinds: the same stream (followed by a second valid file as sentinel) through the reader types callers
// really pass — *bytes.Reader, *bytes.Buffer, *strings.Reader, *bufio.Reader (small and large buffers), *os.File,
// io.LimitedReader, io.MultiReader over the record pieces, io.Pipe, the testing/iotest shapes — so that a fast path
// keyed on the dynamic type or on an optional interface (io.Seeker, io.ByteReader, io.WriterTo, Len()) is
// exercised. Oracle: same result as the plain reader, and where the reader can tell, exactly the frame consumed.

type c10KindReplay struct {
	ReaderKind string `json:"reader_kind"`
	Stream     string `json:"stream"`
	Hex        string `json:"stream_hex"`
	Frame      int    `json:"frame_len"`
	Entry      string `json:"entry"`
}

type plainReader struct {
	b []byte
	i int
}

func (r *plainReader) Read(p []byte) (int, error) {
	if r.i >= len(r.b) {
		return 0, io.EOF
	}
	n := copy(p, r.b[r.i:])
	r.i += n
	return n, nil
}

// sparseEmptyReader delivers one byte per Read and answers (0, nil) before every k-th byte: legal, never twice in a
// row, but hundreds of times over a file.
type sparseEmptyReader struct {
	b     []byte
	i, k  int
	empty bool
}

func (r *sparseEmptyReader) Read(p []byte) (int, error) {
	if len(p) == 0 {
		return 0, nil
	}
	if r.i >= len(r.b) {
		return 0, io.EOF
	}
	if r.i%r.k == 0 && !r.empty {
		r.empty = true
		return 0, nil
	}
	r.empty = false
	p[0] = r.b[r.i]
	r.i++
	return 1, nil
}

var c10ReaderKinds = []string{"empty-read-before-every-2nd-byte", "empty-read-before-every-5th-byte", "bytes.Reader", "bytes.Buffer", "strings.Reader", "bufio.Reader(16)", "bufio.Reader(4096)", "bufio.Reader(65536)", "os.File", "io.LimitedReader", "io.MultiReader", "io.Pipe", "iotest.OneByteReader", "iotest.HalfReader", "iotest.DataErrReader", "io.SectionReader", "io.TeeReader"}

// c10KindRun returns the observation and the number of bytes consumed (-1 when the reader cannot tell).
func c10KindRun(kind, entry string, data []byte) (string, int, error) {
	var r io.Reader
	consumed := func() int { return -1 }
	var cleanup func()
	switch kind {
	case "empty-read-before-every-2nd-byte", "empty-read-before-every-5th-byte":
		k := 2
		if kind == "empty-read-before-every-5th-byte" {
			k = 5
		}
		sr := &sparseEmptyReader{b: data, k: k}
		r, consumed = sr, func() int { return sr.i }
	case "bytes.Reader":
		br := bytes.NewReader(data)
		r, consumed = br, func() int { return len(data) - br.Len() }
	case "bytes.Buffer":
		bb := bytes.NewBuffer(append([]byte{}, data...))
		r, consumed = bb, func() int { return len(data) - bb.Len() }
	case "strings.Reader":
		sr := strings.NewReader(string(data))
		r, consumed = sr, func() int { return len(data) - sr.Len() }
	case "bufio.Reader(16)":
		r = bufio.NewReaderSize(&plainReader{b: data}, 16)
	case "bufio.Reader(4096)":
		r = bufio.NewReaderSize(&plainReader{b: data}, 4096)
	case "bufio.Reader(65536)":
		r = bufio.NewReaderSize(&plainReader{b: data}, 65536)
	case "os.File":
		f, err := os.CreateTemp(os.Getenv("VX_SCRATCH"), "c10-*.fit")
		if err != nil {
			return "", 0, err
		}
		cleanup = func() { f.Close(); os.Remove(f.Name()) }
		if _, err := f.Write(data); err != nil {
			cleanup()
			return "", 0, err
		}
		f.Seek(0, io.SeekStart)
		r, consumed = f, func() int { o, _ := f.Seek(0, io.SeekCurrent); return int(o) }
	case "io.LimitedReader":
		lr := &io.LimitedReader{R: &plainReader{b: data}, N: int64(len(data))}
		r, consumed = lr, func() int { return len(data) - int(lr.N) }
	case "io.MultiReader":
		var parts []io.Reader
		for i := 0; i < len(data); i += 7 {
			parts = append(parts, bytes.NewReader(data[i:minInt(i+7, len(data))]))
		}
		r = io.MultiReader(parts...)
	case "io.Pipe":
		pr, pw := io.Pipe()
		go func() {
			for i := 0; i < len(data); i += 5 {
				if _, err := pw.Write(data[i:minInt(i+5, len(data))]); err != nil {
					return
				}
			}
			pw.Close()
		}()
		cleanup = func() { pr.Close() }
		r = pr
	case "iotest.OneByteReader":
		pl := &plainReader{b: data}
		r, consumed = iotest.OneByteReader(pl), func() int { return pl.i }
	case "iotest.HalfReader":
		pl := &plainReader{b: data}
		r, consumed = iotest.HalfReader(pl), func() int { return pl.i }
	case "iotest.DataErrReader":
		r = iotest.DataErrReader(&plainReader{b: data})
	case "io.SectionReader":
		sr := io.NewSectionReader(bytes.NewReader(data), 0, int64(len(data)))
		r, consumed = sr, func() int { o, _ := sr.Seek(0, io.SeekCurrent); return int(o) }
	case "io.TeeReader":
		var sink bytes.Buffer
		r, consumed = io.TeeReader(&plainReader{b: data}, &sink), func() int { return sink.Len() }
	default:
		return "", 0, fmt.Errorf("unknown reader kind %s", kind)
	}
	obs := c10Obs(entry, callEntry(entry, r))
	n := consumed()
	if cleanup != nil {
		cleanup()
	}
	return obs, n, nil
}

func c10KindCheck(kind, entry string, data []byte, frame int) string {
	pl := &plainReader{b: data}
	base := c10Obs(entry, callEntry(entry, pl))
	obs, n, err := c10KindRun(kind, entry, data)
	if err != nil {
		return ""
	}
	if obs != base {
		return fmt.Sprintf("result differs from the plain reader's: %s vs %s", trunc(obs, 200), trunc(base, 200))
	}
	if n >= 0 && entry != "DecodeChained" {
		lo, hi := c10Expect(entry, data[:frame])
		if n < lo || n > hi {
			return fmt.Sprintf("consumed %d bytes of the reader, the frame allows %d..%d", n, lo, hi)
		}
	}
	if pl.i != n && n >= 0 && entry != "DecodeHeaderAndFileID" {
		return fmt.Sprintf("consumed %d bytes, the plain reader delivered %d", n, pl.i)
	}
	return ""
}

func c10ReaderKindsFamily(w *vx.W) {
	var idx int64
	for _, s := range []namedStream{sMin12, sAct3, sAct3BE, sSet, sDev, sZero, sBig, s4096, s8192} {
		data := fitmodel.Concat(s.B, sMin14.B) // sentinel: a second valid file
		for _, e := range []string{"Decode", "DecodeChained", "CheckIntegrity", "CheckIntegrityHeaderOnly", "DecodeHeader", "DecodeHeaderAndFileID", "Decode+options"} {
			for _, kind := range c10ReaderKinds {
				idx++
				if !w.Mine(idx) {
					continue
				}
				entry := e
				w.Eval(2)
				w.Trace(1)
				w.Fam("reader-kinds", 1)
				base := strings.TrimSuffix(entry, "+options")
				var msg string
				if base != entry {
					// same obligations as the bare call
					obs, n, err := c10KindRun(kind, entry, data)
					if err == nil {
						if want := c10Obs(entry, callEntry(entry, &plainReader{b: data})); obs != want {
							msg = "result differs from the plain reader's"
						} else if lo, hi := c10Expect(base, data[:len(s.B)]); n >= 0 && (n < lo || n > hi) {
							msg = fmt.Sprintf("consumed %d bytes of the reader, the frame allows %d..%d", n, lo, hi)
						}
					}
				} else {
					msg = c10KindCheck(kind, entry, data, len(s.B))
				}
				if msg != "" {
					w.Violation("reader-kind/"+kind, fmt.Sprintf("%s on %s through %s: %s", entry, s.Name, kind, msg), c10KindReplay{kind, s.Name, vx.Hex(data), len(s.B), entry})
				}
			}
		}
	}
}

// ---- file_id shapes: DecodeHeaderAndFileID must report the header and file_id that Decode reports, for every way
// a file_id record can legally be written: every file_id field x every definition of the compat set (narrower and
// wider than the profile type) x both byte orders x the boundary payloads, alone after the type field, before it,
// and next to a second field written at another width; also as the first member of a chain.
func c10FileIdShapes(w *vx.W) {
	p := prof()
	var idx int64
	typeFd := fitmodel.FieldDef{Num: 0, Size: 1, Base: fitmodel.Enum}
	for _, e := range p.byMesg[0] {
		if e.Num == 0 {
			continue
		}
		for _, fd := range c02Defs(e) {
			for o := 0; o < 2; o++ {
				big := o == 1
				for _, pl := range c02Payloads(e, fd, big) {
					for shape := 0; shape < 3; shape++ {
						idx++
						if !w.Mine(idx) {
							continue
						}
						var fds []fitmodel.FieldDef
						var payload []byte
						switch shape {
						case 0: // type, then the field
							fds, payload = []fitmodel.FieldDef{typeFd, fd}, append([]byte{4}, pl...)
						case 1: // the field, then type
							fds, payload = []fitmodel.FieldDef{fd, typeFd}, append(append([]byte{}, pl...), 4)
						case 2: // serial number (4 bytes of 0xA5) first, so that wider reads find non-zero leftovers
							fds = []fitmodel.FieldDef{{Num: 3, Size: 4, Base: fitmodel.Uint32z}, typeFd, fd}
							if e.Num == 3 {
								continue
							}
							payload = append([]byte{0xA5, 0xA5, 0xA5, 0xA5, 4}, pl...)
						}
						d := fitmodel.Def{Local: 0, Big: big, Global: 0, Fields: fds}
						rec := fitmodel.Data(0, payload)
						stream := fitmodel.File(fitmodel.DefaultHeader, d.Bytes(), rec, recordDef(1, big).Bytes(), recordData(1, big, 1000000000, 60, 5))
						w.Eval(2)
						w.Trace(1)
						w.Fam("file_id-shapes", 1)
						if msg := c10FileIdAgree(stream); msg != "" {
							w.Violation("file_id-shapes", fmt.Sprintf("file_id field %d written as base %#02x size %d (big-endian=%v, shape %d): %s", e.Num, fd.Base, fd.Size, big, shape, msg), c10KindReplay{ReaderKind: "file_id-shape", Hex: vx.Hex(stream), Frame: len(stream), Entry: "DecodeHeaderAndFileID"})
						}
					}
				}
			}
		}
	}
}

func c10FileIdAgree(stream []byte) string {
	d := safeDecode(bytes.NewReader(stream))
	hf := safeDecodeHeaderAndFileID(bytes.NewReader(stream))
	if d.Panic != "" || hf.Panic != "" {
		return "panic: " + d.Panic + hf.Panic
	}
	if d.Err != nil {
		return "" // not an accepted file (the definition is outside what the decoder admits)
	}
	if hf.Err != nil {
		return "Decode accepts the file, DecodeHeaderAndFileID fails: " + hf.Err.Error()
	}
	if a, b := fitmodel.DumpI(d.File.FileId), fitmodel.DumpI(hf.FileId); a != b {
		return fmt.Sprintf("Decode reports %s, DecodeHeaderAndFileID %s", a, b)
	}
	if a, b := fitmodel.DumpI(d.File.Header), fitmodel.DumpI(hf.Header); a != b {
		return fmt.Sprintf("Decode reports header %s, DecodeHeaderAndFileID %s", a, b)
	}
	ch := safeDecodeChained(bytes.NewReader(fitmodel.Concat(stream, sMin12.B)))
	if ch.Err != nil || len(ch.Files) != 2 {
		return fmt.Sprintf("as first member of a chain: %d files, err=%v", len(ch.Files), ch.Err)
	}
	if a, b := fitmodel.DumpI(d.File.FileId), fitmodel.DumpI(ch.Files[0].FileId); a != b {
		return fmt.Sprintf("Decode reports %s, DecodeChained %s", a, b)
	}
	return ""
}
