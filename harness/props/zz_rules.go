package props

import "verif/vx"

// Families added after the first version of each check (seeding rounds 4-6) describe themselves here, so that the
// rule text in the evidence files stays complete without rewriting the long strings in the cNN.go files.
func init() {
	add := vx.AppendRule
	add("C01", " Also: the decoding calls with decode options (all / each alone; DecodeChained with all) over the header space with every cut, the corpus with cuts, developer-field definitions and record-header words; (h) headers that lie about the data size: every declared size from 0 to past the end on streams with a 200-byte array, 40-byte strings and 100 bytes of developer data, followed by the rest of the bytes / a right CRC and another file / nothing, under whole-buffer, 1-, 3- and 17-byte reads.")
	add("C01", " (k) every string field (scalar and array) of every known message filled with every word of length 1..4 over the UTF-8 byte classes {NUL, ASCII, 0x80, 0xBF, 2-/3-/4-byte lead bytes, 0xFF}.")
	add("C01", " (j) every pair of record-header bytes with model-expected bodies between the file_id definition and the first file_id data record.")
	add("C01", " (i) a local timestamp at every whole-second distance between -15 h and +15 h from its UTC reference, both byte orders.")
	add("C01", " (l) developer fields with their describing messages: a field_description whose fit_base_type_id takes each of the 256 byte values x developer field sizes 1,2,3,4,8,255 x {with / without developer_data_id, described twice, described after the definition} x both byte orders, through Decode, DecodeChained and Decode with all options.")
	add("C12", " Zone-offset sweep: a local timestamp at every whole-second distance between -15 h and +15 h from its UTC reference (108 001 offsets, both byte orders) must read the stored wall clock in a zone that far from UTC.")
	add("C02", " Developer fields in every number from 1 to 255 (sizes 1 and 3) on a known and an unknown message between records of another local type, judged by the reference decoder.")
	for _, id := range []string{"C02", "C06", "C12", "C17"} {
		add(id, " Process time zone as an environment answer: a compact family (decoded dumps of timestamp-bearing streams, Encode outputs of Files whose times carry UTC, fixed, named and local zones, the conversions at their boundaries) is executed in fresh processes under TZ=UTC, Asia/Kathmandu, America/St_Johns and Pacific/Chatham; the digests must be identical.")
	}
	for _, id := range []string{"C01", "C04", "C05", "C06", "C07", "C08", "C11", "C14"} {
		add(id, " Processor count as an environment answer: a family of large inputs (long message slices with a field set only in the last / first / middle message; single checksum writes of 64 KiB ... 1 MiB plus odd remainders; every cut and fault offset of a three-file chain; a 100 KB file through readers that answer (0, nil) now and then) is executed in a fresh process under GOMAXPROCS = 1, 2, 3, 4, 7, 8, 16; every digest must equal the single-processor one and the helper must return.")
	}
	for _, id := range []string{"C08", "C10"} {
		add(id, " Environment variables as environment answers: the library packages are scanned for reads of the process environment; for every variable found a behavioural digest (decoded dumps, encoded bytes, bytes consumed per entry point, chain member counts, verdicts) is compared between fresh processes with the variable unset and set to each candidate value taken from the reading file's string literals.")
	}
	add("C03", " Retention: containers obtained from earlier decodes (with and without their File kept) must dump the same after further decodes of the same kind and garbage collections.")
	add("C18", " Garbage collection as an environment answer: accumulating record words decoded through a reader that forces two collections before every Read must equal the undisturbed decode.")
	add("C04", " Also: verdicts of Decode, CheckIntegrity and the header-only check on 7 valid files and single-bit corruptions at 40 positions each under whole-buffer, 1-, 7-, 100-, 1023-, 1024-, 4096-byte and halving readers; single- and double-bit bursts once more with all decode options.")
	add("C05", " Also: every third File carries stale non-zero Header.CRC / DataSize / CRC before the call; one File object encoded, grown, encoded, shrunk, encoded; 7 writer kinds (plain copying writer, bufio 16 / 65536, os.File, io.Pipe, io.MultiWriter, a writer with optional interfaces) must receive the bytes *bytes.Buffer receives; every ordered triple of 4 string values per string field.")
	add("C06", " Also: local timestamps 18 zone offsets away from a UTC reference in the same or an earlier message (not only whole minutes); several local timestamps in one real daylight-saving zone (Europe/Oslo, all ordered pairs of 5 instants around the 2021 transitions; skipped with a note if the zone database is absent).")
	add("C07", " Also in the pool: mix-family words (length <=2 quick / <=3 thorough), files in which every member holds fully populated messages, sparse-after-rich slices, and string sequences (all ordered pairs of 6 values incl. multi-byte runes, longer before shorter) for every string field of a slice-hosted message; a minimal stream for each of the 256 file_id.type values.")
	add("C10", " Reader kinds: 9 streams (+ sentinel file) x 7 calls x {bytes.Reader, bytes.Buffer, strings.Reader, bufio 16/4096/65536, os.File, io.LimitedReader, io.MultiReader, io.Pipe, iotest.OneByte/Half/DataErr readers, io.SectionReader, io.TeeReader}: same result as a plain reader and, where the reader can tell, exactly the frame consumed. file_id shapes: every file_id field x every compat definition x both byte orders x boundary payloads x 3 layouts: DecodeHeaderAndFileID, Decode and DecodeChained report the same header and file_id.")
	add("C11", " The decoding calls are made bare and with decode options; streams whose trailing CRC has a zero high byte, a zero low byte or is 0x0000 (so that substituted stale/zero bytes would pass).")
	add("C15", " The message types File itself holds (file_id, file_creator, timestamp_correlation ...) must be registered known messages. Every ordered pair of known messages on one local type (redefinition), written with compressed-timestamp headers after a reference was set: the header time reaches field 253 of exactly the messages whose profile has it (judged by the reference decoder).")
	add("C17", " A free-running, sampled pass: eight goroutines encode and decode Files with their own timestamps and coordinates 150 times each; every result must equal the one computed alone.")
	add("C17", " Decoded-value family also with each boundary value as the first and only record of a fresh decode.")
	add("C19", " The -sdk flag with zip inputs: a neutrally named zip plus -sdk (same output as the .xlsx), and a zip named for one version plus -sdk naming another (the flag overrides); the output directory also given as a relative path (gen, src/fit, .) from another working directory; subfield rows switched off by writing 0 and by emptying the cell must give identical output; the command under GOMAXPROCS=1 and 3; class toggles: every unprotected row of one type (each type that occurs, every array, every non-array) disabled at once.")
	add("C05", " The wire values are compared with expectations computed from the File before the call (what an Encode writes into the caller's messages cannot make them agree); array fields of three consecutive messages that are sub-slices of one backing array with spare capacity, for every array field of every hosted slice message and 4 length pairs, both byte orders.")
	add("C06", " Every seventh File is encoded right after two Encode calls that fail (a string that is not UTF-8 in the last message; a writer fault on the 1st, 2nd or 3rd write).")
	add("C19", " The output directory as an environment answer: it already holds the fresh output except for one of the four generated files, which is the same-named file generated from another SDK version or cut in half (thorough: or empty); the finished run must leave exactly the fresh output.")
	add("C07", " Placement of a local time: before / after its message's own timestamp or alone x a preceding record 3 s earlier, equal, 3 s or 47 s later x 9 zone offsets on and next to whole quarter hours x both byte orders.")
	add("C06", " The reference values come from a second, identical File that Encode never sees.")
	add("C07", " Generation 1 is taken from a second decode of the input that Encode never sees.")
	add("C15", " Every entry of every known message (hosted by a container or not) declared with each of the 17 base types at that type's element size, twice that, the entry's natural size and a 24-byte form, both byte orders: whatever the definition check admits, no reflection access may fail (a rejection is fine).")
	add("C17", " Through the decoder also: every sint16 and every sint8 value as position_lat / position_long, both byte orders (the coordinate is the sign-extended value; the narrow types' own sentinels carry no demand).")
	add("C18", " Every single-file case with two or more messages is decoded once more with all messages on one local type (each definition replacing the previous one) under compressed-timestamp headers: a source or destination kept across the redefinition shows as a field the stream does not carry.")
	for _, id := range []string{"C05", "C06"} {
		add(id, " Long message slices: activity records with one field set in a single message at index 254, 255, 256, 4095, 4096, 4097, 8192, 8193, 65535, 65536 (as the last message, and followed by two more), every other message slice of every file type at indices 255 and 4096 (thorough: more).")
	}
	add("C16", " Long runs: units of the mix family with unknown messages, unknown fields and developer data repeated 256, 257, 4097 (some 65537; thorough more) times under every option configuration — content, error, bytes consumed and the exact counts from the independent parser.")
	add("C18", " (E) long record runs: 256, 257, 1365, 1366, 4097 and 70 000 records cycling through the source-carrying variants, in one file.")
	add("C01", " (m) long runs: 513 and 4097 repetitions of redefinition units of the mix family (a definition on a second local type staying live across them) through Decode, DecodeChained and Decode with all options.")
	add("C15", " Long runs of 513 and 4097 definitions in one file through the decoding calls: no failing reflection access.")
	add("C10", " Long chains: 255, 256, 257, 4096, 4097, 5000 (thorough up to 65537) small valid files in one stream, identical and mixed: one File per member, each equal to the member decoded alone, whole input consumed.")
	add("C07", " Long runs (4097 ... 65537 records, re-encoded sizes above 64 KiB) through the generations.")
	add("C14", " 70 000 hashers alive at once: each starts at zero, is fed its own data in an interleaved order and ends with the reference checksum of its own data.")
	add("C17", " Late first fix: activities whose first 1023 ... 40000 (thorough 65537) records carry no time and position; the later records' values must come back from Encode / Decode.")
	add("C11", " An 80 KiB activity (a decoder that changes its reading once 64 KiB were consumed): the offsets around every multiple of 32 KiB, every 1021st offset beyond 64 KiB and the last 40 offsets, all fault kinds and entry points.")
}
