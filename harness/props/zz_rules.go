package props

import "verif/vx"

// Families added after the first version of each check (seeding rounds 4-6) describe themselves here, so that the
// rule text in the evidence files stays complete without rewriting the long strings in the cNN.go files.
func init() {
	add := vx.AppendRule
	add("C01", " Also: the decoding calls with decode options (all / each alone; DecodeChained with all) over the header space with every cut, the corpus with cuts, developer-field definitions and record-header words; (h) headers that lie about the data size: every declared size from 0 to past the end on streams with a 200-byte array, 40-byte strings and 100 bytes of developer data, followed by the rest of the bytes / a right CRC and another file / nothing, under whole-buffer, 1-, 3- and 17-byte reads.")
	add("C01", " (k) every string field (scalar and array) of every known message filled with every word of length 1..4 over the UTF-8 byte classes {NUL, ASCII, 0x80, 0xBF, 2-/3-/4-byte lead bytes, 0xFF}.")
	add("C01", " (j) every pair of record-header bytes with model-expected bodies between the file_id definition and the first file_id data record.")
	add("C01", " (i) a local timestamp at every whole-second distance between -15 h and +15 h from its UTC reference, both byte orders.")
	add("C12", " Zone-offset sweep: a local timestamp at every whole-second distance between -15 h and +15 h from its UTC reference (108 001 offsets, both byte orders) must read the stored wall clock in a zone that far from UTC.")
	add("C04", " Also: verdicts of Decode, CheckIntegrity and the header-only check on 7 valid files and single-bit corruptions at 40 positions each under whole-buffer, 1-, 7-, 100-, 1023-, 1024-, 4096-byte and halving readers; single- and double-bit bursts once more with all decode options.")
	add("C05", " Also: every third File carries stale non-zero Header.CRC / DataSize / CRC before the call; one File object encoded, grown, encoded, shrunk, encoded; 7 writer kinds (plain copying writer, bufio 16 / 65536, os.File, io.Pipe, io.MultiWriter, a writer with optional interfaces) must receive the bytes *bytes.Buffer receives; every ordered triple of 4 string values per string field.")
	add("C06", " Also: local timestamps 18 zone offsets away from a UTC reference in the same or an earlier message (not only whole minutes); several local timestamps in one real daylight-saving zone (Europe/Oslo, all ordered pairs of 5 instants around the 2021 transitions; skipped with a note if the zone database is absent).")
	add("C07", " Also in the pool: mix-family words (length <=2 quick / <=3 thorough), files in which every member holds fully populated messages, sparse-after-rich slices, and string sequences (all ordered pairs of 6 values incl. multi-byte runes, longer before shorter) for every string field of a slice-hosted message; a minimal stream for each of the 256 file_id.type values.")
	add("C10", " Reader kinds: 9 streams (+ sentinel file) x 7 calls x {bytes.Reader, bytes.Buffer, strings.Reader, bufio 16/4096/65536, os.File, io.LimitedReader, io.MultiReader, io.Pipe, iotest.OneByte/Half/DataErr readers, io.SectionReader, io.TeeReader}: same result as a plain reader and, where the reader can tell, exactly the frame consumed. file_id shapes: every file_id field x every compat definition x both byte orders x boundary payloads x 3 layouts: DecodeHeaderAndFileID, Decode and DecodeChained report the same header and file_id.")
	add("C11", " The decoding calls are made bare and with decode options; streams whose trailing CRC has a zero high byte, a zero low byte or is 0x0000 (so that substituted stale/zero bytes would pass).")
	add("C15", " The message types File itself holds (file_id, file_creator, timestamp_correlation ...) must be registered known messages.")
	add("C17", " Decoded-value family also with each boundary value as the first and only record of a fresh decode.")
	add("C19", " The -sdk flag with zip inputs: a neutrally named zip plus -sdk (same output as the .xlsx), and a zip named for one version plus -sdk naming another (the flag overrides); the output directory also given as a relative path (gen, src/fit, .) from another working directory; subfield rows switched off by writing 0 and by emptying the cell must give identical output.")
}
