package props

import (
	"bytes"
	"encoding/binary"
	"fmt"
	"io"
	"runtime"
	"strings"
	"time"

	"github.com/tormoder/fit"
	"github.com/tormoder/fit/dyncrc16"

	"verif/fitmodel"
	"verif/vx"
)

// Processor count as an environment answer: code that splits work by runtime.GOMAXPROCS only does so for large
// inputs, so a family of large inputs is executed in one fresh process under GOMAXPROCS = 1, 2, 3, 4, 7, 8 and 16
// and the digests are compared with the single-processor one (which is the sequential semantics the other
// families establish). Segments: "encode" (long message slices in which a field is set only in the last / first /
// middle message; times and coordinates in every message), "checksum" (single writes of 64 KiB ... 1 MiB + odd
// remainders), "chain-faults" (every cut and fault offset of a three-file chain through DecodeChained),
// "integrity" (CheckIntegrity / Decode of a 100 KB file through readers that answer (0, nil) now and then).

var procsCounts = []int{1, 2, 3, 4, 7, 8, 16}

func procsSegment(seg string) string {
	var sb strings.Builder
	switch seg {
	case "encode":
		for _, n := range []int{33, 70, 257, 1001, 1025, 4100} {
			for where := 0; where < 3; where++ {
				f, _ := fit.NewFile(fit.FileTypeActivity, fit.NewHeader(fit.V20, true))
				fid := fit.VerifNewMesg(0)
				fid.FieldByName("Type").SetUint(uint64(fit.FileTypeActivity))
				f.FileId = fid.Interface().(fit.FileIdMsg)
				f.FileId.TimeCreated = time.Unix(fitmodel.FitEpoch+999999999, 0).UTC()
				a, _ := f.Activity()
				for i := 0; i < n; i++ {
					r := fit.NewRecordMsg()
					r.Timestamp = time.Unix(fitmodel.FitEpoch+1000000000+int64(i), 0).UTC()
					r.PositionLat = fit.NewLatitude(int32(1000 + i*3))
					r.PositionLong = fit.NewLongitude(int32(-2000 - i*5))
					a.Records = append(a.Records, r)
				}
				at := []int{n - 1, 0, n / 2}[where]
				a.Records[at].HeartRate = 142
				a.Records[at].Temperature = 21
				for _, order := range []binary.ByteOrder{binary.LittleEndian, binary.BigEndian} {
					var buf bytes.Buffer
					err := fit.Encode(&buf, f, order)
					res := safeDecode(bytes.NewReader(buf.Bytes()))
					fmt.Fprintf(&sb, "n=%d at=%d %v bytes=%016x decode=%v %016x\n", n, at, err, vx.HashB(buf.Bytes()), res.Err, vx.Hash(dumpFile(res.File)))
				}
			}
		}
	case "checksum":
		for _, n := range []int{65535, 65537, 131073, 196613, 300001, 1<<20 - 1, 1<<20 + 1, 3<<18 + 5} {
			b := c14Pattern(n)
			h := dyncrc16.New()
			h.Write(b[:n/3])
			h.Write(b[n/3:])
			fmt.Fprintf(&sb, "%d %04x %04x\n", n, dyncrc16.Checksum(b), h.Sum16())
		}
	case "chain-faults":
		s := sChain3
		for _, kind := range []string{"cut", "fault", "fault-with-data"} {
			for off := 0; off <= len(s.B); off++ {
				res := callEntry("DecodeChained", c11Reader(s.B, kind, off, false))
				fmt.Fprintf(&sb, "%v/%d ", res.Err == nil, len(res.Files))
			}
			sb.WriteString("\n")
		}
	case "integrity":
		big := activityFile(hdr14(), 7000, false, 1)
		for _, every := range []int{0, 3, 7} {
			mk := func() io.Reader { return &lazyReader{b: big, every: every} }
			d := safeDecode(mk())
			c := safeCheckIntegrity(mk(), false)
			fmt.Fprintf(&sb, "every=%d decode=%v ci=%v %016x\n", every, d.Err, c.Err, vx.Hash(dumpFile(d.File)))
		}
	}
	return fmt.Sprintf("%016x/%d", vx.Hash(sb.String()), sb.Len())
}

// lazyReader delivers up to 1000 bytes per Read and answers (0, nil) twice before every `every`-th delivery.
type lazyReader struct {
	b            []byte
	i, every     int
	calls, empty int
}

func (r *lazyReader) Read(p []byte) (int, error) {
	if len(p) == 0 {
		return 0, nil
	}
	if r.i >= len(r.b) {
		return 0, io.EOF
	}
	if r.every > 0 && r.calls%r.every == r.every-1 && r.empty < 2 {
		r.empty++
		return 0, nil
	}
	r.empty = 0
	r.calls++
	n := len(p)
	if n > 1000 {
		n = 1000
	}
	n = copy(p[:n], r.b[r.i:])
	r.i += n
	return n, nil
}

// procsSub serves `--sub procs <segment>`: one digest line per processor count.
func procsSub(args []string) bool {
	if len(args) < 2 || args[0] != "procs" {
		return false
	}
	for _, g := range procsCounts {
		runtime.GOMAXPROCS(g)
		fmt.Printf("%d %s\n", g, procsSegment(args[1]))
	}
	return true
}

// procsFamily: all digests of a segment must equal the single-processor one; a helper that does not return is a hang.
func procsFamily(w *vx.W, id string, segments ...string) {
	if w.Shard != 0 {
		return
	}
	for _, seg := range segments {
		out, err := vx.SubRunEnv(id, []string{"GOMAXPROCS=16"}, "procs", seg)
		w.Eval(int64(len(procsCounts)))
		w.Trace(1)
		w.Fam("processor-counts/"+seg, 1)
		if err != nil {
			w.Violation("processor-count/"+seg, fmt.Sprintf("the %q family under GOMAXPROCS %v did not complete: %v", seg, procsCounts, err), map[string]interface{}{"procs_segment": seg})
			continue
		}
		lines := strings.Split(strings.TrimSpace(string(out)), "\n")
		if len(lines) != len(procsCounts) {
			w.HarnessError("processor-count family %s: %d lines", seg, len(lines))
		}
		base := strings.SplitN(lines[0], " ", 2)[1]
		for _, l := range lines[1:] {
			p := strings.SplitN(l, " ", 2)
			if p[1] != base {
				w.Violation("processor-count/"+seg, fmt.Sprintf("the %q family gives a different result under GOMAXPROCS=%s (%s) than under GOMAXPROCS=1 (%s)", seg, p[0], p[1], base), map[string]interface{}{"procs_segment": seg, "gomaxprocs": p[0]})
				break
			}
		}
	}
}
