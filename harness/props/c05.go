package props

import (
	"bufio"
	"bytes"
	"encoding/binary"
	"encoding/json"
	"fmt"
	"io"
	"os"
	"reflect"
	"strings"
	"unicode/utf8"

	"github.com/tormoder/fit"

	"verif/fitmodel"
	"verif/vx"
)

// C05: Encode emits a well-formed, self-describing FIT stream.

type c05Replay struct {
	Spec genSpecJSON `json:"spec"`
	Hex  string      `json:"encoded_hex"`
}

type genSpecJSON struct {
	FT     byte            `json:"file_type"`
	Common string          `json:"common,omitempty"`
	Member string          `json:"member,omitempty"`
	Mesg   uint16          `json:"mesg"`
	Msgs   [][]genFieldSet `json:"msgs"`
	HdrCRC bool            `json:"header_crc"`
	Big    bool            `json:"big_endian"`
	Desc   string          `json:"desc"`
	Stale  bool            `json:"stale_output_fields,omitempty"`
	Failed int             `json:"after_failed_encodes,omitempty"`
	LongN  int             `json:"long_n,omitempty"`
	LongAt int             `json:"long_at,omitempty"`
}

func (g genSpec) json() genSpecJSON {
	return genSpecJSON{g.Slot.FT, g.Slot.Common, g.Slot.Slot.Name, g.Slot.Mesg, g.Msgs, g.HdrCRC, g.Big, g.Desc, g.Stale, g.AfterFailed, g.LongN, g.LongAt}
}

func specFromJSON(j genSpecJSON) (genSpec, bool) {
	for _, gs := range genSlots() {
		if gs.FT == j.FT && gs.Common == j.Common && gs.Slot.Name == j.Member && gs.Mesg == j.Mesg {
			return genSpec{Slot: gs, Msgs: j.Msgs, HdrCRC: j.HdrCRC, Big: j.Big, Desc: j.Desc, Stale: j.Stale, AfterFailed: j.Failed, LongN: j.LongN, LongAt: j.LongAt}, true
		}
	}
	return genSpec{}, false
}

func init() {
	vx.Register(&vx.Prop{
		ID:    "C05",
		Level: "exploration",
		Rule: "Files built through NewHeader/NewFile/constructors: 17 file types x every container member (plus file_id / file_creator / timestamp_correlation) x {no field, each single field x each boundary value, all fields (two value sets), two messages with disjoint halves (union definition), three-message mixes} x byte order x header with/without CRC; every fifth File is encoded right after two Encode calls that fail part-way; Files with every member populated at once (4 variants of empty / one-field messages). " +
			"Oracle: strict independent grammar parser (header size/type/data size, header and trailing CRC, every data record defined earlier, sizes multiples of base size, unique field numbers, exact end of data), every definition field listed in the profile with that base type and the profile's size, wire bytes = reference encoding of the Go values put in (arrays padded with invalid, strings NUL padded, times in seconds, local times as wall-clock seconds, semicircles), every set field present; File.Header.DataSize / Header.CRC / CRC equal to what was written. distinct = distinct encoded outputs",
		Run: runC05,
		Sub: func(args []string) { tzSub(args) },
		Replay: func(raw json.RawMessage) (string, error) {
			var r c05Replay
			json.Unmarshal(raw, &r)
			g, ok := specFromJSON(r.Spec)
			if !ok {
				return "", fmt.Errorf("slot not found")
			}
			_, msg, _ := c05Check(g)
			if msg != "" {
				return "", fmt.Errorf("%s", msg)
			}
			return "ok", nil
		},
		Post: func(m *vx.Merged) error {
			if m.Fam["files-encoded"] < 1000 {
				return fmt.Errorf("only %d files encoded", m.Fam["files-encoded"])
			}
			return nil
		},
	})
}

// c05Check encodes the spec and validates the output. Returns output, violation message, class.
func c05Check(g genSpec) ([]byte, string, string) {
	f, msgs, err := g.build()
	if err != nil {
		return nil, "", "skip"
	}
	exp := map[uint16][]reflect.Value{}
	if g.Slot.Common != "FileId" {
		exp[g.Slot.Mesg] = append(exp[g.Slot.Mesg], msgs...)
	}
	return c05EncodeAndValidate(f, exp, g.Big, g.HdrCRC)
}

// c05EncodeAndValidate encodes f and validates the bytes against the grammar, the profile and the reference
// encoding of the messages in exp (per message number, in File order; file_id is added here).
func c05EncodeAndValidate(f *fit.File, exp map[uint16][]reflect.Value, big, hdrCRC bool) ([]byte, string, string) {
	// the values "in the File" are the ones it holds when Encode is called: a deep snapshot, so that an Encode
	// that writes into the caller's messages cannot make the comparison below agree with itself
	type preT struct {
		inv  bool
		want []byte
		dump string
	}
	prP := prof()
	all := map[uint16][]reflect.Value{0: {reflect.ValueOf(f.FileId)}}
	for m, ms := range exp {
		all[m] = append(all[m], ms...)
	}
	pre := map[uint16][][]preT{}
	for m, ms := range all {
		for _, mv := range ms {
			var row []preT
			for _, e := range prP.byMesg[m] {
				fv := mv.Field(e.Sindex)
				isInv := invalidValueOK(fv, e)
				var want []byte
				if isInv && fv.Kind() == reflect.Slice {
					want = wireOf(reflect.MakeSlice(fv.Type(), 0, 0), e, big)
				} else {
					want = wireOf(fv, e, big)
				}
				row = append(row, preT{isInv, append([]byte{}, want...), fitmodel.Dump(fv)})
			}
			pre[m] = append(pre[m], row)
		}
	}
	out, eerr, pn := safeEncode(f, big)
	if pn != "" {
		return out, "Encode panics: " + pn, "encode-panic"
	}
	if eerr != nil {
		return out, "Encode fails on an in-domain File: " + eerr.Error(), "encode-error"
	}
	p, perr := fitmodel.Parse(out)
	if perr != nil {
		return out, "output violates the FIT grammar: " + perr.Error(), "grammar"
	}
	if len(p.Oddities) > 0 {
		return out, "output is not canonical: " + p.Oddities[0], "grammar"
	}
	wantHS := byte(12)
	if hdrCRC {
		wantHS = 14
	}
	if p.HeaderSize != wantHS {
		return out, fmt.Sprintf("header size %d, File header says %d", p.HeaderSize, wantHS), "header"
	}
	if hdrCRC && p.HeaderCRC != fitmodel.CRC(out[:12]) {
		return out, fmt.Sprintf("header CRC %#04x written, reference %#04x", p.HeaderCRC, fitmodel.CRC(out[:12])), "header"
	}
	if p.Proto != f.Header.ProtocolVersion || p.Profile != f.Header.ProfileVersion {
		return out, "protocol/profile version bytes differ from File.Header", "header"
	}
	if f.Header.DataSize != p.DataSize {
		return out, fmt.Sprintf("File.Header.DataSize=%d after Encode, %d written", f.Header.DataSize, p.DataSize), "file-fields/DataSize"
	}
	if f.CRC != p.FileCRC {
		return out, fmt.Sprintf("File.CRC=%#04x after Encode, %#04x written", f.CRC, p.FileCRC), "file-fields/CRC"
	}
	if hdrCRC && f.Header.CRC != p.HeaderCRC {
		return out, fmt.Sprintf("File.Header.CRC=%#04x after Encode, %#04x written", f.Header.CRC, p.HeaderCRC), "file-fields/Header.CRC"
	}
	pr := prof()
	for _, d := range p.Defs {
		if d.Big != big {
			return out, fmt.Sprintf("definition at %d uses the wrong architecture", d.Offset), "definition"
		}
		if d.DevFlag {
			return out, "definition with developer flag emitted", "definition"
		}
		for _, fd := range d.Fields {
			e, ok := pr.fields[d.Global][fd.Num]
			if !ok {
				return out, fmt.Sprintf("definition of message %d lists field %d which the profile does not have", d.Global, fd.Num), "definition"
			}
			if fd.Base != e.Base {
				return out, fmt.Sprintf("message %d field %d written with base type %#02x, profile %#02x", d.Global, fd.Num, fd.Base, e.Base), "definition"
			}
			if int(fd.Size) != wireSize(e) {
				return out, fmt.Sprintf("message %d field %d written with size %d, profile size x length = %d", d.Global, fd.Num, fd.Size, wireSize(e)), "definition"
			}
		}
	}
	byMesg := map[uint16][]*fitmodel.ParsedRec{}
	for _, r := range p.Recs {
		byMesg[r.Def.Global] = append(byMesg[r.Def.Global], r)
		if r.Compressed {
			return out, "compressed timestamp header emitted", "record"
		}
	}
	total := 0
	for m, ms := range all {
		total += len(ms)
		recs := byMesg[m]
		if len(recs) != len(ms) {
			return out, fmt.Sprintf("message %d: %d data records written, File holds %d", m, len(recs), len(ms)), "record-count"
		}
		for i := range ms {
			r := recs[i]
			for j, e := range pr.byMesg[m] {
				// the values the File held when Encode was called (computed before the call)
				pv := pre[m][i][j]
				wire, present := r.Fields[e.Num]
				if !present {
					if !pv.inv {
						return out, fmt.Sprintf("message %d #%d: field %d is set in the File (%s) but absent from the definition", m, i, e.Num, pv.dump), "value-missing"
					}
					continue
				}
				if !bytes.Equal(wire, pv.want) {
					return out, fmt.Sprintf("message %d #%d field %d: wire bytes %x, reference encoding of %s is %x", m, i, e.Num, wire, pv.dump, pv.want), "value"
				}
			}
		}
	}
	if len(p.Recs) != total {
		return out, fmt.Sprintf("%d data records written, File holds %d messages", len(p.Recs), total), "record-count"
	}
	return out, "", ""
}

// multiFile builds a File in which *every* member (and file_creator / timestamp_correlation) is populated at once.
// variant 0: one all-invalid message everywhere; 1: one message with its first usable field; 2/3: alternating
// empty / non-empty members, slices holding two messages (empty + one field, or the reverse).
func multiFile(ft byte, variant int, hdrCRC bool) (*fit.File, map[uint16][]reflect.Value) {
	f, err := fit.NewFile(fit.FileType(ft), fit.NewHeader(fit.V20, hdrCRC))
	if err != nil {
		return nil, nil
	}
	fid := fit.VerifNewMesg(0)
	fid.FieldByName("Type").SetUint(uint64(ft))
	f.FileId = fid.Interface().(fit.FileIdMsg)
	exp := map[uint16][]reflect.Value{}
	p := prof()
	mk := func(m uint16, withField bool, salt int) reflect.Value {
		mv := fit.VerifNewMesg(fit.MesgNum(m))
		if withField {
			for _, e := range p.byMesg[m] {
				if genValue(mv.Field(e.Sindex), e, 0, salt) {
					break
				}
			}
		}
		return mv
	}
	idx := 0
	want := func() []bool {
		idx++
		switch variant {
		case 0:
			return []bool{false}
		case 1:
			return []bool{true}
		case 2:
			if idx%2 == 0 {
				return []bool{false, true}
			}
			return []bool{false}
		}
		if idx%2 == 0 {
			return []bool{true, false}
		}
		return []bool{true}
	}
	fc := mk(uint16(fit.MesgNumFileCreator), want()[0], 1)
	f.FileCreator = fc.Addr().Interface().(*fit.FileCreatorMsg)
	exp[uint16(fit.MesgNumFileCreator)] = []reflect.Value{fc}
	tc := mk(uint16(fit.MesgNumTimestampCorrelation), want()[0], 2)
	f.TimestampCorrelation = tc.Addr().Interface().(*fit.TimestampCorrelationMsg)
	exp[uint16(fit.MesgNumTimestampCorrelation)] = []reflect.Value{tc}
	c := container(f)
	for _, sl := range hosts()[ft] {
		fv := c.Elem().Field(sl.Index)
		ws := want()
		if !sl.IsSlice {
			ws = ws[len(ws)-1:]
		}
		for i, wf := range ws {
			mv := mk(sl.Mesg, wf, 3+i)
			if sl.IsSlice {
				fv.Set(reflect.Append(fv, mv.Addr()))
			} else {
				fv.Set(mv.Addr())
			}
			exp[sl.Mesg] = append(exp[sl.Mesg], mv)
		}
	}
	return f, exp
}

func runC05(w *vx.W) {
	procsFamily(w, "C05", "encode")
	thorough := !w.Quick()
	var k int64
	for _, gs := range genSlots() {
		for _, g := range genSpecs(gs, thorough) {
			k++
			if !w.Mine(k) {
				continue
			}
			if k%5 == 0 {
				// an Encode that fails part-way (last message not encodable / writer fault) right before:
				// nothing of it may leak into the next output
				g.AfterFailed = 1 + int(k/5)%3
				g.Desc += ", after two failed Encode calls"
				w.Fam("after-a-failed-encode", 1)
			}
			if k%3 == 0 {
				// the File's own output fields hold stale values (as they do after a Decode or an earlier Encode)
				g.Stale = true
				g.Desc += ", stale Header.CRC/DataSize/CRC"
				w.Fam("stale-output-fields", 1)
			}
			out, msg, class := c05Check(g)
			if class == "skip" {
				w.Fam("skipped-no-value", 1)
				continue
			}
			w.Eval(1)
			w.Fam("files-encoded", 1)
			w.Distinct(vx.HashB(out))
			if msg != "" {
				w.Violation(class, fmt.Sprintf("%s file, %s%s (%v), %s, big=%v hdrcrc=%v: %s", fileTypeByByte(g.Slot.FT).Name, g.Slot.Common, g.Slot.Slot.Name, fit.MesgNum(g.Slot.Mesg), g.Desc, g.Big, g.HdrCRC, msg), c05Replay{g.json(), vx.Hex(out)})
			}
			if k == 5000 {
				w.Sample(map[string]interface{}{"spec": g.json(), "encoded_hex": vx.Hex(out)})
			}
		}
	}
	// Files in which every member is populated at once (adjacent messages of different types, empty and not)
	for _, t := range fileTypes {
		for variant := 0; variant < 4; variant++ {
			for c := 0; c < 4; c++ {
				k++
				if !w.Mine(k) {
					continue
				}
				f, exp := multiFile(byte(t.Type), variant, c&1 == 0)
				if f == nil {
					continue
				}
				out, msg, class := c05EncodeAndValidate(f, exp, c&2 != 0, c&1 == 0)
				w.Eval(1)
				w.Fam("multi-member-files", 1)
				w.Distinct(vx.HashB(out))
				if msg != "" {
					w.Violation(class, fmt.Sprintf("%s file with every member populated (variant %d), big=%v hdrcrc=%v: %s", t.Name, variant, c&2 != 0, c&1 == 0, msg), map[string]interface{}{"file_type": t.Type, "variant": variant, "encoded_hex": vx.Hex(out)})
				}
			}
		}
	}
	// the same File object encoded, modified so that its size changes, and encoded again (and a third time after
	// shrinking it back): every output must be well-formed on its own
	for _, t := range fileTypes {
		for variant := 0; variant < 4; variant++ {
			for c := 0; c < 4; c++ {
				k++
				if !w.Mine(k) {
					continue
				}
				f, exp := multiFile(byte(t.Type), variant, c&1 == 0)
				if f == nil {
					continue
				}
				big := c&2 != 0
				step := func(what string) bool {
					out, msg, class := c05EncodeAndValidate(f, exp, big, c&1 == 0)
					w.Eval(1)
					w.Fam("re-encode-after-modification", 1)
					w.Distinct(vx.HashB(out))
					if msg != "" {
						w.Violation("reencode/"+class, fmt.Sprintf("%s file with every member populated (variant %d), big=%v hdrcrc=%v, %s: %s", t.Name, variant, big, c&1 == 0, what, msg), map[string]interface{}{"file_type": t.Type, "variant": variant, "step": what, "encoded_hex": vx.Hex(out)})
						return false
					}
					return true
				}
				if !step("first Encode") {
					continue
				}
				// grow: duplicate the last message of the first non-empty slice member; set a file_id field
				cv := container(f)
				grown := -1
				var before reflect.Value
				for _, sl := range hosts()[byte(t.Type)] {
					fv := cv.Elem().Field(sl.Index)
					if sl.IsSlice && fv.Len() > 0 {
						before = reflect.ValueOf(fv.Interface())
						last := fv.Index(fv.Len() - 1)
						cp := reflect.New(last.Elem().Type())
						cp.Elem().Set(last.Elem())
						fv.Set(reflect.Append(fv, cp))
						exp[sl.Mesg] = append(exp[sl.Mesg], cp.Elem())
						grown = sl.Index
						break
					}
				}
				f.FileId.Product = 4321
				if !step("second Encode after growing the File") {
					continue
				}
				if grown >= 0 {
					fv := cv.Elem().Field(grown)
					m := uint16(fit.VerifGlobalMesgNum(fv.Type().Elem().Elem()))
					fv.Set(before)
					exp[m] = exp[m][:len(exp[m])-1]
				}
				step("third Encode after shrinking it back")
			}
		}
	}
	// long message slices with a field in one message only
	for _, g := range longSliceSpecs(thorough) {
		k++
		if !w.Mine(k) {
			continue
		}
		out, msg, class := c05Check(g)
		if class == "skip" {
			continue
		}
		w.Eval(1)
		w.Fam("long-message-slices", 1)
		w.Distinct(vx.HashB(out))
		if msg != "" {
			w.Violation("long-slice/"+class, fmt.Sprintf("%s file, %s (%v), %s, big=%v: %s", fileTypeByByte(g.Slot.FT).Name, g.Slot.Slot.Name, fit.MesgNum(g.Slot.Mesg), g.Desc, g.Big, msg), c05Replay{g.json(), ""})
		}
	}
	c05WriterKindsFamily(w, &k)
	c05SharedBuffers(w, &k)
	// strings that are not valid UTF-8: Encode may refuse them, but whatever it writes without an error must still be a
	// well-formed stream whose definitions match its records
	for _, gs := range genSlots() {
		for _, e := range prof().byMesg[gs.Mesg] {
			if e.Base != fitmodel.String || e.Array {
				continue
			}
			for _, vi := range []int{10, 11, 12, 13, 30, 31, 32, 33, 34} {
				for c := 0; c < 4; c++ {
					k++
					if !w.Mine(k) {
						continue
					}
					g := genSpec{Slot: gs, Msgs: [][]genFieldSet{{{e.Slot, vi}}, {{e.Slot, 0}}}, HdrCRC: c&1 == 0, Big: c&2 != 0, Desc: fmt.Sprintf("field %d holding invalid UTF-8 #%d", e.Num, vi)}
					if vi >= 30 {
						g.Desc = fmt.Sprintf("field %d holding an over-long string cut inside a wide rune #%d", e.Num, vi)
					}
					f, msgsPut, err := g.build()
					if err != nil {
						continue
					}
					out, eerr, pn := safeEncode(f, g.Big)
					w.Eval(1)
					w.Fam("invalid-utf8-strings", 1)
					msg := ""
					switch {
					case pn != "":
						msg = "Encode panics: " + pn
					case eerr != nil:
						// refused: fine
					default:
						if p, perr := fitmodel.Parse(out); perr != nil {
							msg = "Encode reports success but the output violates the FIT grammar: " + perr.Error()
						} else if len(p.Oddities) > 0 {
							msg = "Encode reports success but the output is not canonical: " + p.Oddities[0]
						} else if vi >= 30 && len(msgsPut) > 0 {
							// what was written must be a terminated, valid UTF-8 prefix of the value
							put := msgsPut[0].Field(e.Sindex).String()
							for _, r := range p.Recs {
								if r.Def.Global != gs.Mesg {
									continue
								}
								wire, ok := r.Fields[e.Num]
								if !ok {
									msg = "the over-long string is not written at all"
									break
								}
								end := bytes.IndexByte(wire, 0)
								if end < 0 {
									msg = fmt.Sprintf("the field is not NUL-terminated: % x", wire)
								} else if !utf8.Valid(wire[:end]) || !strings.HasPrefix(put, string(wire[:end])) {
									msg = fmt.Sprintf("the field holds % x, which is not a valid UTF-8 prefix of the value", wire[:end])
								}
								break
							}
						}
					}
					if msg != "" {
						w.Violation("invalid-utf8/grammar", fmt.Sprintf("%s file, %s%s (%v), %s, big=%v hdrcrc=%v: %s", fileTypeByByte(gs.FT).Name, gs.Common, gs.Slot.Name, fit.MesgNum(gs.Mesg), g.Desc, g.Big, g.HdrCRC, msg), c05Replay{g.json(), vx.Hex(out)})
					}
				}
			}
		}
	}
	if w.Shard == 0 {
		g := genSpecs(genSlots()[5], false)[3]
		out, _, _ := c05Check(g)
		w.Sample(map[string]interface{}{"spec": g.json(), "encoded_hex": vx.Hex(out)})
	}
}

// ---- writer kinds: the bytes handed to whatever io.Writer the caller passes — a plain writer that copies each
// chunk, *bytes.Buffer, *bufio.Writer (tiny and large buffer), *os.File, io.Pipe, io.MultiWriter, a writer with
// extra optional interfaces (io.StringWriter, io.ReaderFrom, io.ByteWriter) — must be the same well-formed stream
// (the *bytes.Buffer output is the one validated by the grammar parser above).

type plainWriter struct {
	chunks [][]byte
}

// c05SharedBuffers: array fields of consecutive messages that are sub-slices of one backing array with spare capacity
// (how a caller fills them from one sample buffer): the wire must carry each message's own elements.
func c05SharedBuffers(w *vx.W, k *int64) {
	pr := prof()
	for _, t := range fileTypes {
		for _, sl := range hosts()[byte(t.Type)] {
			if !sl.IsSlice {
				continue
			}
			for _, e := range pr.byMesg[sl.Mesg] {
				if !e.Array || e.Base == fitmodel.String || e.Length < 1 {
					continue
				}
				L := int(e.Length)
				for _, n := range [][2]int{{1, 2}, {L - 1, L}, {L, L}, {2, 1}} {
					for c := 0; c < 2; c++ {
						*k++
						if !w.Mine(*k) {
							continue
						}
						n0, n1 := n[0], n[1]
						if n0 < 1 || n0 > L || n1 > L {
							continue
						}
						f, err := fit.NewFile(t.Type, fit.NewHeader(fit.V20, true))
						if err != nil {
							continue
						}
						fid := fit.VerifNewMesg(0)
						fid.FieldByName("Type").SetUint(uint64(t.Type))
						f.FileId = fid.Interface().(fit.FileIdMsg)
						cont := container(f)
						fv := cont.Elem().Field(sl.Index)
						var buf reflect.Value
						exp := map[uint16][]reflect.Value{}
						lens := []int{n0, n1, 1}
						at := 0
						ok := true
						for i, ln := range lens {
							mv := fit.VerifNewMesg(fit.MesgNum(sl.Mesg))
							fld := mv.Field(e.Sindex)
							if fld.Kind() != reflect.Slice {
								ok = false
								break
							}
							if i == 0 {
								buf = reflect.MakeSlice(fld.Type(), 3*L+1, 4*L+8)
								for j := 0; j < buf.Len(); j++ {
									el := buf.Index(j)
									switch el.Kind() {
									case reflect.Uint8, reflect.Uint16, reflect.Uint32, reflect.Uint64:
										el.SetUint(uint64(j%100 + 1))
									case reflect.Int8, reflect.Int16, reflect.Int32, reflect.Int64:
										el.SetInt(int64(j%100 + 1))
									case reflect.Float32, reflect.Float64:
										el.SetFloat(float64(j%100 + 1))
									default:
										ok = false
									}
								}
							}
							if !ok {
								break
							}
							fld.Set(buf.Slice(at, at+ln))
							at += ln
							fv.Set(reflect.Append(fv, mv.Addr()))
							exp[sl.Mesg] = append(exp[sl.Mesg], mv)
						}
						if !ok {
							continue
						}
						out, msg, class := c05EncodeAndValidate(f, exp, c == 1, true)
						w.Eval(1)
						w.Fam("array-fields-sharing-one-buffer", 1)
						w.Distinct(vx.HashB(out))
						if msg != "" {
							w.Violation("shared-buffer/"+class, fmt.Sprintf("%s file, three %v messages whose field %d holds %d, %d and 1 consecutive elements of one backing array, big=%v: %s", t.Name, fit.MesgNum(sl.Mesg), e.Num, n0, n1, c == 1, msg), map[string]interface{}{"file_type": t.Type, "mesg": sl.Mesg, "field": e.Num, "lens": lens, "encoded_hex": vx.Hex(out)})
						}
					}
				}
			}
		}
	}
}

func (p *plainWriter) Write(b []byte) (int, error) {
	p.chunks = append(p.chunks, append([]byte{}, b...))
	return len(b), nil
}
func (p *plainWriter) bytes() []byte { return fitmodel.Concat(p.chunks...) }

// richWriter also offers the optional interfaces a fast path might look for.
type richWriter struct{ buf bytes.Buffer }

func (r *richWriter) Write(b []byte) (int, error)       { return r.buf.Write(b) }
func (r *richWriter) WriteString(s string) (int, error) { return r.buf.WriteString(s) }
func (r *richWriter) WriteByte(c byte) error            { return r.buf.WriteByte(c) }
func (r *richWriter) ReadFrom(src io.Reader) (int64, error) {
	return r.buf.ReadFrom(src)
}

var c05WriterKinds = []string{"plain", "bufio.Writer(16)", "bufio.Writer(65536)", "os.File", "io.Pipe", "io.MultiWriter", "optional-interfaces"}

func c05EncodeTo(kind string, f *fit.File, order binary.ByteOrder) ([]byte, error, string) {
	var out []byte
	var err error
	var pn string
	switch kind {
	case "plain":
		pw := &plainWriter{}
		pn, _ = guard(func() { err = fit.Encode(pw, f, order) })
		out = pw.bytes()
	case "bufio.Writer(16)", "bufio.Writer(65536)":
		var bb bytes.Buffer
		size := 16
		if kind != "bufio.Writer(16)" {
			size = 65536
		}
		bw := bufio.NewWriterSize(&bb, size)
		pn, _ = guard(func() { err = fit.Encode(bw, f, order) })
		bw.Flush()
		out = bb.Bytes()
	case "os.File":
		tf, terr := os.CreateTemp(os.Getenv("VX_SCRATCH"), "c05-*.fit")
		if terr != nil {
			return nil, terr, "skip"
		}
		defer os.Remove(tf.Name())
		pn, _ = guard(func() { err = fit.Encode(tf, f, order) })
		tf.Close()
		out, _ = os.ReadFile(tf.Name())
	case "io.Pipe":
		pr, pw := io.Pipe()
		done := make(chan []byte)
		go func() { b, _ := io.ReadAll(pr); done <- b }()
		pn, _ = guard(func() { err = fit.Encode(pw, f, order) })
		pw.Close()
		out = <-done
	case "io.MultiWriter":
		var a, b bytes.Buffer
		pn, _ = guard(func() { err = fit.Encode(io.MultiWriter(&a, &b), f, order) })
		out = a.Bytes()
		if !bytes.Equal(a.Bytes(), b.Bytes()) {
			return out, err, "the two sinks of an io.MultiWriter received different bytes"
		}
	case "optional-interfaces":
		rw := &richWriter{}
		pn, _ = guard(func() { err = fit.Encode(rw, f, order) })
		out = rw.buf.Bytes()
	}
	return out, err, pn
}

func c05WriterKindsFamily(w *vx.W, k *int64) {
	for _, t := range fileTypes {
		for variant := 0; variant < 4; variant++ {
			for c := 0; c < 4; c++ {
				for _, kind := range c05WriterKinds {
					*k++
					if !w.Mine(*k) {
						continue
					}
					var order binary.ByteOrder = binary.LittleEndian
					if c&2 != 0 {
						order = binary.BigEndian
					}
					f1, _ := multiFile(byte(t.Type), variant, c&1 == 0)
					f2, _ := multiFile(byte(t.Type), variant, c&1 == 0)
					if f1 == nil {
						continue
					}
					var ref bytes.Buffer
					var rerr error
					guard(func() { rerr = fit.Encode(&ref, f1, order) })
					out, err, pn := c05EncodeTo(kind, f2, order)
					if pn == "skip" {
						continue
					}
					w.Eval(1)
					w.Fam("writer-kinds", 1)
					desc := fmt.Sprintf("%s file with every member populated (variant %d), big=%v hdrcrc=%v, writer %s", t.Name, variant, c&2 != 0, c&1 == 0, kind)
					rep := map[string]interface{}{"file_type": t.Type, "variant": variant, "writer": kind, "encoded_hex": vx.Hex(out)}
					switch {
					case pn != "":
						w.Violation("writer-kind/"+kind, desc+": "+pn, rep)
					case (err == nil) != (rerr == nil):
						w.Violation("writer-kind/"+kind, fmt.Sprintf("%s: err=%v, through *bytes.Buffer err=%v", desc, err, rerr), rep)
					case !bytes.Equal(out, ref.Bytes()):
						w.Violation("writer-kind/"+kind, fmt.Sprintf("%s: %d bytes written, %d through *bytes.Buffer; first difference at %d", desc, len(out), ref.Len(), firstDiff(out, ref.Bytes())), rep)
					case f1.Header != f2.Header || f1.CRC != f2.CRC:
						w.Violation("writer-kind/"+kind, desc+": the File's header/CRC fields after Encode depend on the writer", rep)
					}
				}
			}
		}
	}
}

func firstDiff(a, b []byte) int {
	i := 0
	for i < len(a) && i < len(b) && a[i] == b[i] {
		i++
	}
	return i
}
