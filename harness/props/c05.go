package props

import (
	"bytes"
	"encoding/binary"
	"encoding/json"
	"fmt"
	"reflect"

	"github.com/tormoder/fit"

	"verif/fitmodel"
	"verif/vx"
)

// C05: Encode emits a well-formed, self-describing FIT stream.

type c05Replay struct {
	Spec genSpecJSON `json:"spec"`
	Hex  string      `json:"encoded_hex"`
}

type genSpecJSON struct {
	FT     byte            `json:"file_type"`
	Common string          `json:"common,omitempty"`
	Member string          `json:"member,omitempty"`
	Mesg   uint16          `json:"mesg"`
	Msgs   [][]genFieldSet `json:"msgs"`
	HdrCRC bool            `json:"header_crc"`
	Big    bool            `json:"big_endian"`
	Desc   string          `json:"desc"`
}

func (g genSpec) json() genSpecJSON {
	return genSpecJSON{g.Slot.FT, g.Slot.Common, g.Slot.Slot.Name, g.Slot.Mesg, g.Msgs, g.HdrCRC, g.Big, g.Desc}
}

func specFromJSON(j genSpecJSON) (genSpec, bool) {
	for _, gs := range genSlots() {
		if gs.FT == j.FT && gs.Common == j.Common && gs.Slot.Name == j.Member && gs.Mesg == j.Mesg {
			return genSpec{Slot: gs, Msgs: j.Msgs, HdrCRC: j.HdrCRC, Big: j.Big, Desc: j.Desc}, true
		}
	}
	return genSpec{}, false
}

func init() {
	vx.Register(&vx.Prop{
		ID:    "C05",
		Level: "exploration",
		Rule: "Files built through NewHeader/NewFile/constructors: 17 file types x every container member (plus file_id / file_creator / timestamp_correlation) x {no field, each single field x each boundary value, all fields (two value sets), two messages with disjoint halves (union definition), three-message mixes} x byte order x header with/without CRC; every fifth File is encoded right after two Encode calls that fail part-way. " +
			"Oracle: strict independent grammar parser (header size/type/data size, header and trailing CRC, every data record defined earlier, sizes multiples of base size, unique field numbers, exact end of data), every definition field listed in the profile with that base type and the profile's size, wire bytes = reference encoding of the Go values put in (arrays padded with invalid, strings NUL padded, times in seconds, local times as wall-clock seconds, semicircles), every set field present; File.Header.DataSize / Header.CRC / CRC equal to what was written. distinct = distinct encoded outputs",
		Run: runC05,
		Replay: func(raw json.RawMessage) (string, error) {
			var r c05Replay
			json.Unmarshal(raw, &r)
			g, ok := specFromJSON(r.Spec)
			if !ok {
				return "", fmt.Errorf("slot not found")
			}
			_, msg, _ := c05Check(g)
			if msg != "" {
				return "", fmt.Errorf("%s", msg)
			}
			return "ok", nil
		},
		Post: func(m *vx.Merged) error {
			if m.Fam["files-encoded"] < 1000 {
				return fmt.Errorf("only %d files encoded", m.Fam["files-encoded"])
			}
			return nil
		},
	})
}

// c05Check encodes the spec and validates the output. Returns output, violation message, class.
func c05Check(g genSpec) ([]byte, string, string) {
	f, msgs, err := g.build()
	if err != nil {
		return nil, "", "skip"
	}
	out, eerr, pn := safeEncode(f, g.Big)
	if pn != "" {
		return out, "Encode panics: " + pn, "encode-panic"
	}
	if eerr != nil {
		return out, "Encode fails on an in-domain File: " + eerr.Error(), "encode-error"
	}
	p, perr := fitmodel.Parse(out)
	if perr != nil {
		return out, "output violates the FIT grammar: " + perr.Error(), "grammar"
	}
	if len(p.Oddities) > 0 {
		return out, "output is not canonical: " + p.Oddities[0], "grammar"
	}
	wantHS := byte(12)
	if g.HdrCRC {
		wantHS = 14
	}
	if p.HeaderSize != wantHS {
		return out, fmt.Sprintf("header size %d, File header says %d", p.HeaderSize, wantHS), "header"
	}
	if g.HdrCRC && p.HeaderCRC != fitmodel.CRC(out[:12]) {
		return out, fmt.Sprintf("header CRC %#04x written, reference %#04x", p.HeaderCRC, fitmodel.CRC(out[:12])), "header"
	}
	if p.Proto != f.Header.ProtocolVersion || p.Profile != f.Header.ProfileVersion {
		return out, "protocol/profile version bytes differ from File.Header", "header"
	}
	// File fields after the call
	if f.Header.DataSize != p.DataSize {
		return out, fmt.Sprintf("File.Header.DataSize=%d after Encode, %d written", f.Header.DataSize, p.DataSize), "file-fields/DataSize"
	}
	if f.CRC != p.FileCRC {
		return out, fmt.Sprintf("File.CRC=%#04x after Encode, %#04x written", f.CRC, p.FileCRC), "file-fields/CRC"
	}
	if g.HdrCRC && f.Header.CRC != p.HeaderCRC {
		return out, fmt.Sprintf("File.Header.CRC=%#04x after Encode, %#04x written", f.Header.CRC, p.HeaderCRC), "file-fields/Header.CRC"
	}
	// definitions: profile conformance
	pr := prof()
	for _, d := range p.Defs {
		if d.Big != g.Big {
			return out, fmt.Sprintf("definition at %d uses the wrong architecture", d.Offset), "definition"
		}
		if d.DevFlag {
			return out, "definition with developer flag emitted", "definition"
		}
		for _, fd := range d.Fields {
			e, ok := pr.fields[d.Global][fd.Num]
			if !ok {
				return out, fmt.Sprintf("definition of message %d lists field %d which the profile does not have", d.Global, fd.Num), "definition"
			}
			if fd.Base != e.Base {
				return out, fmt.Sprintf("message %d field %d written with base type %#02x, profile %#02x", d.Global, fd.Num, fd.Base, e.Base), "definition"
			}
			if int(fd.Size) != wireSize(e) {
				return out, fmt.Sprintf("message %d field %d written with size %d, profile size x length = %d", d.Global, fd.Num, fd.Size, wireSize(e)), "definition"
			}
		}
	}
	// data records per message number, in order
	byMesg := map[uint16][]*fitmodel.ParsedRec{}
	for _, r := range p.Recs {
		byMesg[r.Def.Global] = append(byMesg[r.Def.Global], r)
		if r.Compressed {
			return out, "compressed timestamp header emitted", "record"
		}
	}
	// expected messages per type: file_id always, then the spec's messages
	exp := map[uint16][]reflect.Value{}
	exp[0] = []reflect.Value{reflect.ValueOf(f.FileId)}
	if g.Slot.Common != "FileId" {
		exp[g.Slot.Mesg] = append(exp[g.Slot.Mesg], msgs...)
	}
	total := 0
	for m, ms := range exp {
		total += len(ms)
		recs := byMesg[m]
		if len(recs) != len(ms) {
			return out, fmt.Sprintf("message %d: %d data records written, File holds %d", m, len(recs), len(ms)), "record-count"
		}
		for i, mv := range ms {
			r := recs[i]
			for _, e := range pr.byMesg[m] {
				fv := mv.Field(e.Sindex)
				wire, present := r.Fields[e.Num]
				isInv := invalidValueOK(fv, e)
				if !present {
					if !isInv {
						return out, fmt.Sprintf("message %d #%d: field %d is set in the File (%s) but absent from the definition", m, i, e.Num, fitmodel.Dump(fv)), "value-missing"
					}
					continue
				}
				var want []byte
				if isInv && fv.Kind() == reflect.Slice {
					want = wireOf(reflect.MakeSlice(fv.Type(), 0, 0), e, g.Big)
				} else {
					want = wireOf(fv, e, g.Big)
				}
				if !bytes.Equal(wire, want) {
					return out, fmt.Sprintf("message %d #%d field %d: wire bytes %x, reference encoding of %s is %x", m, i, e.Num, wire, fitmodel.Dump(fv), want), "value"
				}
			}
		}
	}
	if len(p.Recs) != total {
		return out, fmt.Sprintf("%d data records written, File holds %d messages", len(p.Recs), total), "record-count"
	}
	return out, "", ""
}

func runC05(w *vx.W) {
	thorough := !w.Quick()
	var k int64
	for _, gs := range genSlots() {
		for _, g := range genSpecs(gs, thorough) {
			k++
			if !w.Mine(k) {
				continue
			}
			if k%5 == 0 {
				// an Encode that fails part-way (last message not encodable / writer fault) right before:
				// nothing of it may leak into the next output
				safeEncode(failingFile(), k%2 == 0)
				var err error
				guard(func() { err = fit.Encode(&failWriter{failAt: 2}, apiFile(1), binary.LittleEndian) })
				_ = err
				w.Fam("after-a-failed-encode", 1)
			}
			out, msg, class := c05Check(g)
			if class == "skip" {
				w.Fam("skipped-no-value", 1)
				continue
			}
			w.Eval(1)
			w.Fam("files-encoded", 1)
			w.Distinct(vx.HashB(out))
			if msg != "" {
				w.Violation(class, fmt.Sprintf("%s file, %s%s (%v), %s, big=%v hdrcrc=%v: %s", fileTypeByByte(g.Slot.FT).Name, g.Slot.Common, g.Slot.Slot.Name, fit.MesgNum(g.Slot.Mesg), g.Desc, g.Big, g.HdrCRC, msg), c05Replay{g.json(), vx.Hex(out)})
			}
			if k == 5000 {
				w.Sample(map[string]interface{}{"spec": g.json(), "encoded_hex": vx.Hex(out)})
			}
		}
	}
	if w.Shard == 0 {
		g := genSpecs(genSlots()[5], false)[3]
		out, _, _ := c05Check(g)
		w.Sample(map[string]interface{}{"spec": g.json(), "encoded_hex": vx.Hex(out)})
	}
}
