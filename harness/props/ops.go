package props

import (
	"bytes"
	"encoding/binary"
	"fmt"
	"io"
	"strconv"
	"strings"
	"sync"
	"time"

	"github.com/tormoder/fit"
	"github.com/tormoder/fit/dyncrc16"

	"verif/fitmodel"
	"verif/vx"
)

// Operation pool shared by C08 (call histories) and C09 (schedules). Every op
// owns its reader / writer / File; the pool is chosen so that ops collide on
// every piece of package-level state the library has or might grow.

type opEnv struct {
	Reader func(b []byte) io.Reader // wraps an input (C09 injects scheduling points here)
	// RawReader is used by calls that read the stream without decoding records (no accumulator bookkeeping).
	RawReader func(b []byte) io.Reader
	Writer    func(w io.Writer) io.Writer
}

var plainEnv = opEnv{
	Reader:    func(b []byte) io.Reader { return bytes.NewReader(b) },
	RawReader: func(b []byte) io.Reader { return bytes.NewReader(b) },
	Writer:    func(w io.Writer) io.Writer { return w },
}

type opResult struct {
	Text  string   `json:"text"`  // canonical result with accumulated distances masked
	Dist  []uint32 `json:"dist"`  // the masked distances, in order
	Lossy []uint32 `json:"lossy"` // 12-bit values (as the code reads them) fed to the distance accumulator by this op
}

type poolOp struct {
	Name string
	Run  func(env opEnv) opResult
	// Long: thousands of scheduling points; kept out of the schedule exploration of C09 (its interleavings would be
	// capped anyway), present in C08's histories and in C09's race-detector pass.
	Long bool
	// Huge: takes part in call histories of length <= 2 only
	Huge bool
}

// csdRecord: record with compressed_speed_distance (and cycles / accumulated power) on local 1.
func csdActivity(seed byte, n int, h fitmodel.Header) ([]byte, []uint32) {
	recs := fitmodel.FileIdRecords(0, 4)
	d := fitmodel.Def{Local: 1, Global: 20, Fields: []fitmodel.FieldDef{{Num: 253, Size: 4, Base: fitmodel.Uint32}, {Num: 8, Size: 3, Base: fitmodel.Byte}, {Num: 18, Size: 1, Base: fitmodel.Uint8}, {Num: 28, Size: 2, Base: fitmodel.Uint16}}}
	recs = append(recs, d.Bytes())
	var lossy []uint32
	for i := 0; i < n; i++ {
		b1 := byte(0x10*(i+1)) + seed&0x0F
		b2 := seed + byte(i)
		p := fitmodel.Concat(fitmodel.PutUint(binary.LittleEndian, 4, uint64(1000000000+int(seed)*100+i)), []byte{0x21 + byte(i), b1, b2, byte(10 + i)}, fitmodel.PutUint(binary.LittleEndian, 2, uint64(300+i)))
		recs = append(recs, fitmodel.Data(1, p))
		lossy = append(lossy, uint32(b1>>4)|uint32(byte(b2<<4)))
	}
	return fitmodel.File(h, recs...), lossy
}

// monitoringCompressedFirst: compressed-timestamp records *before* any explicit timestamp, then an explicit one.
func monitoringCompressedFirst() []byte {
	ops := []c12Op{{Kind: "C", Off: 3}, {Kind: "L", V: c12T + 7200}, {Kind: "E", V: c12T + 40}, {Kind: "C", Off: 2}}
	s, _, _, _ := c12Stream(ops, false)
	return s
}

func maskDistances(files []*fit.File) []uint32 {
	var out []uint32
	for _, f := range files {
		if f == nil {
			continue
		}
		for _, r := range messagesOf(f, 20) {
			if srcPresent(r, "CompressedSpeedDistance") {
				out = append(out, uint32(r.FieldByName("Distance").Uint()))
				if r.CanSet() {
					r.FieldByName("Distance").SetUint(0)
				}
			}
		}
	}
	return out
}

func decodeOp(name string, stream []byte, lossy []uint32, opts func() []fit.DecodeOption) poolOp {
	return poolOp{Name: name, Run: func(env opEnv) opResult {
		var o []fit.DecodeOption
		if opts != nil {
			o = opts()
		}
		res := safeDecode(env.Reader(stream), o...)
		var files []*fit.File
		if res.File != nil {
			files = []*fit.File{res.File}
		}
		d := maskDistances(files)
		return opResult{Text: fmt.Sprintf("err=%v panic=%s file=%s", res.Err, res.Panic, dumpFile(res.File)), Dist: d, Lossy: lossy}
	}}
}

// apiFile builds a File through the public API; variant selects which record fields are set.
func apiFile(variant int) *fit.File {
	f, err := fit.NewFile(fit.FileTypeActivity, fit.NewHeader(fit.V20, true))
	if err != nil {
		panic(err)
	}
	fid := fit.VerifNewMesg(0)
	fid.FieldByName("Type").SetUint(uint64(fit.FileTypeActivity))
	fid.FieldByName("Manufacturer").SetUint(1)
	f.FileId = fid.Interface().(fit.FileIdMsg)
	a, _ := f.Activity()
	for i := 0; i < 3; i++ {
		r := fit.NewRecordMsg()
		switch variant {
		case 0:
			// different subsets per message: union definition with >= 4 fields
			r.HeartRate = uint8(60 + i)
			if i != 1 {
				r.Cadence = uint8(80 + i)
			}
			if i != 0 {
				r.Power = uint16(200 + i)
			}
			if i == 2 {
				r.Temperature = int8(20)
				r.Grade = int16(-3)
			}
		default:
			r.Altitude = uint16(2500 + i)
			r.Resistance = uint8(i + 1)
			if i == 1 {
				r.Calories = uint16(9)
			}
		}
		a.Records = append(a.Records, r)
	}
	l := fit.NewLapMsg()
	l.TotalCalories = uint16(100 + variant)
	a.Laps = append(a.Laps, l)
	return f
}

// failingFile: an API-built File whose *last* message cannot be encoded (string that is not UTF-8), so Encode
// fails after it has already buffered records.
func failingFile() *fit.File {
	f := apiFile(0)
	a, _ := f.Activity()
	sp := fit.NewSportMsg()
	sp.Name = "bad\xff\xfe"
	a.Sport = sp
	return f
}

type failWriter struct{ n, failAt int }

func (w *failWriter) Write(p []byte) (int, error) {
	w.n++
	if w.n >= w.failAt {
		return 0, fmt.Errorf("injected write fault")
	}
	return len(p), nil
}

// tablesDigest: the profile tables as seen through the read-only exports (they must never change at run time).
func tablesDigest() string {
	h := uint64(1469598103934665603)
	mix := func(v uint64) { h = (h ^ v) * 1099511628211 }
	for _, f := range fit.VerifFields() {
		mix(uint64(f.Mesg)<<32 | uint64(f.Slot)<<16 | uint64(f.Num))
		mix(uint64(f.Sindex)<<32 | uint64(f.Raw)<<8 | uint64(f.Length))
	}
	return strconv.FormatUint(h, 16)
}

func encodeOp(name string, build func() *fit.File, big bool) poolOp {
	return poolOp{Name: name, Run: func(env opEnv) opResult {
		f := build()
		var buf bytes.Buffer
		var order binary.ByteOrder = binary.LittleEndian
		if big {
			order = binary.BigEndian
		}
		var err error
		pn, _ := guard(func() { err = fit.Encode(env.Writer(&buf), f, order) })
		text := fmt.Sprintf("err=%v panic=%s bytes=%s hdr=%s crc=%d", err, pn, vx.Hex(buf.Bytes()), fitmodel.DumpI(f.Header), f.CRC)
		// decoded content of what Encode wrote (the property speaks about it)
		if err == nil && pn == "" {
			res := safeDecode(bytes.NewReader(buf.Bytes()))
			text += fmt.Sprintf(" redecode: err=%v %s", res.Err, dumpFileContent(res.File))
		}
		return opResult{Text: text}
	}}
}

var (
	poolActA, poolLossyA = csdActivity(3, 3, fitmodel.DefaultHeader)
	poolActB, poolLossyB = csdActivity(9, 2, hdr12())
)

// sharedDecodeOptions: built once per process, handed to several Decode calls.
var sharedDecodeOptions = []fit.DecodeOption{fit.WithUnknownFields(), fit.WithUnknownMessages()}

var (
	opPoolOnce sync.Once
	opPoolV    []poolOp
)

// opPool returns the (immutable) call pool; it is built once per process.
func opPool() []poolOp {
	opPoolOnce.Do(func() { opPoolV = buildOpPool() })
	return opPoolV
}

func buildOpPool() []poolOp {
	allOpts := func() []fit.DecodeOption {
		return []fit.DecodeOption{fit.WithLogger(&nullLogger{}), fit.WithUnknownFields(), fit.WithUnknownMessages()}
	}
	corrupt := append([]byte{}, poolActA...)
	corrupt[len(corrupt)-9] ^= 0x40
	chainBA := fitmodel.Concat(poolActB, poolActA)
	pool := []poolOp{
		decodeOp("Decode(actA)", poolActA, poolLossyA, nil),
		decodeOp("Decode(actB)", poolActB, poolLossyB, nil),
		decodeOp("Decode(settings)", sSet.B, nil, nil),
		decodeOp("Decode(corrupt actA)", corrupt, poolLossyA, nil),
		decodeOp("Decode(actA, all options)", poolActA, poolLossyA, allOpts),
		{Name: "DecodeChained(actB+actA)", Run: func(env opEnv) opResult {
			res := safeDecodeChained(env.Reader(chainBA))
			d := maskDistances(res.Files)
			var sb strings.Builder
			for _, f := range res.Files {
				sb.WriteString(dumpFile(f) + ";")
			}
			return opResult{Text: fmt.Sprintf("err=%v panic=%s files=%d %s", res.Err, res.Panic, len(res.Files), sb.String()), Dist: d, Lossy: append(append([]uint32{}, poolLossyB...), poolLossyA...)}
		}},
		{Name: "CheckIntegrity(actA)", Run: func(env opEnv) opResult {
			res := safeCheckIntegrity(env.RawReader(poolActA), false)
			return opResult{Text: fmt.Sprintf("err=%v panic=%s", res.Err, res.Panic)}
		}},
		encodeOp("Encode(api file 0, LE)", func() *fit.File { return apiFile(0) }, false),
		encodeOp("Encode(api file 0, BE)", func() *fit.File { return apiFile(0) }, true),
		encodeOp("Encode(api file 1, LE)", func() *fit.File { return apiFile(1) }, false),
		encodeOp("Encode(Decode(settings))", func() *fit.File {
			f, _ := fit.Decode(bytes.NewReader(sSet.B))
			return f
		}, false),
		{Name: "DecodeHeaderAndFileID(settings)", Run: func(env opEnv) opResult {
			res := safeDecodeHeaderAndFileID(env.RawReader(sSet.B))
			return opResult{Text: fmt.Sprintf("err=%v panic=%s %s %s", res.Err, res.Panic, fitmodel.DumpI(res.Header), fitmodel.DumpI(res.FileId))}
		}},
		decodeOp("Decode(monitoring, compressed timestamps first)", monitoringCompressedFirst(), nil, nil),
		encodeOp("Encode(file whose last message cannot be encoded) -> error", failingFile, false),
		{Name: "Encode(api file 0) to a writer that fails on the 2nd write -> error", Run: func(env opEnv) opResult {
			f := apiFile(0)
			var err error
			pn, _ := guard(func() { err = fit.Encode(env.Writer(&failWriter{failAt: 2}), f, binary.LittleEndian) })
			return opResult{Text: fmt.Sprintf("err=%v panic=%s", err, pn)}
		}},
		{Name: "Encode(long arrays in a message slice)", Run: func(env opEnv) opResult {
			f, _ := fit.NewFile(fit.FileTypeActivity, fit.NewHeader(fit.V20, true))
			a, _ := f.Activity()
			for i := 0; i < 2; i++ {
				h := fit.NewHrvMsg()
				for j := 0; j < 200-150*i; j++ {
					h.Time = append(h.Time, uint16(j+1))
				}
				a.Hrvs = append(a.Hrvs, h)
				l := fit.NewLapMsg()
				for j := 0; j < 40+i; j++ {
					l.TimeInHrZone = append(l.TimeInHrZone, uint32(j+1))
				}
				a.Laps = append(a.Laps, l)
			}
			var buf bytes.Buffer
			var err error
			pn, _ := guard(func() { err = fit.Encode(env.Writer(&buf), f, binary.BigEndian) })
			return opResult{Text: fmt.Sprintf("err=%v panic=%s bytes=%s", err, pn, vx.Hex(buf.Bytes()))}
		}},
	}
	richA, _ := richStream(byte(fit.FileTypeActivity), 1, 1)
	richB, _ := richStream(byte(fit.FileTypeActivity), 40, 2)
	lo, hi := c16TiePair()
	tie := fitmodel.File(fitmodel.DefaultHeader, append(fitmodel.FileIdRecords(0, 4),
		fitmodel.Def{Local: 1, Global: hi, Fields: []fitmodel.FieldDef{{Num: 200, Size: 1, Base: fitmodel.Uint8}, {Num: 201, Size: 1, Base: fitmodel.Uint8}}}.Bytes(), fitmodel.Data(1, []byte{1, 2}),
		fitmodel.Def{Local: 2, Global: lo, Fields: []fitmodel.FieldDef{{Num: 200, Size: 1, Base: fitmodel.Uint8}, {Num: 201, Size: 1, Base: fitmodel.Uint8}}}.Bytes(), fitmodel.Data(2, []byte{3, 4}),
		fitmodel.Def{Local: 3, Global: 0x0114, Fields: []fitmodel.FieldDef{{Num: 1, Size: 1, Base: fitmodel.Uint8}}}.Bytes(), fitmodel.Data(3, []byte{5}),
		fitmodel.Def{Local: 4, Global: 0x0214, Fields: []fitmodel.FieldDef{{Num: 1, Size: 1, Base: fitmodel.Uint8}}}.Bytes(), fitmodel.Data(4, []byte{6}))...)
	pool = append(pool,
		decodeOp("Decode(activity, every held message type fully populated, value set A)", richA, nil, nil),
		decodeOp("Decode(activity, every held message type fully populated, value set B)", richB, nil, nil),
		decodeOp("Decode(unknown fields/messages whose numbers are equal modulo 256, all options)", tie, nil, allOpts),
	)
	// near twins: inputs that differ only in a detail that a cache with a lossy key would conflate (local-time zone
	// offsets within the same minute, the same File encoded with a different zone)
	localMon := func(off uint32) []byte {
		d := fitmodel.Def{Local: 1, Global: 55, Fields: []fitmodel.FieldDef{{Num: 253, Size: 4, Base: fitmodel.Uint32}, {Num: 11, Size: 4, Base: fitmodel.Uint32}, {Num: 1, Size: 2, Base: fitmodel.Uint16}}}
		u32 := func(v uint32) []byte { return fitmodel.PutUint(binary.LittleEndian, 4, uint64(v)) }
		return fitmodel.File(fitmodel.DefaultHeader, append(fitmodel.FileIdRecords(0, 32), d.Bytes(),
			fitmodel.Data(1, append(append(u32(1000000000), u32(1000000000+off)...), 7, 0)),
			fitmodel.Data(1, append(append(u32(1000000060), u32(1000000060+off)...), 8, 0)))...)
	}
	localEnc := func(off int) func() *fit.File {
		return func() *fit.File {
			f, _ := fit.NewFile(fit.FileTypeActivity, fit.NewHeader(fit.V20, true))
			a, _ := f.Activity()
			m := fit.NewActivityMsg()
			m.Timestamp = time.Unix(fitmodel.FitEpoch+1000000000, 0).UTC()
			m.LocalTimestamp = m.Timestamp.In(time.FixedZone("FITLOCAL", off))
			a.Activity = m
			return f
		}
	}
	pool = append(pool,
		decodeOp("Decode(monitoring, local time 12307 s ahead of UTC)", localMon(12307), nil, nil),
		decodeOp("Decode(monitoring, local time 12300 s ahead of UTC)", localMon(12300), nil, nil),
		encodeOp("Encode(activity, local time 12307 s ahead)", localEnc(12307), false),
		encodeOp("Encode(activity, local time 12300 s ahead)", localEnc(12300), true),
	)
	// option values that outlive a call: the same []DecodeOption used by every execution of this pool call in a process
	// (options are values; applying them twice must not share counters or other state between decoders)
	pool = append(pool, decodeOp("Decode(unknown items, one option value reused by every such call)", tie, nil, func() []fit.DecodeOption { return sharedDecodeOptions }))
	// calls that stop inside the header (the error paths of the header reader), on two different inputs
	pool = append(pool,
		decodeOp("Decode(actA cut 9 bytes into the header) -> error", poolActA[:9], nil, nil),
		poolOp{Name: "DecodeChained(settings, then a second header that breaks off after 13 bytes) -> error", Run: func(env opEnv) opResult {
			res := safeDecodeChained(env.Reader(fitmodel.Concat(sSet.B, poolActA[:13])))
			var sb strings.Builder
			for _, f := range res.Files {
				sb.WriteString(dumpFile(f) + ";")
			}
			return opResult{Text: fmt.Sprintf("err=%v panic=%s files=%d %s", res.Err, res.Panic, len(res.Files), sb.String())}
		}},
	)
	// strings longer than the profile length in two Files of the same message kinds (the encoder must size them per
	// call, not by adjusting shared tables)
	longStrings := func(n int) func() *fit.File {
		return func() *fit.File {
			f, _ := fit.NewFile(fit.FileTypeActivity, fit.NewHeader(fit.V20, true))
			a, _ := f.Activity()
			s := fit.NewSessionMsg()
			s.OpponentName = strings.Repeat("opponent ", n)
			s.SportProfileName = strings.Repeat("profile-", n+1)
			a.Sessions = append(a.Sessions, s)
			sp := fit.NewSportMsg()
			sp.Name = strings.Repeat("n", 7*n)
			a.Sport = sp
			return f
		}
	}
	pool = append(pool,
		encodeOp("Encode(strings longer than their profile length, 2 repeats)", longStrings(2), false),
		encodeOp("Encode(strings longer than their profile length, 5 repeats)", longStrings(5), true),
	)
	// a large activity file (more than 1024 records) and one without any record: capacity hints or high-water marks
	// kept between calls show as nil-versus-empty slices or as differently sized allocations
	pool = append(pool,
		func() poolOp {
			o := decodeOp("Decode(activity with 1100 records)", activityFile(hdr14(), 1100, false, 11), nil, nil)
			o.Long = true
			return o
		}(),
		decodeOp("Decode(activity without any record)", minimalFile(hdr14(), 4), nil, nil),
	)
	// many distinct strings of one length in two files: any cache of decoded strings keyed by a short hash (16 bits
	// and 1500 x 1500 cross pairs give some 34 expected collisions) hands file B strings of file A
	manyNames := func(prefix byte) []byte {
		d := fitmodel.Def{Local: 1, Global: 32, Fields: []fitmodel.FieldDef{{Num: 6, Size: 10, Base: fitmodel.String}, {Num: 254, Size: 2, Base: fitmodel.Uint16}}}
		recs := append(fitmodel.FileIdRecords(0, 6), d.Bytes())
		for i := 0; i < 1500; i++ {
			name := []byte(fmt.Sprintf("%c%08d", prefix, i*7919%100000000))
			recs = append(recs, fitmodel.Data(1, fitmodel.Concat(append(name, 0), fitmodel.PutUint(binary.LittleEndian, 2, uint64(i)))))
		}
		return fitmodel.File(fitmodel.DefaultHeader, recs...)
	}
	for _, pf := range []byte{'P', 'Q'} {
		o := decodeOp(fmt.Sprintf("Decode(course with 1500 course points named %c00000000 ...)", pf), manyNames(pf), nil, nil)
		o.Long = true
		pool = append(pool, o)
	}
	// a long message slice through Encode (work split by size or processor count happens only here)
	{
		o := encodeOp("Encode(activity with 1100 records)", func() *fit.File {
			f, _ := fit.NewFile(fit.FileTypeActivity, fit.NewHeader(fit.V20, true))
			a, _ := f.Activity()
			for i := 0; i < 1100; i++ {
				r := fit.NewRecordMsg()
				r.Timestamp = time.Unix(fitmodel.FitEpoch+1000000000+int64(i), 0).UTC()
				r.PositionLat = fit.NewLatitude(int32(1000 + i))
				a.Records = append(a.Records, r)
			}
			a.Records[1099].HeartRate = 99
			return f
		}, false)
		o.Long = true
		pool = append(pool, o)
	}
	// the checksum package on its own (lazily built tables and shared scratch state would live there)
	pool = append(pool,
		poolOp{Name: "dyncrc16.Checksum(4096 bytes)", Run: func(env opEnv) opResult {
			return opResult{Text: fmt.Sprintf("sum=%04x", dyncrc16.Checksum(c14Pattern(4096)))}
		}},
		poolOp{Name: "dyncrc16.New, Write of 700 bytes in 1- and 299-byte pieces, Sum16", Run: func(env opEnv) opResult {
			h := dyncrc16.New()
			b := c14Pattern(700)
			h.Write(b[:1])
			h.Write(b[1:300])
			h.Write(b[300:301])
			h.Write(b[301:])
			return opResult{Text: fmt.Sprintf("sum=%04x size=%d", h.Sum16(), h.Size())}
		}},
	)
	// a File exactly as NewFile returns it (its file_id holds Go zero values, a creation time of year 1 among them):
	// whatever Encode makes of it, it makes the same thing every time
	pool = append(pool, encodeOp("Encode(settings File as NewFile returns it)", func() *fit.File {
		f, _ := fit.NewFile(fit.FileTypeSettings, fit.NewHeader(fit.V20, true))
		return f
	}, false))
	// big-endian records whose time and coordinate fields are narrower than the profile type (the widening path)
	{
		d := fitmodel.Def{Local: 1, Big: true, Global: 20, Fields: []fitmodel.FieldDef{{Num: 253, Size: 2, Base: fitmodel.Uint16}, {Num: 0, Size: 2, Base: fitmodel.Sint16}, {Num: 1, Size: 1, Base: fitmodel.Sint8}, {Num: 3, Size: 1, Base: fitmodel.Uint8}}}
		recs := append(fitmodel.FileIdRecords(0, 4), d.Bytes())
		for i := 0; i < 6; i++ {
			recs = append(recs, fitmodel.Data(1, []byte{byte(0x20 + i), byte(i * 41), byte(0x7F + i*0x21), byte(0x80 - i*0x19), byte(0xF0 + i*5), byte(60 + i)}))
		}
		pool = append(pool, decodeOp("Decode(big-endian records with 2-byte timestamps and narrow coordinates)", fitmodel.File(fitmodel.DefaultHeader, recs...), nil, nil))
	}
	// many distinct definitions in one input (a process-wide cache of parsed definitions would fill up and evict), and
	// an activity well above 256 KiB (size-triggered paths)
	{
		recs := fitmodel.FileIdRecords(0, 4)
		for i := 0; i < 1500; i++ {
			d := fitmodel.Def{Local: byte(1 + i%3), Global: 20, Fields: []fitmodel.FieldDef{{Num: 3, Size: 1, Base: fitmodel.Uint8}, {Num: byte(200 + i%50), Size: byte(1 + i/50), Base: fitmodel.Byte}}}
			pl := make([]byte, 1+1+i/50)
			pl[0] = byte(60 + i%90)
			recs = append(recs, d.Bytes(), fitmodel.Data(byte(1+i%3), pl))
		}
		// ... and the first 200 of them once more (a definition seen long ago comes back)
		for i := 0; i < 200; i++ {
			d := fitmodel.Def{Local: byte(1 + i%3), Global: 20, Fields: []fitmodel.FieldDef{{Num: 3, Size: 1, Base: fitmodel.Uint8}, {Num: byte(200 + i%50), Size: byte(1 + i/50), Base: fitmodel.Byte}}}
			pl := make([]byte, 1+1+i/50)
			pl[0] = byte(100 + i%90)
			recs = append(recs, d.Bytes(), fitmodel.Data(byte(1+i%3), pl))
		}
		od := decodeOp("Decode(1500 distinct definitions in one activity)", fitmodel.File(fitmodel.DefaultHeader, recs...), nil, nil)
		od.Long = true
		pool = append(pool, od)
		big := append(fitmodel.FileIdRecords(0, 4), recordDef(1, false).Bytes())
		for i := 0; i < 30000; i++ {
			big = append(big, recordData(1, false, uint32(1000000000+i), byte(60+i%100), uint32(i*3)))
		}
		o := decodeOp("Decode(activity with 30000 records, 293 KiB)", fitmodel.File(fitmodel.DefaultHeader, big...), nil, nil)
		o.Long = true
		o.Huge = true
		// the dump of 30000 records is tens of megabytes: the histories compare its digest, length and record count
		run := o.Run
		o.Run = func(env opEnv) opResult {
			r := run(env)
			r.Text = fmt.Sprintf("%s... digest=%016x len=%d records=%d", trunc(r.Text, 300), vx.Hash(r.Text), len(r.Text), strings.Count(r.Text, "&RecordMsg{"))
			return r
		}
		pool = append(pool, o)
	}
	// every call also reports the digest of the profile tables afterwards
	for i := range pool {
		run := pool[i].Run
		pool[i].Run = func(env opEnv) opResult {
			r := run(env)
			if len(r.Text) > 200000 {
				// large dumps travel between processes as head + digest + length
				r.Text = fmt.Sprintf("%s... digest=%016x len=%d", trunc(r.Text, 2000), vx.Hash(r.Text), len(r.Text))
			}
			r.Text += " tables=" + tablesDigest()
			return r
		}
	}
	return pool
}
