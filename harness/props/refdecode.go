package props

import (
	"fmt"
	"reflect"
	"time"

	"github.com/tormoder/fit"

	"verif/fitmodel"
)

// refDecode is the complete reference decoder: it combines the independent grammar parser, the value model, the
// timestamp machine, the definition slots (inside the parser) and the reflection-derived router into one
// prediction of what Decode must return for a (single, well-formed) stream. Fields for which the properties make
// no promise (definitions outside the compat set, narrow-type sentinels, +90 degrees, component destinations,
// timestamps of compressed records without a reference) are marked "no demand".

type refMsg struct {
	mesg     uint16
	want     reflect.Value
	noDemand map[string]bool
}

type refFile struct {
	ft          byte
	fileId      *refMsg
	creator     *refMsg
	tc          *refMsg
	slots       map[int][]*refMsg // container member index -> messages
	mayReject   bool              // some definition is outside the compat set: a decode error is acceptable
	expectError bool              // the stream must be rejected (file type change)
	records     int
}

func refDecode(stream []byte) (*refFile, error) {
	p, _, err := fitmodel.ParseOne(stream)
	if err != nil {
		return nil, err
	}
	if len(p.Recs) == 0 || p.Recs[0].Def.Global != 0 {
		return nil, fmt.Errorf("first data record is not file_id: %w", errOutsideModel)
	}
	pr := prof()
	rf := &refFile{slots: map[int][]*refMsg{}}
	has, ref := false, uint32(0)
	for ri, r := range p.Recs {
		g := r.Def.Global
		big := r.Def.Big
		if !pr.isKnown[g] {
			if r.Compressed && has {
				ref = advance(ref, r.TimeOffset)
			}
			continue
		}
		m := &refMsg{mesg: g, want: fit.VerifNewMesg(fit.MesgNum(g)), noDemand: map[string]bool{}}
		mt := m.want.Type()
		if r.Compressed {
			if has {
				ref = advance(ref, r.TimeOffset)
			}
			if e, ok := pr.fields[g][253]; ok && e.Kind == kindUTC {
				if has {
					m.want.Field(e.Sindex).Set(reflect.ValueOf(fitTime(ref)))
				} else {
					m.noDemand[mt.Field(e.Sindex).Name] = true
				}
			}
		}
		off := 0
		for _, fd := range r.Def.Fields {
			b := r.Payload[off : off+int(fd.Size)]
			off += int(fd.Size)
			e, ok := pr.fields[g][fd.Num]
			if !ok {
				continue
			}
			name := mt.Field(e.Sindex).Name
			if !compat(e, fd) {
				m.noDemand[name] = true
				rf.mayReject = true
				continue
			}
			delete(m.noDemand, name)
			switch e.Kind {
			case kindUTC:
				bs := fitmodel.BaseSize(fd.Base)
				raw := uint32(fitmodel.GetUint(big, b[:bs]))
				if bs < 4 && uint64(raw) == fitmodel.BaseInvalidBits(fd.Base) {
					m.noDemand[name] = true
					if e.Num == 253 {
						// whether a narrow sentinel re-bases the reference is not something the property says
						return nil, fmt.Errorf("narrow-type sentinel in a timestamp field: %w", errOutsideModel)
					}
					continue
				}
				if bs == 4 && raw == 0xFFFFFFFF {
					m.want.Field(e.Sindex).Set(reflect.ValueOf(fitBase))
					continue
				}
				m.want.Field(e.Sindex).Set(reflect.ValueOf(fitTime(raw)))
				if e.Num == 253 {
					if raw == 0 {
						return nil, fmt.Errorf("reference value 0: %w", errOutsideModel)
					}
					has, ref = true, raw
				}
			case kindLocal:
				bs := fitmodel.BaseSize(fd.Base)
				raw := uint32(fitmodel.GetUint(big, b[:bs]))
				if bs < 4 && uint64(raw) == fitmodel.BaseInvalidBits(fd.Base) {
					m.noDemand[name] = true
					continue
				}
				if bs == 4 && raw == 0xFFFFFFFF {
					m.want.Field(e.Sindex).Set(reflect.ValueOf(fitBase))
					continue
				}
				if has && ref < 0x10000000 {
					m.noDemand[name] = true // system-time reference: the property is silent
					continue
				}
				m.want.Field(e.Sindex).Set(reflect.ValueOf(localTime(has, ref, raw)))
			default:
				if !modelSet(m.want, e, fd, big, b) {
					m.noDemand[name] = true
				}
			}
		}
		rf.records++
		switch g {
		case 0:
			t := byte(m.want.FieldByName("Type").Uint())
			if ri == 0 {
				rf.ft = t
			} else if t != rf.ft {
				rf.expectError = true
				return rf, nil
			}
			rf.fileId = m
		case uint16(fit.MesgNumFileCreator):
			rf.creator = m
		case uint16(fit.MesgNumTimestampCorrelation):
			rf.tc = m
		default:
			for _, sl := range hosts()[rf.ft] {
				if sl.Mesg == g {
					if sl.IsSlice {
						rf.slots[sl.Index] = append(rf.slots[sl.Index], m)
					} else {
						rf.slots[sl.Index] = []*refMsg{m}
					}
				}
			}
		}
	}
	return rf, nil
}

// refCompare compares a decoded File with the reference prediction; "" when they agree.
func refCompare(f *fit.File, rf *refFile) string {
	if f == nil {
		return "no File"
	}
	cmp := func(what string, got reflect.Value, m *refMsg) string {
		ignore := map[string]bool{}
		for n := range m.noDemand {
			ignore[n] = true
		}
		for n := range compIgnore(got) {
			ignore[n] = true
		}
		if d := diffMsg(got, m.want, ignore); d != "" {
			return what + ": " + d
		}
		return ""
	}
	if rf.fileId != nil {
		if d := cmp("file_id", reflect.ValueOf(f.FileId), rf.fileId); d != "" {
			return d
		}
	}
	if (rf.creator != nil) != (f.FileCreator != nil) {
		return fmt.Sprintf("file_creator present=%v, reference says %v", f.FileCreator != nil, rf.creator != nil)
	}
	if rf.creator != nil {
		if d := cmp("file_creator", reflect.ValueOf(*f.FileCreator), rf.creator); d != "" {
			return d
		}
	}
	if (rf.tc != nil) != (f.TimestampCorrelation != nil) {
		return fmt.Sprintf("timestamp_correlation present=%v, reference says %v", f.TimestampCorrelation != nil, rf.tc != nil)
	}
	if rf.tc != nil {
		if d := cmp("timestamp_correlation", reflect.ValueOf(*f.TimestampCorrelation), rf.tc); d != "" {
			return d
		}
	}
	c := container(f)
	if !c.IsValid() {
		return "no container for file type " + fmt.Sprint(rf.ft)
	}
	for _, sl := range hosts()[rf.ft] {
		fv := c.Elem().Field(sl.Index)
		var got []reflect.Value
		if sl.IsSlice {
			for i := 0; i < fv.Len(); i++ {
				got = append(got, fv.Index(i).Elem())
			}
		} else if !fv.IsNil() {
			got = append(got, fv.Elem())
		}
		want := rf.slots[sl.Index]
		if len(got) != len(want) {
			return fmt.Sprintf("member %s: %d messages decoded, reference decoder says %d", sl.Name, len(got), len(want))
		}
		for i := range got {
			if d := cmp(fmt.Sprintf("member %s[%d]", sl.Name, i), got[i], want[i]); d != "" {
				return d
			}
		}
	}
	return ""
}

var _ = time.Second
