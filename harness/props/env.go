package props

import (
	"errors"
	"fmt"
	"io"
)

// Env: the controlled io.Reader and its deviation-bounded explorer.
//
// At every Read(p) the explorer chooses the answer from a small canonical menu;
// choice 0 is the default answer, every other choice is one deviation. The
// search replays a prefix of choices and takes 0 afterwards (stateless DFS with
// iterative deviation bounding, like preemption bounding for threads).

var errInjected = errors.New("injected read fault")

type envAnswer struct {
	n   int
	err error
}

type envPoint struct {
	asked  int
	pos    int
	nopts  int
	chosen int
	n      int // answer given
	err    error
}

type envReader struct {
	data     []byte
	pos      int
	oneByte  bool // default answer: 1 byte (else as much as fits)
	faults   bool // menu includes a non-EOF error
	prefix   []int
	points   []envPoint
	zeroRun  int
	reads    int
	failed   bool // a fault was injected: the reader keeps failing (faults are sticky, as in the property)
	faultAt  int
	diverged bool
	menuBuf  []envAnswer
}

func (r *envReader) menu(asked int) []envAnswer {
	avail := len(r.data) - r.pos
	m := r.menuBuf[:0]
	add := func(a envAnswer) {
		for _, x := range m {
			if x.n == a.n && x.err == a.err {
				return
			}
		}
		m = append(m, a)
	}
	if avail == 0 {
		add(envAnswer{0, io.EOF})
		if r.zeroRun < 2 {
			add(envAnswer{0, nil})
		}
		if r.faults {
			add(envAnswer{0, errInjected})
		}
		r.menuBuf = m
		return m
	}
	full := asked
	if full > avail {
		full = avail
	}
	if r.oneByte {
		add(envAnswer{1, nil})
		add(envAnswer{full, nil})
	} else {
		add(envAnswer{full, nil})
		add(envAnswer{1, nil})
	}
	if h := full / 2; h >= 1 {
		add(envAnswer{h, nil})
	}
	if full-1 >= 1 {
		add(envAnswer{full - 1, nil})
	}
	if r.zeroRun < 2 {
		add(envAnswer{0, nil})
	}
	if avail <= asked {
		add(envAnswer{avail, io.EOF}) // last bytes together with EOF
	}
	if r.faults {
		add(envAnswer{0, errInjected})
		if full > 1 {
			add(envAnswer{full - 1, errInjected}) // some bytes delivered together with the error
		}
	}
	r.menuBuf = m
	return m
}

func (r *envReader) Read(p []byte) (int, error) {
	r.reads++
	if len(p) == 0 {
		return 0, nil
	}
	if r.failed {
		return 0, errInjected
	}
	m := r.menu(len(p))
	c := 0
	i := len(r.points)
	if i < len(r.prefix) {
		c = r.prefix[i]
		if c >= len(m) {
			r.diverged = true
			c = 0
		}
	}
	a := m[c]
	r.points = append(r.points, envPoint{asked: len(p), pos: r.pos, nopts: len(m), chosen: c, n: a.n, err: a.err})
	if a.err == errInjected {
		r.failed = true
		r.faultAt = r.pos + a.n
	}
	if a.n == 0 && a.err == nil {
		r.zeroRun++
	} else {
		r.zeroRun = 0
	}
	copy(p, r.data[r.pos:r.pos+a.n])
	r.pos += a.n
	return a.n, a.err
}

type envExec struct {
	points   []envPoint
	consumed int
	reads    int
	faulted  bool
}

// envExplore runs fn under every read schedule with at most `bound` deviations.
// fn receives the reader; check is called after each execution. mine selects
// which depth-1 subtrees this worker owns (nil = all).
func envExplore(data []byte, oneByte, faults bool, bound int, mine func(k int64) bool,
	run func(r *envReader), check func(x *envExec, choices []int)) (execs int64, reads int64, err error) {
	var k int64
	var rec func(prefix []int, devs int, top bool) error
	rec = func(prefix []int, devs int, top bool) error {
		r := &envReader{data: data, oneByte: oneByte, faults: faults, prefix: prefix}
		run(r)
		if r.diverged {
			return fmt.Errorf("replay diverged for prefix %v", prefix)
		}
		// prefix must have been consumed completely unless the run ended early (legal: error paths)
		x := &envExec{points: r.points, consumed: r.pos, reads: r.reads}
		choices := make([]int, len(r.points))
		for i, p := range r.points {
			choices[i] = p.chosen
		}
		if !(top && mine != nil && !mine(0)) {
			execs++
			reads += int64(r.reads)
			check(x, choices)
		}
		if devs >= bound {
			return nil
		}
		for i := len(prefix); i < len(r.points); i++ {
			for alt := 1; alt < r.points[i].nopts; alt++ {
				if top && mine != nil {
					k++
					if !mine(k) {
						continue
					}
				}
				np := make([]int, i+1)
				copy(np, choices[:i])
				np[i] = alt
				if err := rec(np, devs+1, false); err != nil {
					return err
				}
			}
		}
		return nil
	}
	err = rec(nil, 0, true)
	return
}

// cutReader: reads never cross a cut position (bit i of cuts set => a read may
// not deliver byte i and byte i+1 together). Enumerating all cut sets enumerates
// all partitions of the stream into Read calls.
type cutReader struct {
	data []byte
	pos  int
	cuts uint64
}

func (r *cutReader) Read(p []byte) (int, error) {
	if len(p) == 0 {
		return 0, nil
	}
	if r.pos >= len(r.data) {
		return 0, io.EOF
	}
	n := 0
	for n < len(p) && r.pos+n < len(r.data) {
		n++
		if r.pos+n-1 < 64 && r.cuts&(1<<uint(r.pos+n-1)) != 0 {
			break
		}
	}
	copy(p, r.data[r.pos:r.pos+n])
	r.pos += n
	return n, nil
}
