//go:build !vinstr

package props

const c09Instrumented = false

func c09InstallPointHook(f func(id int)) {}
