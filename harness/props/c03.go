package props

import (
	"bytes"
	"encoding/json"
	"fmt"
	"reflect"
	"runtime"
	"strings"
	"time"

	"github.com/tormoder/fit"

	"verif/fitmodel"
	"verif/vx"
)

// C03: messages are routed, in order, to the typed container of the file's type.

// idField picks a scalar integer field of message m that can carry the stream position.
func idField(m uint16) (fit.VerifField, bool) {
	p := prof()
	mt := fit.VerifMesgType(fit.MesgNum(m))
	if mt == nil {
		return fit.VerifField{}, false
	}
	best := -1
	score := func(e fit.VerifField) int {
		if e.Kind != kindNative || e.Array || !isIntLike(e.Base) {
			return -1
		}
		name := mt.Field(e.Sindex).Name
		for _, r := range compRules {
			if r.Msg == mt.Name() && (r.Src == name || isCompDest(mt.Name(), name)) {
				return -1
			}
		}
		if m == 0 && e.Num == 0 {
			return -1
		}
		if m == uint16(fit.MesgNumEvent) && e.Num <= 4 {
			return -1 // event / data fields drive component expansion
		}
		switch fitmodel.BaseSize(e.Base) {
		case 2:
			return 3
		case 1:
			return 2
		case 4:
			return 1
		}
		return 0
	}
	var pick fit.VerifField
	for _, e := range p.byMesg[m] {
		if s := score(e); s > best {
			best, pick = s, e
		}
	}
	return pick, best >= 0
}

type c03Sym struct {
	Mesg  uint16
	Name  string
	HasID bool
	ID    fit.VerifField
}

func c03Alphabet() []c03Sym {
	p := prof()
	var a []c03Sym
	for _, m := range p.known {
		s := c03Sym{Mesg: m, Name: fit.MesgNum(m).String()}
		s.ID, s.HasID = idField(m)
		a = append(a, s)
	}
	a = append(a, c03Sym{Mesg: 0xFF00, Name: "unknown(0xFF00)"})
	a = append(a, c03Sym{Mesg: 0x0114, Name: "unknown(0x0114, low byte = record)"})
	return a
}

// c03Record builds definition+data for symbol s at position pos (local type cycles through 1..15).
func c03Record(s c03Sym, pos int, ft byte) ([]byte, reflect.Value) {
	local := byte(1 + pos%15)
	id := uint64(pos + 1)
	if s.Mesg == 0 {
		// a further file_id of the same type, carrying the id if possible
		fds := []fitmodel.FieldDef{{Num: 0, Size: 1, Base: fitmodel.Enum}}
		pl := []byte{ft}
		want := newWant(0, ft)
		if s.HasID {
			fd := fitmodel.FieldDef{Num: s.ID.Num, Size: byte(fitmodel.BaseSize(s.ID.Base)), Base: s.ID.Base}
			b := fitmodel.PutUint(binaryOrder(false), int(fd.Size), id)
			fds = append(fds, fd)
			pl = append(pl, b...)
			modelSet(want, s.ID, fd, false, b)
		}
		d := fitmodel.Def{Local: local, Global: 0, Fields: fds}
		return fitmodel.Concat(d.Bytes(), fitmodel.Data(local, pl)), want
	}
	if !prof().isKnown[s.Mesg] {
		d := fitmodel.Def{Local: local, Global: s.Mesg, Fields: []fitmodel.FieldDef{{Num: 0, Size: 2, Base: fitmodel.Uint16}}}
		return fitmodel.Concat(d.Bytes(), fitmodel.Data(local, []byte{byte(id), 0})), reflect.Value{}
	}
	want := newWant(s.Mesg, ft)
	if !s.HasID {
		d := fitmodel.Def{Local: local, Global: s.Mesg}
		return fitmodel.Concat(d.Bytes(), fitmodel.Data(local, nil)), want
	}
	fd := fitmodel.FieldDef{Num: s.ID.Num, Size: byte(fitmodel.BaseSize(s.ID.Base)), Base: s.ID.Base}
	big := pos%2 == 1
	b := fitmodel.PutUint(binaryOrder(big), int(fd.Size), id)
	modelSet(want, s.ID, fd, big, b)
	d := fitmodel.Def{Local: local, Big: big, Global: s.Mesg, Fields: []fitmodel.FieldDef{fd}}
	return fitmodel.Concat(d.Bytes(), fitmodel.Data(local, b)), want
}

type c03Replay struct {
	FileType byte     `json:"file_type"`
	Word     []string `json:"word"`
	Hex      string   `json:"stream_hex"`
}

func init() {
	vx.Register(&vx.Prop{
		ID:    "C03",
		Level: "model_checking",
		Rule: "reflection-derived router model (container struct member *XMsg => single slot holding the last message, []*XMsg => append in stream order; derived from the public container types only) replayed on the real decoder: 17 valid file types x all words of length <=2 (quick) / <=3 (thorough) over {one record of each known message type, an unknown message, a further file_id of the same type}, each message carrying its stream position; homogeneous runs of 100 messages per slice member; accessor matrix (17x17) on decoded and NewFile files; all 256 file-type bytes through Decode and NewFile; a further file_id that changes the type. " +
			"states = distinct router-model states (per-slot id lists) reached; transitions = records applied; traces = streams decoded and compared slot by slot",
		Assumptions: []string{"field_description / developer_data_id messages are stored in unexported slices and are not observable"},
		Run:         runC03,
		QuickBudget: 200,
		Replay: func(raw json.RawMessage) (string, error) {
			if s, ok, err := mixReplay(raw); ok {
				return s, err
			}
			if s, ok, err := mixChainReplay(raw); ok {
				return s, err
			}
			var r c03Replay
			json.Unmarshal(raw, &r)
			res := safeDecode(bytes.NewReader(vx.UnHex(r.Hex)))
			return fmt.Sprintf("err=%v panic=%q %s", res.Err, res.Panic, trunc(dumpFileContent(res.File), 600)), nil
		},
	})
}

// c03Check decodes one word for file type ft and compares with the router model.
func c03Check(ft byte, word []c03Sym, onState func(uint64)) ([]byte, string) {
	parts := fitmodel.FileIdRecords(0, ft)
	type slotKey struct{ idx int }
	expSlots := map[int][]reflect.Value{} // container member index -> expected messages
	expIDs := map[int][]int{}
	var expFileId, expCreator, expTC reflect.Value
	expFileId = newWant(0, ft)
	slots := hosts()[ft]
	for i, s := range word {
		rec, want := c03Record(s, i, ft)
		parts = append(parts, rec)
		switch s.Mesg {
		case 0:
			expFileId = want
		case uint16(fit.MesgNumFileCreator):
			expCreator = want
		case uint16(fit.MesgNumTimestampCorrelation):
			expTC = want
		default:
			for _, sl := range slots {
				if sl.Mesg == s.Mesg && want.IsValid() {
					if sl.IsSlice {
						expSlots[sl.Index] = append(expSlots[sl.Index], want)
						expIDs[sl.Index] = append(expIDs[sl.Index], i)
					} else {
						expSlots[sl.Index] = []reflect.Value{want}
						expIDs[sl.Index] = []int{i}
					}
				}
			}
		}
		if onState != nil {
			var sb strings.Builder
			for _, sl := range slots {
				fmt.Fprintf(&sb, "%d:%v;", sl.Index, expIDs[sl.Index])
			}
			onState(vx.Hash(fmt.Sprint(ft, sb.String())))
		}
	}
	stream := fitmodel.File(fitmodel.DefaultHeader, parts...)
	res := safeDecode(bytes.NewReader(stream))
	if res.Panic != "" {
		return stream, "Decode panics: " + res.Panic
	}
	if res.Err != nil {
		return stream, "Decode fails: " + res.Err.Error()
	}
	f := res.File
	if d := diffMsg(reflect.ValueOf(f.FileId), expFileId, nil); d != "" {
		return stream, "file_id: " + d
	}
	cmpPtr := func(name string, got reflect.Value, want reflect.Value) string {
		if !want.IsValid() {
			if !got.IsNil() {
				return name + " is set although no such message was in the stream"
			}
			return ""
		}
		if got.IsNil() {
			return name + " is nil, message lost"
		}
		return diffMsg(got.Elem(), want, nil)
	}
	if d := cmpPtr("FileCreator", reflect.ValueOf(f.FileCreator), expCreator); d != "" {
		return stream, "file_creator: " + d
	}
	if d := cmpPtr("TimestampCorrelation", reflect.ValueOf(f.TimestampCorrelation), expTC); d != "" {
		return stream, "timestamp_correlation: " + d
	}
	// accessor matrix
	for _, t := range fileTypes {
		c, err := t.Accessor(f)
		isNil := c == nil || reflect.ValueOf(c).IsNil()
		if byte(t.Type) == ft {
			if err != nil || isNil {
				return stream, fmt.Sprintf("accessor %s on a %s file returns (nil=%v, err=%v)", t.Name, t.Name, isNil, err)
			}
		} else if err == nil || !isNil {
			return stream, fmt.Sprintf("accessor %s on a file of type %d returns (nil=%v, err=%v); expected an error", t.Name, ft, isNil, err)
		}
	}
	c := container(f)
	for _, sl := range slots {
		fv := c.Elem().Field(sl.Index)
		var got []reflect.Value
		if sl.IsSlice {
			for i := 0; i < fv.Len(); i++ {
				if fv.Index(i).IsNil() {
					return stream, fmt.Sprintf("member %s[%d] is nil", sl.Name, i)
				}
				got = append(got, fv.Index(i).Elem())
			}
		} else if !fv.IsNil() {
			got = append(got, fv.Elem())
		}
		want := expSlots[sl.Index]
		if len(got) != len(want) {
			return stream, fmt.Sprintf("member %s holds %d message(s), router model expects %d", sl.Name, len(got), len(want))
		}
		for i := range got {
			if d := diffMsg(got[i], want[i], compIgnore(got[i])); d != "" {
				return stream, fmt.Sprintf("member %s[%d]: %s", sl.Name, i, d)
			}
		}
	}
	return stream, ""
}

func runC03(w *vx.W) {
	c03Retention(w)
	mixLen := 3
	if !w.Quick() {
		mixLen = 4
	}
	mixFamily(w, mixLen)
	mixLongRuns(w, []int{0, 2, 5, 6})
	c10MixChains(w) // the same words as members of a chain: values and routing must not depend on an earlier member
	alpha := c03Alphabet()
	// the further file_id symbol is the known message 0 entry itself (first in list)
	maxLen := 2
	if !w.Quick() {
		maxLen = 3
	}
	states := map[uint64]struct{}{}
	names := func(word []c03Sym) []string {
		n := make([]string, len(word))
		for i, s := range word {
			n[i] = s.Name
		}
		return n
	}
	word := make([]c03Sym, 0, 4)
	for _, t := range fileTypes {
		ft := byte(t.Type)
		stop := false
		seqWords(len(alpha), maxLen, w.Mine, func(ix []int) bool {
			if len(ix) >= 3 && w.Expired("words") {
				stop = true
				return false
			}
			word = word[:0]
			for _, a := range ix {
				word = append(word, alpha[a])
			}
			var on func(uint64)
			if len(ix) <= 2 {
				on = func(h uint64) { states[h] = struct{}{} }
			}
			stream, msg := c03Check(ft, word, on)
			w.Eval(1)
			w.Trace(1)
			w.Transition(int64(len(ix)))
			w.Distinct(vx.HashB(stream))
			if msg != "" {
				w.Violation(fmt.Sprintf("routing/%s", t.Name), fmt.Sprintf("%s file, word %v: %s", t.Name, names(word), msg), c03Replay{ft, names(word), vx.Hex(stream)})
			}
			return true
		})
		if stop {
			break
		}
	}
	// homogeneous runs of 100 messages per slice member
	var k int64
	for _, t := range fileTypes {
		for _, sl := range hosts()[byte(t.Type)] {
			k++
			if !w.Mine(k) {
				continue
			}
			var sym c03Sym
			for _, a := range alpha {
				if a.Mesg == sl.Mesg {
					sym = a
				}
			}
			run := make([]c03Sym, 100)
			for i := range run {
				run[i] = sym
			}
			stream, msg := c03Check(byte(t.Type), run, nil)
			w.Eval(1)
			w.Trace(1)
			w.Transition(100)
			w.Fam("runs-of-100", 1)
			if msg != "" {
				w.Violation("routing-run/"+t.Name, fmt.Sprintf("%s file, 100 x %s: %s", t.Name, sym.Name, msg), c03Replay{byte(t.Type), []string{"100 x " + sym.Name}, vx.Hex(stream)})
			}
		}
	}
	// identical and partly identical messages must each be kept (exactly-once membership is per record, not per
	// content): ids 1,2,1,1,3 in the identity field, and again in message_index (254) where the message has it
	for _, t := range fileTypes {
		for _, sl := range hosts()[byte(t.Type)] {
			if !sl.IsSlice {
				continue
			}
			k++
			if !w.Mine(k) {
				continue
			}
			var sym c03Sym
			for _, a := range alpha {
				if a.Mesg == sl.Mesg {
					sym = a
				}
			}
			carriers := []fit.VerifField{}
			if sym.HasID {
				carriers = append(carriers, sym.ID)
			}
			if e, ok := prof().fields[sl.Mesg][254]; ok && (!sym.HasID || sym.ID.Num != 254) && e.Kind == kindNative && !e.Array {
				carriers = append(carriers, e)
			}
			for _, carrier := range carriers {
				ids := []uint64{1, 2, 1, 1, 3}
				parts := fitmodel.FileIdRecords(0, byte(t.Type))
				bs := fitmodel.BaseSize(carrier.Base)
				fd := fitmodel.FieldDef{Num: carrier.Num, Size: byte(bs), Base: carrier.Base}
				d := fitmodel.Def{Local: 1, Global: sl.Mesg, Fields: []fitmodel.FieldDef{fd}}
				parts = append(parts, d.Bytes())
				var wants []reflect.Value
				for _, id := range ids {
					b := fitmodel.PutUint(binaryOrder(false), bs, id)
					parts = append(parts, fitmodel.Data(1, b))
					want := newWant(sl.Mesg, byte(t.Type))
					modelSet(want, carrier, fd, false, b)
					wants = append(wants, want)
				}
				s := fitmodel.File(fitmodel.DefaultHeader, parts...)
				res := safeDecode(bytes.NewReader(s))
				w.Eval(1)
				w.Trace(1)
				w.Transition(int64(len(ids)))
				w.Fam("duplicate-identities", 1)
				rep := c03Replay{byte(t.Type), []string{fmt.Sprintf("5 x %s with field %d = 1,2,1,1,3", sym.Name, carrier.Num)}, vx.Hex(s)}
				if res.Err != nil || res.Panic != "" {
					w.Violation("routing-duplicates/"+t.Name, fmt.Sprintf("%s file: decode fails: %v %s", t.Name, res.Err, res.Panic), rep)
					continue
				}
				got := messagesOf(res.File, sl.Mesg)
				if len(got) != len(ids) {
					w.Violation("routing-duplicates/"+t.Name, fmt.Sprintf("%s file, member %s: 5 records with field %d = 1,2,1,1,3 give %d messages", t.Name, sl.Name, carrier.Num, len(got)), rep)
					continue
				}
				for i := range got {
					if d := diffMsg(got[i], wants[i], compIgnore(got[i])); d != "" {
						w.Violation("routing-duplicates/"+t.Name, fmt.Sprintf("%s file, member %s[%d]: %s", t.Name, sl.Name, i, d), rep)
						break
					}
				}
			}
		}
	}
	// a held message whose definition lists only field numbers the profile does not know (or a mix) is still a
	// message of its type: it must land in its member as an all-invalid message, in order
	for _, t := range fileTypes {
		for _, sl := range hosts()[byte(t.Type)] {
			k++
			if !w.Mine(k) {
				continue
			}
			var sym c03Sym
			for _, a := range alpha {
				if a.Mesg == sl.Mesg {
					sym = a
				}
			}
			ft := byte(t.Type)
			unl := byte(0)
			for f := 249; f > 0; f-- {
				if _, listed := prof().fields[sl.Mesg][byte(f)]; !listed {
					unl = byte(f)
					break
				}
			}
			dU := fitmodel.Def{Local: 9, Global: sl.Mesg, Fields: []fitmodel.FieldDef{{Num: unl, Size: 2, Base: fitmodel.Uint16}}}
			recU := fitmodel.Concat(dU.Bytes(), fitmodel.Data(9, []byte{7, 7}))
			rec1, want1 := c03Record(sym, 0, ft)
			rec3, want3 := c03Record(sym, 2, ft)
			parts := append(fitmodel.FileIdRecords(0, ft), rec1, recU, rec3, recU)
			s := fitmodel.File(fitmodel.DefaultHeader, parts...)
			res := safeDecode(bytes.NewReader(s))
			w.Eval(1)
			w.Trace(1)
			w.Transition(4)
			w.Fam("unlisted-fields-only", 1)
			rep := c03Replay{ft, []string{sym.Name, sym.Name + " with only unlisted field " + fmt.Sprint(unl), sym.Name, sym.Name + " with only unlisted field"}, vx.Hex(s)}
			if res.Err != nil || res.Panic != "" {
				w.Violation("routing-unlisted-only/"+t.Name, fmt.Sprintf("%s file: decode fails: %v %s", t.Name, res.Err, res.Panic), rep)
				continue
			}
			empty := newWant(sl.Mesg, ft)
			wants := []reflect.Value{want1, empty, want3, empty}
			got := messagesOf(res.File, sl.Mesg)
			if sl.IsSlice {
				if len(got) != 4 {
					w.Violation("routing-unlisted-only/"+t.Name, fmt.Sprintf("%s file, member %s: 4 records (2 of them carrying only an unlisted field) give %d messages", t.Name, sl.Name, len(got)), rep)
					continue
				}
			} else {
				if len(got) != 1 {
					w.Violation("routing-unlisted-only/"+t.Name, fmt.Sprintf("%s file, member %s: no message held", t.Name, sl.Name), rep)
					continue
				}
				wants = wants[3:]
			}
			for i := range got {
				if d := diffMsg(got[i], wants[i], compIgnore(got[i])); d != "" {
					w.Violation("routing-unlisted-only/"+t.Name, fmt.Sprintf("%s file, member %s[%d]: %s", t.Name, sl.Name, i, d), rep)
					break
				}
			}
		}
	}
	// messages with (nearly) every scalar field set: routing must not depend on message content
	for _, t := range fileTypes {
		for seed := 0; seed < 3; seed++ {
			k++
			if !w.Mine(k) {
				continue
			}
			s, exp := richStream(byte(t.Type), seed, 2)
			res := safeDecode(bytes.NewReader(s))
			w.Eval(1)
			w.Trace(1)
			w.Fam("rich-messages", 1)
			rep := c03Replay{byte(t.Type), []string{fmt.Sprintf("rich stream seed %d: every member twice in order, then once in reverse order", seed)}, vx.Hex(s)}
			if res.Err != nil || res.Panic != "" {
				w.Violation("routing-rich/"+t.Name, fmt.Sprintf("%s file: decode fails: %v %s", t.Name, res.Err, res.Panic), rep)
				continue
			}
			if d := richCompare(res.File, byte(t.Type), exp); d != "" {
				w.Violation("routing-rich/"+t.Name, fmt.Sprintf("%s file with fully populated messages: %s", t.Name, d), rep)
			}
		}
	}
	// all 256 file-type bytes: Decode and NewFile
	for b := 0; b < 256; b++ {
		if !w.Mine(int64(b)) {
			continue
		}
		valid := fileTypeByByte(byte(b)) != nil
		s := minimalFile(hdr14(), byte(b))
		res := safeDecode(bytes.NewReader(s))
		var nf *fit.File
		var nerr error
		pn, _ := guard(func() { nf, nerr = fit.NewFile(fit.FileType(b), fit.NewHeader(fit.V20, true)) })
		w.Eval(2)
		w.Fam("file-type-bytes", 1)
		rep := c03Replay{byte(b), nil, vx.Hex(s)}
		if res.Panic != "" || pn != "" {
			w.Violation("file-type-panic", fmt.Sprintf("file type %d: panic %s %s", b, res.Panic, pn), rep)
			continue
		}
		if valid != (res.Err == nil) {
			w.Violation("file-type-verdict/Decode", fmt.Sprintf("file type %d (valid=%v): Decode err=%v", b, valid, res.Err), rep)
		}
		if valid != (nerr == nil) {
			w.Violation("file-type-verdict/NewFile", fmt.Sprintf("file type %d (valid=%v): NewFile err=%v", b, valid, nerr), rep)
		}
		if valid && nerr == nil {
			if nf.Type() != fit.FileType(b) {
				w.Violation("newfile-type", fmt.Sprintf("NewFile(%d).Type()=%d", b, nf.Type()), rep)
			}
			for _, t := range fileTypes {
				c, err := t.Accessor(nf)
				isNil := c == nil || reflect.ValueOf(c).IsNil()
				if (byte(t.Type) == byte(b)) != (err == nil && !isNil) || (byte(t.Type) != byte(b) && !isNil) {
					w.Violation("newfile-accessor", fmt.Sprintf("NewFile(%d): accessor %s returns (nil=%v, err=%v)", b, t.Name, isNil, err), rep)
				}
			}
		}
		if !valid && res.File != nil && container(res.File).IsValid() {
			w.Violation("file-type-container", fmt.Sprintf("file type %d rejected but a container exists", b), rep)
		}
	}
	// a further file_id that changes the type: either rejected, or the File stays consistent
	k = 0
	for _, t1 := range fileTypes {
		for _, t2 := range fileTypes {
			if t1.Type == t2.Type {
				continue
			}
			k++
			if !w.Mine(k) {
				continue
			}
			parts := fitmodel.FileIdRecords(0, byte(t1.Type))
			parts = append(parts, fitmodel.Data(0, []byte{byte(t2.Type)}))
			s := fitmodel.File(fitmodel.DefaultHeader, parts...)
			res := safeDecode(bytes.NewReader(s))
			w.Eval(1)
			w.Fam("file_id-type-change", 1)
			if res.Panic != "" {
				w.Violation("file_id-type-change", "panic: "+res.Panic, c03Replay{byte(t1.Type), []string{"file_id(" + t2.Name + ")"}, vx.Hex(s)})
				continue
			}
			if res.Err != nil {
				continue // rejecting the stream is consistent
			}
			ft := fileTypeByByte(byte(res.File.Type()))
			var c interface{}
			var err error
			if ft != nil {
				c, err = ft.Accessor(res.File)
			}
			if ft == nil || err != nil || c == nil || reflect.ValueOf(c).IsNil() {
				w.Violation("file_id-type-change", fmt.Sprintf("%s file with a further file_id of type %s is accepted, File.Type()=%v, but the matching accessor returns (%v, %v)", t1.Name, t2.Name, res.File.Type(), c, err),
					c03Replay{byte(t1.Type), []string{"file_id(" + t2.Name + ")"}, vx.Hex(s)})
			}
		}
	}
	// a further file_id that leaves the type out (or sets it to the invalid value), between hosted messages:
	// either the stream is rejected or the File stays consistent (its type still selects the container that
	// received the messages)
	k = 0
	for _, t1 := range fileTypes {
		ft := byte(t1.Type)
		slots := hosts()[ft]
		if len(slots) == 0 {
			continue
		}
		var sym c03Sym
		for _, a := range alpha {
			if a.Mesg == slots[len(slots)-1].Mesg {
				sym = a
			}
		}
		for variant := 0; variant < 3; variant++ {
			for pos := 0; pos < 2; pos++ {
				k++
				if !w.Mine(k) {
					continue
				}
				var second []byte
				switch variant {
				case 0: // serial number only, no type field
					d := fitmodel.Def{Local: 9, Global: 0, Fields: []fitmodel.FieldDef{{Num: 3, Size: 4, Base: fitmodel.Uint32z}}}
					second = fitmodel.Concat(d.Bytes(), fitmodel.Data(9, []byte{1, 2, 3, 4}))
				case 1: // explicit invalid type
					second = fitmodel.Concat(fitmodel.FileIdDef(9, false).Bytes(), fitmodel.Data(9, []byte{0xFF}))
				case 2: // zero-field file_id record
					d := fitmodel.Def{Local: 9, Global: 0}
					second = fitmodel.Concat(d.Bytes(), fitmodel.Data(9, nil))
				}
				rec1, _ := c03Record(sym, 0, ft)
				rec2, _ := c03Record(sym, 1, ft)
				parts := fitmodel.FileIdRecords(0, ft)
				if pos == 0 {
					parts = append(parts, second, rec1, rec2)
				} else {
					parts = append(parts, rec1, second, rec2)
				}
				s := fitmodel.File(fitmodel.DefaultHeader, parts...)
				res := safeDecode(bytes.NewReader(s))
				w.Eval(1)
				w.Trace(1)
				w.Fam("file_id-without-type", 1)
				rep := c03Replay{ft, []string{fmt.Sprintf("file_id variant %d at position %d", variant, pos), sym.Name}, vx.Hex(s)}
				if res.Panic != "" {
					w.Violation("file_id-without-type", "panic: "+res.Panic, rep)
					continue
				}
				if res.Err != nil {
					continue
				}
				cont := container(res.File)
				if res.File.Type() != t1.Type || !cont.IsValid() {
					w.Violation("file_id-without-type", fmt.Sprintf("%s file with a further file_id (variant %d) is accepted but File.Type()=%v and the matching accessor yields no container", t1.Name, variant, res.File.Type()), rep)
					continue
				}
				if got := len(messagesOf(res.File, sym.Mesg)); (slotIsSlice(ft, sym.Mesg) && got != 2) || got == 0 {
					w.Violation("file_id-without-type", fmt.Sprintf("%s file with a further file_id (variant %d): %d %s messages in the container, 2 in the stream", t1.Name, variant, got, sym.Name), rep)
				}
			}
		}
	}
	for h := range states {
		w.State(h)
	}
	if w.Shard == 0 {
		ex := []c03Sym{alpha[15], alpha[101], alpha[15]}
		s, _ := c03Check(4, ex, nil)
		w.Sample(map[string]interface{}{"file_type": "activity", "word": names(ex), "stream_hex": vx.Hex(s)})
		noid := 0
		for _, a := range alpha {
			if !a.HasID && prof().isKnown[a.Mesg] {
				noid++
			}
		}
		w.Extra("alphabet", map[string]int{"symbols": len(alpha), "known_messages_without_id_field": noid})
	}
}

// ---- retention: what Decode returned stays what it was. A container (and the File) obtained from one decode is
// dumped, the *File is dropped, the garbage collector runs, further files of the same kind are decoded, the
// collector runs again - and the first container must still dump the same (storage recycled behind the caller's
// back, finalizers, pooled backing arrays).
// settleGC: two collections, each followed by a wait until a finalizer registered just before it has run (finalizers
// run one after the other on one goroutine, so the ones queued earlier have run by then). The wait is bounded; no
// verdict depends on it — it only makes what a collection triggers visible before the next call.
func settleGC() {
	for i := 0; i < 2; i++ {
		done := make(chan struct{})
		x := new([64]byte)
		runtime.SetFinalizer(x, func(*[64]byte) { close(done) })
		x = nil
		runtime.GC()
		select {
		case <-done:
		case <-time.After(2 * time.Second):
		}
	}
	runtime.GC()
}

func c03Retention(w *vx.W) {
	if w.Shard != 0 {
		return
	}
	type kept struct {
		name string
		c    interface{}
		f    *fit.File
		dump string
	}
	var ks []kept
	streams := []namedStream{sBig, s4096, sAct3, sSet}
	for round := 0; round < 3; round++ {
		for _, s := range streams {
			res := safeDecode(bytes.NewReader(s.B))
			if res.Err != nil || res.File == nil {
				continue
			}
			c := container(res.File)
			k := kept{name: s.Name, c: c.Interface(), dump: fitmodel.Dump(c)}
			if round == 1 {
				k.f = res.File // some keep the File too
			}
			ks = append(ks, k)
			res.File = nil
			settleGC()
		}
	}
	for i := 0; i < 3; i++ {
		settleGC()
		safeDecode(bytes.NewReader(sBig.B))
	}
	for i, k := range ks {
		w.Eval(1)
		w.Fam("retention", 1)
		if got := fitmodel.Dump(reflect.ValueOf(k.c)); got != k.dump {
			w.Violation("retention", fmt.Sprintf("the container of decode #%d (%s) changed after later decodes and garbage collections: %s", i, k.name, diffAt(got, k.dump)), c03Replay{})
			break
		}
	}
}
