package props

import (
	"encoding/binary"
	"fmt"
	"reflect"
	"strings"
	"sync"
	"time"

	"github.com/tormoder/fit"

	"verif/fitmodel"
)

// In-domain File generator shared by C05 / C06 (Files built through the public API).

// genValue stores in-domain value #vi for entry e into fv; false when there is no such value.
// zone offsets (seconds) for local timestamps paired with a UTC reference: not only whole hours / minutes
var genLocalOffsets = []int{0, 1, -1, 29, 30, 31, 59, 61, -59, 3599, 3601, 12307, -12307, 45296, 86399, -86399, 86400, 90001}

// instants around the 2021 transitions of Europe/Oslo (01:00 UTC on 28 March and 31 October)
var genDSTInstants = []int64{1616882400, 1616891400, 1616895000, 1635640200, 1635643800}

var dstZoneOnce sync.Once
var dstZone *time.Location

// genDSTZone: a zone with daylight saving from the system's zone database (nil if the database is not installed).
func genDSTZone() *time.Location {
	dstZoneOnce.Do(func() {
		if l, err := time.LoadLocation("Europe/Oslo"); err == nil {
			dstZone = l
		}
	})
	return dstZone
}

func genValue(fv reflect.Value, e fit.VerifField, vi int, salt int) bool {
	bs := fitmodel.BaseSize(e.Base)
	switch e.Kind {
	case kindUTC, kindLocal:
		secs := []int64{1, 1000000000 + int64(salt), 0xFFFFFFFE, 0x10000000, 0x7FFFFFFF, 0x80000000}
		if e.Kind == kindLocal && vi >= 200 && !e.Array {
			// value 200+i: an instant around a daylight-saving transition, in a real (shared) *time.Location
			loc := genDSTZone()
			if loc == nil || vi-200 >= len(genDSTInstants) {
				return false
			}
			fv.Set(reflect.ValueOf(time.Unix(genDSTInstants[vi-200], 0).In(loc)))
			return true
		}
		if e.Kind == kindLocal && vi >= 100 && !e.Array {
			// value 100+i: the instant of timestamp value#1 seen in a zone that is genLocalOffsets[i] away from UTC
			if vi-100 >= len(genLocalOffsets) {
				return false
			}
			fv.Set(reflect.ValueOf(time.Unix(fitmodel.FitEpoch+secs[1], 0).In(time.FixedZone("FITLOCAL", genLocalOffsets[vi-100]))))
			return true
		}
		if vi >= len(secs) {
			return false
		}
		t := time.Unix(fitmodel.FitEpoch+secs[vi], 0).UTC()
		if e.Kind == kindLocal {
			offs := []int{0, 3600, -7200 - 30, 5*3600 + 1800, 0, -3600}
			t = t.In(time.FixedZone("FITLOCAL", offs[vi]))
			// the wall-clock reading must stay inside the 32-bit range
			wall := secs[vi] + int64(offs[vi])
			if wall < 1 || wall > 0xFFFFFFFE {
				t = time.Unix(fitmodel.FitEpoch+secs[vi], 0).In(time.FixedZone("FITLOCAL", 0))
			}
		}
		if e.Array {
			return false
		}
		fv.Set(reflect.ValueOf(t))
		return true
	case kindLat:
		vals := []int32{0, 1 << 29, -(1 << 30), 1<<30 - 1, -1, 123456789}
		if vi >= len(vals) || e.Array {
			return false
		}
		fv.Set(reflect.ValueOf(fit.NewLatitude(vals[vi])))
		return true
	case kindLng:
		vals := []int32{0, 1 << 30, -(1 << 31), 1<<31 - 2, -1, -1234567890}
		if vi >= len(vals) || e.Array {
			return false
		}
		fv.Set(reflect.ValueOf(fit.NewLongitude(vals[vi])))
		return true
	}
	if e.Base == fitmodel.String {
		if e.Array {
			return false // the encoder documents that it cannot write string arrays
		}
		max := int(e.Length) - 1
		if max < 1 {
			return false
		}
		cands := []string{"a", "héllo wörld", "", "日本"}
		if vi >= 30 && vi <= 34 {
			// over-long strings whose cut at the field size falls inside a 3- or 4-byte rune (1, 2 or 3 bytes of it kept)
			r, keep := "\u20ac", vi-29 // 30,31: euro sign with 1 / 2 bytes inside the field
			if vi >= 32 {
				r, keep = "\U0001F600", vi-31 // 32,33,34: emoji with 1 / 2 / 3 bytes inside
			}
			if max-keep < 0 {
				return false
			}
			fv.SetString(strings.Repeat("a", max-keep) + r + "zz")
			return true
		}
		if vi >= 10 {
			// 10..: strings that are not valid UTF-8 (outside C06's domain; C05 only asks that Encode either refuses
			// them or still writes a well-formed stream); 20..: valid strings that end in / consist of U+FFFD
			var v string
			switch vi {
			case 10:
				v = "a\xff"
			case 11:
				v = "Caf\xe9\xe8"
			case 12:
				v = "\xe2\x82"
			case 13:
				v = "\xff\xfe\xfd"
			case 20:
				v = "Caf\uFFFD"
			case 21:
				v = "\uFFFD"
			case 22:
				v = "\uFFFDx"
			default:
				return false
			}
			if len(v) > max {
				return false
			}
			fv.SetString(v)
			return true
		}
		switch vi {
		case 0:
			fv.SetString("a")
		case 1:
			s := cands[1]
			if len(s) > max {
				s = "zz"
				if len(s) > max {
					return false
				}
			}
			fv.SetString(s)
		case 2:
			b := make([]byte, max)
			for i := range b {
				b[i] = byte('A' + (i+salt)%26)
			}
			fv.SetString(string(b))
		case 3:
			if len(cands[3]) > max {
				return false
			}
			fv.SetString(cands[3])
		default:
			return false
		}
		return true
	}
	inv := fitmodel.BaseInvalidBits(e.Base)
	maxv := uint64(1)<<(8*uint(bs)) - 1
	pick := func(vi int) (uint64, bool) {
		vals := []uint64{1, maxv >> 1, (maxv >> 1) + 1, maxv - 1, 0, maxv, uint64(0x1234567890ABCDEF+uint64(salt)) & maxv}
		if vi >= len(vals) {
			return 0, false
		}
		v := vals[vi]
		if v == inv {
			v = (v + 2) & maxv
			if v == inv {
				v = 3
			}
		}
		return v, true
	}
	if e.Array && (vi == 3 || vi == 4) {
		// an array whose first (vi 3) or middle (vi 4) element is the invalid value while the others carry data: the
		// array as a whole is set
		n := int(e.Length)
		if n < 2 || (vi == 4 && n < 3) {
			return false
		}
		sl := reflect.MakeSlice(fv.Type(), n, n)
		for i := 0; i < n; i++ {
			v, _ := pick(i % 4)
			setInt(sl.Index(i), v, bs, fitmodel.BaseSigned(e.Base))
		}
		hole := 0
		if vi == 4 {
			hole = n / 2
		}
		setInt(sl.Index(hole), inv, bs, fitmodel.BaseSigned(e.Base))
		fv.Set(sl)
		return true
	}
	if e.Array {
		lens := []int{1, int(e.Length), 2}
		if vi >= len(lens) {
			return false
		}
		n := lens[vi]
		if n > int(e.Length) || n < 1 {
			return false
		}
		sl := reflect.MakeSlice(fv.Type(), n, n)
		for i := 0; i < n; i++ {
			v, _ := pick((vi + i) % 5)
			setInt(sl.Index(i), v, bs, fitmodel.BaseSigned(e.Base))
		}
		fv.Set(sl)
		return true
	}
	v, ok := pick(vi)
	if !ok {
		return false
	}
	setInt(fv, v, bs, fitmodel.BaseSigned(e.Base))
	return true
}

// wireOf is the reference encoding of struct field fv for entry e in the given order.
func wireOf(fv reflect.Value, e fit.VerifField, big bool) []byte {
	o := binaryOrder(big)
	bs := fitmodel.BaseSize(e.Base)
	switch e.Kind {
	case kindUTC:
		t := fv.Interface().(time.Time)
		return fitmodel.PutUint(o, 4, uint64(uint32(t.Unix()-fitmodel.FitEpoch)))
	case kindLocal:
		t := fv.Interface().(time.Time)
		if invalidValueOK(fv, e) {
			return fitmodel.PutUint(o, 4, 0xFFFFFFFF) // unset: the invalid pattern
		}
		_, off := t.Zone()
		return fitmodel.PutUint(o, 4, uint64(uint32(t.Unix()-fitmodel.FitEpoch+int64(off))))
	case kindLat:
		return fitmodel.PutUint(o, 4, uint64(uint32(fv.Interface().(fit.Latitude).Semicircles())))
	case kindLng:
		return fitmodel.PutUint(o, 4, uint64(uint32(fv.Interface().(fit.Longitude).Semicircles())))
	}
	if e.Base == fitmodel.String {
		b := make([]byte, e.Length)
		copy(b, fv.String())
		return b
	}
	bits := func(v reflect.Value) uint64 {
		switch v.Kind() {
		case reflect.Int8, reflect.Int16, reflect.Int32, reflect.Int64:
			return uint64(v.Int())
		}
		return v.Uint()
	}
	if e.Array {
		var out []byte
		n := fv.Len()
		for i := 0; i < int(e.Length); i++ {
			if i < n {
				out = append(out, fitmodel.PutUint(o, bs, bits(fv.Index(i)))...)
			} else {
				out = append(out, fitmodel.PutUint(o, bs, fitmodel.BaseInvalidBits(e.Base))...)
			}
		}
		return out
	}
	return fitmodel.PutUint(o, bs, bits(fv))
}

// wireSize is the field size the definition must declare for entry e.
func wireSize(e fit.VerifField) int {
	bs := fitmodel.BaseSize(e.Base)
	if e.Base == fitmodel.String {
		return int(e.Length)
	}
	if e.Array {
		return bs * int(e.Length)
	}
	return bs
}

// genSlot describes where a generated message goes.
type genSlot struct {
	FT     byte
	Common string // "FileId" | "FileCreator" | "TimestampCorrelation" | ""
	Slot   slotInfo
	Mesg   uint16
}

func genSlots() []genSlot {
	var out []genSlot
	for _, t := range fileTypes {
		ft := byte(t.Type)
		if ft == byte(fit.FileTypeActivity) || ft == byte(fit.FileTypeSettings) {
			out = append(out, genSlot{FT: ft, Common: "FileId", Mesg: 0},
				genSlot{FT: ft, Common: "FileCreator", Mesg: uint16(fit.MesgNumFileCreator)},
				genSlot{FT: ft, Common: "TimestampCorrelation", Mesg: uint16(fit.MesgNumTimestampCorrelation)})
		}
		for _, s := range hosts()[ft] {
			out = append(out, genSlot{FT: ft, Slot: s, Mesg: s.Mesg})
		}
	}
	return out
}

// genSpec is one generated File: messages for one slot, each with a set of (entry, value index).
type genSpec struct {
	Slot    genSlot
	Msgs    [][]genFieldSet
	HdrCRC  bool
	Big     bool
	Desc    string
	WithRef bool // add a record with an explicit timestamp before (activity only) - not used for common slots
	Stale   bool // the File's output fields (Header.CRC, Header.DataSize, CRC) hold stale non-zero values, as after a Decode
	// AfterFailed n>0: two Encode calls that fail are made first (a string that is not UTF-8 in the last message;
	// a writer fault on the n-th write)
	AfterFailed int
	// LongN > 0: Msgs holds two field sets; the slice gets LongN messages with the first set, and the message at
	// index LongAt carries the second set as well (a field present in one message of a long run only)
	LongN, LongAt int
}

type genFieldSet struct {
	Slot int // lookup slot (field number)
	VI   int
}

// build constructs the File through the public API and returns the messages put in (in slot order).
func (g genSpec) build() (*fit.File, []reflect.Value, error) {
	f, err := fit.NewFile(fit.FileType(g.Slot.FT), fit.NewHeader(fit.V20, g.HdrCRC))
	if err != nil {
		return nil, nil, err
	}
	// NewFile leaves FileId at Go zero values (time_created = year 1, outside the
	// representable domain); an in-domain File starts from the all-invalid file_id.
	fid := fit.VerifNewMesg(0)
	fid.FieldByName("Type").SetUint(uint64(g.Slot.FT))
	f.FileId = fid.Interface().(fit.FileIdMsg)
	if g.Stale {
		f.Header.CRC, f.Header.DataSize, f.CRC = 0xBEEF, 0x01020304, 0x5A5A
	}
	if g.AfterFailed > 0 {
		safeEncode(failingFile(), g.AfterFailed%2 == 0)
		guard(func() { fit.Encode(&failWriter{failAt: g.AfterFailed}, apiFile(1), binary.LittleEndian) })
	}
	p := prof()
	var msgs []reflect.Value
	if g.LongN > 0 && len(g.Msgs) == 2 {
		long := make([][]genFieldSet, g.LongN)
		for i := range long {
			long[i] = g.Msgs[0]
		}
		long[g.LongAt] = append(append([]genFieldSet{}, g.Msgs[0]...), g.Msgs[1]...)
		g.Msgs = long
	}
	for mi, fs := range g.Msgs {
		mv := fit.VerifNewMesg(fit.MesgNum(g.Slot.Mesg))
		for _, s := range fs {
			e := p.fields[g.Slot.Mesg][byte(s.Slot)]
			if !genValue(mv.Field(e.Sindex), e, s.VI, mi) {
				return nil, nil, fmt.Errorf("no value %d for field %d", s.VI, s.Slot)
			}
		}
		msgs = append(msgs, mv)
	}
	switch g.Slot.Common {
	case "FileId":
		m := msgs[len(msgs)-1]
		m.FieldByName("Type").SetUint(uint64(g.Slot.FT))
		f.FileId = m.Interface().(fit.FileIdMsg)
		msgs = msgs[len(msgs)-1:]
	case "FileCreator":
		f.FileCreator = msgs[len(msgs)-1].Addr().Interface().(*fit.FileCreatorMsg)
		msgs = msgs[len(msgs)-1:]
	case "TimestampCorrelation":
		f.TimestampCorrelation = msgs[len(msgs)-1].Addr().Interface().(*fit.TimestampCorrelationMsg)
		msgs = msgs[len(msgs)-1:]
	default:
		c := container(f)
		fv := c.Elem().Field(g.Slot.Slot.Index)
		if g.Slot.Slot.IsSlice {
			for _, m := range msgs {
				fv.Set(reflect.Append(fv, m.Addr()))
			}
		} else {
			fv.Set(msgs[len(msgs)-1].Addr())
			msgs = msgs[len(msgs)-1:]
		}
	}
	return f, msgs, nil
}

// genSpecs enumerates the File family for one slot.
func genSpecs(gs genSlot, thorough bool) []genSpec {
	p := prof()
	entries := p.byMesg[gs.Mesg]
	var usable []fit.VerifField
	for _, e := range entries {
		if gs.Mesg == 0 && e.Num == 0 {
			continue
		}
		probe := fit.VerifNewMesg(fit.MesgNum(gs.Mesg))
		if genValue(probe.Field(e.Sindex), e, 0, 0) {
			usable = append(usable, e)
		}
	}
	var out []genSpec
	combo := 0
	add := func(desc string, msgs [][]genFieldSet, allCombos bool) {
		n := 1
		if allCombos {
			n = 4
		}
		for c := 0; c < n; c++ {
			k := combo
			if allCombos {
				k = c
			}
			out = append(out, genSpec{Slot: gs, Msgs: msgs, HdrCRC: k&1 == 0, Big: k&2 != 0, Desc: desc})
			combo++
		}
	}
	// (1) no field set
	add("no fields", [][]genFieldSet{{}}, true)
	// (2) each single field x each value
	for _, e := range usable {
		for vi := 0; vi < 8; vi++ {
			probe := fit.VerifNewMesg(fit.MesgNum(gs.Mesg))
			if !genValue(probe.Field(e.Sindex), e, vi, 0) {
				break
			}
			add(fmt.Sprintf("field %d value#%d", e.Num, vi), [][]genFieldSet{{{e.Slot, vi}}}, thorough)
		}
	}
	all := func(vi int, filter func(i int) bool) []genFieldSet {
		var fs []genFieldSet
		for i, e := range usable {
			if filter != nil && !filter(i) {
				continue
			}
			probe := fit.VerifNewMesg(fit.MesgNum(gs.Mesg))
			v := vi
			if !genValue(probe.Field(e.Sindex), e, v, 0) {
				v = 0
			}
			fs = append(fs, genFieldSet{e.Slot, v})
		}
		return fs
	}
	if len(usable) > 0 {
		// (3) all fields
		add("all fields", [][]genFieldSet{all(0, nil)}, true)
		add("all fields, other values", [][]genFieldSet{all(1, nil)}, true)
		if gs.Common == "" && gs.Slot.IsSlice {
			even := func(i int) bool { return i%2 == 0 }
			odd := func(i int) bool { return i%2 == 1 }
			// (4) disjoint halves in different messages (forces the union definition)
			add("two messages, disjoint halves", [][]genFieldSet{all(0, even), all(1, odd)}, true)
			add("three messages: all, none, half", [][]genFieldSet{all(0, nil), {}, all(1, even)}, true)
			add("three messages: none, half, other half", [][]genFieldSet{{}, all(2, odd), all(0, even)}, true)
			// consecutive messages that differ in exactly one field (either order), for every field
			base := genFieldSet{usable[0].Slot, 0}
			for i, e := range usable {
				if i == 0 {
					continue
				}
				add(fmt.Sprintf("delta +field %d", e.Num), [][]genFieldSet{{base}, {base, {e.Slot, 0}}}, thorough)
				add(fmt.Sprintf("delta -field %d", e.Num), [][]genFieldSet{{base, {e.Slot, 0}}, {base}, {base, {e.Slot, 1 % 2}}}, thorough)
			}
			// the same variable-length field (string / array) set in three messages with different lengths
			for _, e := range usable {
				if e.Base != fitmodel.String && !e.Array {
					continue
				}
				ok := true
				for vi := 0; vi < 3; vi++ {
					probe := fit.VerifNewMesg(fit.MesgNum(gs.Mesg))
					if !genValue(probe.Field(e.Sindex), e, vi, 0) {
						ok = false
					}
				}
				if !ok {
					continue
				}
				order := [][]int{{2, 0, 1}, {0, 2, 1}}
				if e.Array {
					order = [][]int{{1, 0, 2}, {0, 1, 2}}
				} else {
					// strings: every ordered triple of {one letter, multi-byte runes, full length, CJK} - a scratch
					// buffer that is reused without clearing shows as soon as a shorter string follows a longer one
					order = nil
					for a := 0; a < 4; a++ {
						for b := 0; b < 4; b++ {
							for c := 0; c < 4; c++ {
								probe := fit.VerifNewMesg(fit.MesgNum(gs.Mesg))
								if a == 3 || b == 3 || c == 3 {
									if !genValue(probe.Field(e.Sindex), e, 3, 0) {
										continue
									}
								}
								order = append(order, []int{a, b, c})
							}
						}
					}
				}
				for _, o := range order {
					add(fmt.Sprintf("field %d with lengths in order %v", e.Num, o), [][]genFieldSet{{{e.Slot, o[0]}}, {{e.Slot, o[1]}}, {{e.Slot, o[2]}}}, thorough)
				}
			}
			// three messages, each with a different single field (sliding window over the fields)
			for i := 0; i+2 < len(usable); i += 3 {
				add(fmt.Sprintf("three messages with one field each (%d,%d,%d)", usable[i].Num, usable[i+1].Num, usable[i+2].Num),
					[][]genFieldSet{{{usable[i].Slot, 0}}, {{usable[i+1].Slot, 1 % 2}}, {{usable[i+2].Slot, 0}}}, thorough)
			}
			if len(usable) > 1 {
				other := genFieldSet{usable[len(usable)-1].Slot, 0}
				add("delta first field", [][]genFieldSet{{other}, {other, base}}, true)
			}
		}
	}
	return out
}

// allPairsSpecs: all ordered pairs of fields per message (thorough C06).
func pairSpecs(gs genSlot) []genSpec {
	p := prof()
	var usable []fit.VerifField
	for _, e := range p.byMesg[gs.Mesg] {
		if gs.Mesg == 0 && e.Num == 0 {
			continue
		}
		probe := fit.VerifNewMesg(fit.MesgNum(gs.Mesg))
		if genValue(probe.Field(e.Sindex), e, 0, 0) {
			usable = append(usable, e)
		}
	}
	var out []genSpec
	k := 0
	for _, a := range usable {
		for _, b := range usable {
			if a.Slot == b.Slot {
				continue
			}
			out = append(out, genSpec{Slot: gs, Msgs: [][]genFieldSet{{{a.Slot, 0}, {b.Slot, 1 % 2}}}, HdrCRC: k&1 == 0, Big: k&2 != 0, Desc: fmt.Sprintf("pair %d,%d", a.Num, b.Num)})
			k++
		}
	}
	return out
}

// longSliceSpecs: message slices long enough to cross the powers of two a block size, a narrow counter or a cache
// capacity sits at, with one field that is set in a single message only — at the index just below, at and above the
// power, as the last message and followed by two more.
func longSliceSpecs(thorough bool) []genSpec {
	var out []genSpec
	p := prof()
	for _, gs := range genSlots() {
		if gs.Common != "" || !gs.Slot.IsSlice {
			continue
		}
		var usable []fit.VerifField
		for _, e := range p.byMesg[gs.Mesg] {
			probe := fit.VerifNewMesg(fit.MesgNum(gs.Mesg))
			if !e.Array && e.Kind == kindNative && e.Base != fitmodel.String && genValue(probe.Field(e.Sindex), e, 0, 0) {
				usable = append(usable, e)
			}
			if len(usable) == 2 {
				break
			}
		}
		if len(usable) < 2 {
			continue
		}
		ats := []int{255, 4096}
		if gs.Mesg == 20 && gs.FT == byte(fit.FileTypeActivity) {
			ats = []int{254, 255, 256, 4095, 4096, 4097, 8192, 8193, 65535, 65536}
			if thorough {
				ats = append(ats, 1023, 1024, 16383, 16384, 32768, 131072)
			}
		} else if thorough {
			ats = []int{255, 256, 4096, 4097, 65536}
		}
		for k, at := range ats {
			for _, tail := range []int{1, 3} {
				if tail == 3 && at != 4096 && at != 65536 {
					continue
				}
				out = append(out, genSpec{Slot: gs, Msgs: [][]genFieldSet{{{usable[0].Slot, 0}}, {{usable[1].Slot, 0}}}, HdrCRC: k%2 == 0, Big: (k+tail)%2 == 1,
					LongN: at + tail, LongAt: at, Desc: fmt.Sprintf("%d messages with field %d, message #%d alone also carries field %d", at+tail, usable[0].Num, at, usable[1].Num)})
			}
		}
	}
	return out
}
