package props

import (
	"archive/zip"
	"bytes"
	"encoding/json"
	"fmt"
	"go/ast"
	"go/build/constraint"
	"go/importer"
	"go/parser"
	"go/token"
	"go/types"
	"os"
	"os/exec"
	"path/filepath"
	"regexp"
	"sort"
	"strconv"
	"strings"

	"verif/vx"
	"verif/xlsxlite"
)

// C19: fitgen yields valid, deterministic code for every product-profile selection.

const (
	colMsg, colNum, colName, colType, colArray, colComps = 0, 1, 2, 3, 4, 5
	colRefName, colExample                               = 11, 15
)

type wbField struct {
	Row     int
	Num     int
	Name    string
	Type    string
	Array   string
	Comps   []string
	Example string
	Subs    []wbSub
}

type wbSub struct {
	Row     int
	Name    string
	Comps   []string
	Refs    []string
	Example string
}

type wbMsg struct {
	Name   string
	Fields []*wbField
}

func (f *wbField) enabled() bool { return f.Example != "" && f.Example != "0" }
func (s *wbSub) enabled() bool   { return s.Example != "" && s.Example != "0" }

func splitList(s string) []string {
	var out []string
	for _, p := range strings.Split(s, ",") {
		if p = strings.TrimSpace(p); p != "" {
			out = append(out, p)
		}
	}
	return out
}

// readProfile is the independent reading of the Messages and Types sheets.
func readProfile(wb *xlsxlite.Workbook) ([]*wbMsg, map[string]string, error) {
	if len(wb.Sheets) < 2 {
		return nil, nil, fmt.Errorf("workbook has %d sheets", len(wb.Sheets))
	}
	ts, ms := wb.Sheets[0], wb.Sheets[1]
	if !strings.Contains(strings.ToLower(ms.Cell(1, 0)), "message") {
		return nil, nil, fmt.Errorf("sheet 2 does not look like the Messages sheet (A1=%q)", ms.Cell(1, 0))
	}
	baseOf := map[string]string{}
	for r := 2; r <= ts.Max; r++ {
		if n := ts.Cell(r, 0); n != "" {
			baseOf[n] = ts.Cell(r, 1)
		}
	}
	var msgs []*wbMsg
	var cur *wbMsg
	var last *wbField
	for r := 2; r <= ms.Max; r++ {
		if n := ms.Cell(r, colMsg); n != "" {
			cur = &wbMsg{Name: n}
			msgs = append(msgs, cur)
			last = nil
			continue
		}
		if cur == nil {
			continue
		}
		name := ms.Cell(r, colName)
		if name == "" {
			continue
		}
		if ns := ms.Cell(r, colNum); ns != "" {
			num, err := strconv.Atoi(ns)
			if err != nil {
				continue
			}
			last = &wbField{Row: r, Num: num, Name: name, Type: ms.Cell(r, colType), Array: ms.Cell(r, colArray), Comps: splitList(ms.Cell(r, colComps)), Example: ms.Cell(r, colExample)}
			cur.Fields = append(cur.Fields, last)
		} else if last != nil {
			last.Subs = append(last.Subs, wbSub{Row: r, Name: name, Comps: splitList(ms.Cell(r, colComps)), Refs: splitList(ms.Cell(r, colRefName)), Example: ms.Cell(r, colExample)})
		}
	}
	return msgs, baseOf, nil
}

func camel(s string) string {
	parts := strings.Split(s, "_")
	for i, p := range parts {
		if p != "" {
			parts[i] = strings.ToUpper(p[:1]) + p[1:]
		}
	}
	return strings.Join(parts, "")
}

var baseIndex = map[string]int{"enum": 0, "sint8": 1, "uint8": 2, "sint16": 3, "uint16": 4, "sint32": 5, "uint32": 6, "string": 7, "float32": 8, "float64": 9,
	"uint8z": 10, "uint16z": 11, "uint32z": 12, "byte": 13, "sint64": 14, "uint64": 15, "uint64z": 16, "unit8": 2, "bool": 0}

func expectedBase(f *wbField, baseOf map[string]string) (int, bool) {
	if strings.HasSuffix(f.Name, "_lat") || strings.HasSuffix(f.Name, "_long") {
		return 5, true
	}
	t := f.Type
	if b, ok := baseOf[t]; ok {
		t = b
	}
	i, ok := baseIndex[t]
	return i, ok
}

// ---- generated code audit ----

type genEntry struct {
	Sindex, Num, Fit, Length int
}

type genCode struct {
	structs map[string][]string         // XMsg -> field names in order
	fields  map[string]map[int]genEntry // MesgNumX -> slot -> entry
	sdk     string
	major   string
	minor   string
}

func intLit(e ast.Expr) (int, bool) {
	switch x := e.(type) {
	case *ast.BasicLit:
		v, err := strconv.ParseInt(x.Value, 0, 64)
		return int(v), err == nil
	case *ast.CallExpr:
		if len(x.Args) == 1 {
			return intLit(x.Args[0])
		}
	case *ast.ParenExpr:
		return intLit(x.X)
	}
	return 0, false
}

var sdkLineRe = regexp.MustCompile(`(?m)^// SDK Version: (\S+)`)

func auditParse(dir string) (*genCode, error) {
	g := &genCode{structs: map[string][]string{}, fields: map[string]map[int]genEntry{}}
	fset := token.NewFileSet()
	mf, err := parser.ParseFile(fset, filepath.Join(dir, "messages.go"), nil, parser.ParseComments)
	if err != nil {
		return nil, fmt.Errorf("messages.go does not parse: %v", err)
	}
	for _, d := range mf.Decls {
		gd, ok := d.(*ast.GenDecl)
		if !ok || gd.Tok != token.TYPE {
			continue
		}
		for _, sp := range gd.Specs {
			ts := sp.(*ast.TypeSpec)
			st, ok := ts.Type.(*ast.StructType)
			if !ok {
				continue
			}
			names := []string{}
			for _, f := range st.Fields.List {
				for _, n := range f.Names {
					names = append(names, n.Name)
				}
			}
			g.structs[ts.Name.Name] = names
		}
	}
	src, err := os.ReadFile(filepath.Join(dir, "profile.go"))
	if err != nil {
		return nil, err
	}
	if m := sdkLineRe.FindSubmatch(src); m != nil {
		g.sdk = string(m[1])
	}
	pf, err := parser.ParseFile(fset, filepath.Join(dir, "profile.go"), src, 0)
	if err != nil {
		return nil, fmt.Errorf("profile.go does not parse: %v", err)
	}
	for _, d := range pf.Decls {
		gd, ok := d.(*ast.GenDecl)
		if !ok {
			continue
		}
		for _, sp := range gd.Specs {
			vs, ok := sp.(*ast.ValueSpec)
			if !ok {
				continue
			}
			for i, n := range vs.Names {
				if i >= len(vs.Values) {
					continue
				}
				switch n.Name {
				case "ProfileMajorVersion":
					if v, ok := intLit(vs.Values[i]); ok {
						g.major = strconv.Itoa(v)
					}
				case "ProfileMinorVersion":
					if v, ok := intLit(vs.Values[i]); ok {
						g.minor = strconv.Itoa(v)
					}
				case "_fields":
					cl, ok := vs.Values[i].(*ast.CompositeLit)
					if !ok {
						continue
					}
					for _, el := range cl.Elts {
						kv, ok := el.(*ast.KeyValueExpr)
						if !ok {
							continue
						}
						key, ok := kv.Key.(*ast.Ident)
						if !ok {
							continue
						}
						row := map[int]genEntry{}
						if inner, ok := kv.Value.(*ast.CompositeLit); ok {
							for _, e2 := range inner.Elts {
								kv2, ok := e2.(*ast.KeyValueExpr)
								if !ok {
									continue
								}
								slot, ok := intLit(kv2.Key)
								if !ok {
									continue
								}
								ecl, ok := kv2.Value.(*ast.CompositeLit)
								if !ok || len(ecl.Elts) != 4 {
									continue
								}
								var ge genEntry
								ge.Sindex, _ = intLit(ecl.Elts[0])
								ge.Num, _ = intLit(ecl.Elts[1])
								ge.Fit, _ = intLit(ecl.Elts[2])
								ge.Length, _ = intLit(ecl.Elts[3])
								row[slot] = ge
							}
						}
						g.fields[key.Name] = row
					}
				}
			}
		}
	}
	return g, nil
}

// audit compares generated code with the independent workbook reading.
func audit(g *genCode, msgs []*wbMsg, baseOf map[string]string) []string {
	var out []string
	for _, m := range msgs {
		cc := camel(m.Name)
		st, hasStruct := g.structs[cc+"Msg"]
		row := g.fields["MesgNum"+cc]
		var enabled []*wbField
		for _, f := range m.Fields {
			if f.enabled() {
				enabled = append(enabled, f)
			}
		}
		if !hasStruct {
			if len(enabled) > 0 {
				out = append(out, fmt.Sprintf("message %s: no struct %sMsg generated although %d rows are enabled", m.Name, cc, len(enabled)))
			}
			continue
		}
		if len(st) != len(enabled) {
			out = append(out, fmt.Sprintf("message %s: struct has %d fields %v, workbook has %d enabled rows", m.Name, len(st), st, len(enabled)))
			continue
		}
		if len(row) != len(enabled) {
			out = append(out, fmt.Sprintf("message %s: lookup table has %d entries, workbook has %d enabled rows", m.Name, len(row), len(enabled)))
		}
		for i, f := range enabled {
			if st[i] != camel(f.Name) {
				out = append(out, fmt.Sprintf("message %s: struct field #%d is %s, enabled row %d is %s", m.Name, i, st[i], f.Row, f.Name))
			}
			e, ok := row[f.Num]
			if !ok {
				out = append(out, fmt.Sprintf("message %s: no lookup entry for field number %d (%s)", m.Name, f.Num, f.Name))
				continue
			}
			if e.Num != f.Num || e.Sindex != i {
				out = append(out, fmt.Sprintf("message %s field %d (%s): lookup entry {sindex %d, num %d}, expected {sindex %d, num %d}", m.Name, f.Num, f.Name, e.Sindex, e.Num, i, f.Num))
			}
			if wantBase, ok := expectedBase(f, baseOf); ok && e.Fit&0x1F != wantBase {
				out = append(out, fmt.Sprintf("message %s field %d (%s): base type index %d, workbook type %s has %d", m.Name, f.Num, f.Name, e.Fit&0x1F, f.Type, wantBase))
			}
			wantArray := f.Array != ""
			if (e.Fit&0x20 != 0) != wantArray {
				out = append(out, fmt.Sprintf("message %s field %d (%s): array flag %v, workbook array column %q", m.Name, f.Num, f.Name, e.Fit&0x20 != 0, f.Array))
			}
		}
		for slot, e := range row {
			found := false
			for _, f := range enabled {
				if f.Num == slot {
					found = true
				}
			}
			if !found {
				out = append(out, fmt.Sprintf("message %s: lookup entry for field number %d (sindex %d) but no enabled workbook row", m.Name, slot, e.Sindex))
			}
		}
	}
	sort.Strings(out)
	return out
}

// ---- type check of generated + support code ----

var generatedNames = map[string]bool{"messages.go": true, "types.go": true, "profile.go": true, "types_string.go": true}

type tcResult struct {
	genErrs     []string
	supportErrs []string
	selected    map[string]bool // "XMsg.Field" selected by hand-written code
}

var c19Importer types.Importer

func typeCheckWith(genDir string) (*tcResult, error) {
	fset := token.NewFileSet()
	var files []*ast.File
	ents, err := os.ReadDir(repoRoot)
	if err != nil {
		return nil, err
	}
	isGen := map[*ast.File]bool{}
	for _, e := range ents {
		n := e.Name()
		if e.IsDir() || !strings.HasSuffix(n, ".go") || strings.HasSuffix(n, "_test.go") || generatedNames[n] {
			continue
		}
		src, err := os.ReadFile(filepath.Join(repoRoot, n))
		if err != nil {
			return nil, err
		}
		f, err := parser.ParseFile(fset, n, src, parser.ParseComments)
		if err != nil {
			return nil, fmt.Errorf("hand-written %s does not parse: %v", n, err)
		}
		skip := false
		for _, cg := range f.Comments {
			if cg.Pos() > f.Package {
				break
			}
			for _, c := range cg.List {
				if constraint.IsGoBuild(c.Text) {
					if ex, err := constraint.Parse(c.Text); err == nil && !ex.Eval(func(tag string) bool { return tag == "linux" || tag == "amd64" || strings.HasPrefix(tag, "go1") }) {
						skip = true
					}
				}
			}
		}
		if !skip {
			files = append(files, f)
		}
	}
	res := &tcResult{selected: map[string]bool{}}
	for n := range generatedNames {
		src, err := os.ReadFile(filepath.Join(genDir, n))
		if err != nil {
			return nil, fmt.Errorf("generated file %s missing: %v", n, err)
		}
		f, err := parser.ParseFile(fset, n, src, 0)
		if err != nil {
			res.genErrs = append(res.genErrs, fmt.Sprintf("%s: does not parse: %v", n, err))
			continue
		}
		files = append(files, f)
		isGen[f] = true
	}
	if c19Importer == nil {
		c19Importer = importer.ForCompiler(token.NewFileSet(), "source", nil)
	}
	info := &types.Info{Selections: map[*ast.SelectorExpr]*types.Selection{}}
	posRe := regexp.MustCompile(`^[^:]+:\d+:\d+: `)
	conf := types.Config{Importer: c19Importer, Error: func(err error) {
		te, ok := err.(types.Error)
		if !ok {
			return
		}
		file := filepath.Base(te.Fset.Position(te.Pos).Filename)
		msg := file + ": " + posRe.ReplaceAllString(te.Msg, "")
		if generatedNames[file] {
			res.genErrs = append(res.genErrs, msg)
		} else {
			res.supportErrs = append(res.supportErrs, msg)
		}
	}}
	conf.Check("github.com/tormoder/fit", fset, files, info)
	for sel, s := range info.Selections {
		if s.Kind() != types.FieldVal {
			continue
		}
		file := filepath.Base(fset.Position(sel.Pos()).Filename)
		if generatedNames[file] {
			continue
		}
		recv := s.Recv()
		if p, ok := recv.(*types.Pointer); ok {
			recv = p.Elem()
		}
		if named, ok := recv.(*types.Named); ok && strings.HasSuffix(named.Obj().Name(), "Msg") {
			res.selected[named.Obj().Name()+"."+s.Obj().Name()] = true
		}
	}
	sort.Strings(res.genErrs)
	sort.Strings(res.supportErrs)
	return res, nil
}

// ---- running the real command ----

type c19Env struct {
	fitgen   string
	scratch  string
	n        int
	w        *vx.W
	extraEnv []string
}

// alive: the command under test must still be where the harness built it; anything else is a harness problem and
// must never be reported as the command failing.
func (e *c19Env) alive() {
	if _, err := os.Stat(e.fitgen); err != nil && e.w != nil {
		e.w.HarnessError("the fitgen binary built for this run disappeared: %v", err)
	}
}

func (e *c19Env) run(input string, sdk string) (string, string, error) {
	return e.runOver(input, sdk, "")
}

// runProcs: like run, with GOMAXPROCS set for the command.
func (e *c19Env) runProcs(input string, sdk string, procs string) (string, string, error) {
	e.extraEnv = []string{"GOMAXPROCS=" + procs}
	defer func() { e.extraEnv = nil }()
	return e.runOver(input, sdk, "")
}

// runOver: like run, but the output directory already holds an earlier, larger output (every generated file of
// `earlier` followed by leftover text), as it does whenever a user regenerates in place.
// runRel: like run, but the command is started in the scratch directory and given the output directory as a
// relative path (`rel`, e.g. "gen", "src/fit" or "."); returns the absolute directory that should hold the output.
func (e *c19Env) runRel(input string, sdk string, rel string) (string, string, string, error) {
	e.alive()
	e.n++
	cwd := filepath.Join(e.scratch, fmt.Sprintf("cwd%d", e.n))
	out := filepath.Join(cwd, rel)
	os.MkdirAll(out, 0o755)
	args := []string{}
	if sdk != "" {
		args = append(args, "-sdk", sdk)
	}
	args = append(args, input, rel)
	cmd := exec.Command(e.fitgen, args...)
	cmd.Dir = cwd
	cmd.Env = goEnv()
	b, err := cmd.CombinedOutput()
	return out, cwd, string(b), err
}

func (e *c19Env) runOver(input string, sdk string, earlier string) (string, string, error) {
	e.alive()
	e.n++
	out := filepath.Join(e.scratch, fmt.Sprintf("out%d", e.n))
	os.MkdirAll(out, 0o755)
	if earlier != "" {
		for n := range generatedNames {
			if b, err := os.ReadFile(filepath.Join(earlier, n)); err == nil {
				b = append(b, []byte(strings.Repeat("\n// leftover of an earlier, larger output\nvar _ = 0\n", 40))...)
				os.WriteFile(filepath.Join(out, n), b, 0o644)
			}
		}
	}
	args := []string{}
	if sdk != "" {
		args = append(args, "-sdk", sdk)
	}
	args = append(args, input, out)
	cmd := exec.Command(e.fitgen, args...)
	cmd.Dir = repoRoot
	cmd.Env = append(goEnv(), e.extraEnv...)
	b, err := cmd.CombinedOutput()
	return out, string(b), err
}

// runPrepared: like run, but the output directory already holds the given files.
func (e *c19Env) runPrepared(input string, sdk string, files map[string][]byte) (string, string, error) {
	e.alive()
	e.n++
	out := filepath.Join(e.scratch, fmt.Sprintf("out%d", e.n))
	os.MkdirAll(out, 0o755)
	for n, b := range files {
		os.WriteFile(filepath.Join(out, n), b, 0o644)
	}
	args := []string{}
	if sdk != "" {
		args = append(args, "-sdk", sdk)
	}
	args = append(args, input, out)
	cmd := exec.Command(e.fitgen, args...)
	cmd.Dir = repoRoot
	cmd.Env = append(goEnv(), e.extraEnv...)
	b, err := cmd.CombinedOutput()
	return out, string(b), err
}

func dirsEqual(a, b string) string {
	for n := range generatedNames {
		x, e1 := os.ReadFile(filepath.Join(a, n))
		y, e2 := os.ReadFile(filepath.Join(b, n))
		if e1 != nil || e2 != nil {
			return fmt.Sprintf("%s missing (%v / %v)", n, e1, e2)
		}
		if !bytes.Equal(x, y) {
			return n + " differs between the two runs"
		}
	}
	return ""
}

type c19Toggle struct {
	Row   int    `json:"row"`
	Value string `json:"value"`
	What  string `json:"what"`
}

type c19Replay struct {
	Workbook string      `json:"workbook"`
	Toggles  []c19Toggle `json:"toggles"`
	Form     string      `json:"input_form"`
}

func init() {
	vx.Register(&vx.Prop{
		ID:    "C19",
		Level: "exploration",
		Rule: "the fitgen command built from the tree is run on product-profile selections: deviation 0 = each of the 5 bundled workbooks as .xlsx with -sdk and as FitSDKRelease_X.Y.zip, each twice, as a neutrally named zip with -sdk, and as a named zip with -sdk naming another version (the flag overrides); deviation 1 = every single-row toggle of the example column (disable an enabled row / enable a disabled one) that an independent dependency analysis allows, quick: the messages of 21.40 that carry components or subfields, thorough: every message of all 5 workbooks; subfield rows of dynamic fields disabled individually and all together; deviation 2 = dependency-closed pairs (a field with enabled subfields together with the reference field they switch on; a component source together with one of its targets). " +
			"Oracle: exit status 0, the four files byte-identical across the two runs (the second run regenerates in place, into a directory that already holds a larger earlier output; and across input forms), declared SDK version, audit of struct fields and lookup entries against an independent stdlib reading of the workbook (one field + one entry per enabled row with its number, base type, array flag; nothing for disabled rows), and a go/types check of the generated files together with the hand-written support code: any error located in a generated file, or any support-code error outside the stock skew set of that workbook, is a violation. distinct = distinct generated outputs",
		Assumptions: []string{"rows with components, component targets, subfield reference fields of enabled rows and fields the hand-written code selects are not toggled (this only narrows the explored set)", "the 21.115 workbook the checked-in profile was generated from is not in the repository"},
		Run:         runC19,
		QuickBudget: 280, ThoroughBudget: 3300,
	})
}

func runC19(w *vx.W) {
	thorough := !w.Quick()
	os.Chdir(repoRoot)
	scratch, err := os.MkdirTemp(os.Getenv("VX_SCRATCH"), "c19-")
	if err != nil {
		w.HarnessError("%v", err)
	}
	defer os.RemoveAll(scratch)
	env := &c19Env{fitgen: filepath.Join(scratch, "fitgen"), scratch: scratch, w: w}
	b := exec.Command("go", "build", "-o", env.fitgen, "./cmd/fitgen")
	b.Dir = repoRoot
	b.Env = goEnv()
	if out, err := b.CombinedOutput(); err != nil {
		w.HarnessError("building fitgen failed: %v\n%s", err, trunc(string(out), 2000))
	}
	tdDir := filepath.Join(repoRoot, "cmd", "fitgen", "internal", "profile", "testdata")
	versions := []string{"21.40", "16.20", "20.14", "20.27", "20.43"}
	var caseNo int64

	type stock struct {
		skew     map[string]bool
		selected map[string]bool
		msgs     []*wbMsg
		baseOf   map[string]string
		data     []byte
	}
	stocks := map[string]*stock{}

	// check one variant; returns the generated dir
	var checkVariantDesc func(ver string, st *stock, toggles []c19Toggle, data []byte, msgs []*wbMsg, desc string, all []c19Toggle)
	checkVariant := func(ver string, st *stock, toggles []c19Toggle, data []byte, msgs []*wbMsg) {
		checkVariantDesc(ver, st, toggles, data, msgs, "", nil)
	}
	checkVariantDesc = func(ver string, st *stock, toggles []c19Toggle, data []byte, msgs []*wbMsg, desc string, all []c19Toggle) {
		rep := c19Replay{Workbook: ver + ".xlsx", Toggles: toggles, Form: "xlsx"}
		if all != nil {
			rep.Toggles = all
		}
		if desc == "" {
			desc = fmt.Sprintf("workbook %s toggles %v", ver, toggles)
		}
		in := filepath.Join(scratch, fmt.Sprintf("in%d.xlsx", env.n))
		os.WriteFile(in, data, 0o644)
		defer os.Remove(in)
		d1, log1, err1 := env.run(in, ver)
		// the repeat goes into a directory that already holds (larger) output, as when regenerating in place
		d2, _, err2 := env.runOver(in, ver, d1)
		defer os.RemoveAll(d1)
		defer os.RemoveAll(d2)
		w.Eval(2)
		if err1 != nil || err2 != nil {
			w.Violation("fitgen-fails", fmt.Sprintf("%s: fitgen exits with %v: %s", desc, err1, trunc(lastLines(log1, 3), 400)), rep)
			return
		}
		if d := dirsEqual(d1, d2); d != "" {
			w.Violation("nondeterministic-output", desc+" (second run into a directory holding earlier, larger output): "+d, rep)
			return
		}
		if h, err := os.ReadFile(filepath.Join(d1, "messages.go")); err == nil {
			w.Distinct(vx.HashB(h))
		}
		g, err := auditParse(d1)
		if err != nil {
			w.Violation("generated-code-invalid", desc+": "+err.Error(), rep)
			return
		}
		parts := strings.SplitN(ver, ".", 2)
		if g.sdk != ver || g.major != parts[0] || g.minor != strings.TrimLeft(parts[1], "0") && g.minor != parts[1] {
			w.Violation("sdk-version", fmt.Sprintf("%s: generated code declares SDK %q, major %s minor %s; requested %s", desc, g.sdk, g.major, g.minor, ver), rep)
		}
		if diffs := audit(g, msgs, st.baseOf); len(diffs) > 0 {
			w.Violation("audit", fmt.Sprintf("%s: generated code disagrees with the workbook: %s (%d differences)", desc, diffs[0], len(diffs)), rep)
		}
		tc, err := typeCheckWith(d1)
		if err != nil {
			w.Violation("generated-code-invalid", desc+": "+err.Error(), rep)
			return
		}
		if len(tc.genErrs) > 0 {
			w.Violation("generated-code-does-not-compile", fmt.Sprintf("%s: %s (%d errors in generated files)", desc, tc.genErrs[0], len(tc.genErrs)), rep)
		}
		for _, e := range tc.supportErrs {
			if st.skew == nil {
				continue
			}
			if !st.skew[e] {
				w.Violation("support-code-breaks", fmt.Sprintf("%s: hand-written code no longer compiles with the generated output: %s", desc, e), rep)
				break
			}
		}
		if st.skew == nil {
			st.skew = map[string]bool{}
			for _, e := range tc.supportErrs {
				st.skew[e] = true
			}
			st.selected = tc.selected
		}
	}

	for _, ver := range versions {
		data, err := os.ReadFile(filepath.Join(tdDir, ver+".xlsx"))
		if err != nil {
			w.HarnessError("%v", err)
		}
		wb, err := xlsxlite.Open(data)
		if err != nil {
			w.HarnessError("independent reader cannot open %s.xlsx: %v", ver, err)
		}
		msgs, baseOf, err := readProfile(wb)
		if err != nil {
			w.HarnessError("%s: %v", ver, err)
		}
		st := &stock{msgs: msgs, baseOf: baseOf, data: data}
		stocks[ver] = st
		if ver != "21.40" && !thorough && !w.Mine(caseNo+int64(len(ver))) {
			// quick: the other workbooks' deviation-0 runs are spread over the workers
		}
		// ---- deviation 0 (every worker needs the stock skew set of the workbooks it explores)
		needStock := ver == "21.40" || thorough
		caseNo++
		mineD0 := w.Mine(caseNo)
		if !needStock && !mineD0 {
			continue
		}
		checkVariant(ver, st, nil, data, msgs)
		if mineD0 {
			w.Fam("deviation-0", 1)
			// zip input form must give the same output
			zpath := filepath.Join(scratch, "FitSDKRelease_"+ver+".zip")
			var zb bytes.Buffer
			zw := zip.NewWriter(&zb)
			f1, _ := zw.Create("FitSDKRelease_" + ver + ".00/readme.txt")
			f1.Write([]byte("x"))
			f2, _ := zw.Create("FitSDKRelease_" + ver + ".00/Profile.xlsx")
			f2.Write(data)
			zw.Close()
			os.WriteFile(zpath, zb.Bytes(), 0o644)
			dz, logz, errz := env.run(zpath, "")
			dx, _, errx := env.run(writeTemp(scratch, "stock.xlsx", data), ver)
			w.Eval(2)
			rep := c19Replay{Workbook: ver + ".xlsx", Form: "zip"}
			if errz != nil || errx != nil {
				w.Violation("fitgen-fails", fmt.Sprintf("workbook %s as SDK zip: fitgen exits with %v: %s", ver, errz, trunc(lastLines(logz, 3), 400)), rep)
			} else if d := dirsEqual(dz, dx); d != "" {
				w.Violation("zip-vs-xlsx", fmt.Sprintf("workbook %s: output for the SDK zip differs from the output for the .xlsx with -sdk: %s", ver, d), rep)
			}
			// the -sdk flag "provides or overrides" the version for either input form: a zip with a neutral name plus
			// -sdk, and a zip named for this version plus -sdk naming another one
			{
				gz := filepath.Join(scratch, "sdk-download.zip")
				os.WriteFile(gz, zb.Bytes(), 0o644)
				dg, logg, errg := env.run(gz, ver)
				w.Eval(1)
				if errg != nil {
					w.Violation("fitgen-fails", fmt.Sprintf("workbook %s as a zip with a neutral name and -sdk %s: fitgen exits with %v: %s", ver, ver, errg, trunc(lastLines(logg, 3), 400)), rep)
				} else if errx == nil {
					if d := dirsEqual(dg, dx); d != "" {
						w.Violation("zip-vs-xlsx", fmt.Sprintf("workbook %s: output for a neutrally named zip with -sdk differs from the output for the .xlsx: %s", ver, d), rep)
					}
				}
				os.RemoveAll(dg)
				other := "16.20"
				if ver == other {
					other = "21.40"
				}
				do, logo, erro := env.run(zpath, other)
				w.Eval(1)
				if erro != nil {
					w.Violation("fitgen-fails", fmt.Sprintf("SDK zip of %s with -sdk %s: fitgen exits with %v: %s", ver, other, erro, trunc(lastLines(logo, 3), 400)), rep)
				} else if g, err := auditParse(do); err != nil {
					w.Violation("generated-code-invalid", fmt.Sprintf("SDK zip of %s with -sdk %s: %v", ver, other, err), rep)
				} else if g.sdk != other {
					w.Violation("sdk-version", fmt.Sprintf("SDK zip of %s with -sdk %s: generated code declares SDK %q (the flag overrides the archive name)", ver, other, g.sdk), rep)
				}
				os.RemoveAll(do)
				w.Fam("sdk-flag-with-zip", 2)
			}
			// the command under other processor counts (a single-CPU container, an odd count)
			if errx == nil {
				for _, g := range []string{"1", "3"} {
					dp, logp, errp := env.runProcs(writeTemp(scratch, "stock.xlsx", data), ver, g)
					w.Eval(1)
					w.Fam("processor-counts", 1)
					if errp != nil {
						w.Violation("fitgen-fails", fmt.Sprintf("workbook %s under GOMAXPROCS=%s: fitgen exits with %v: %s", ver, g, errp, trunc(lastLines(logp, 3), 400)), rep)
					} else if d := dirsEqual(dp, dx); d != "" {
						w.Violation("output-depends-on-processor-count", fmt.Sprintf("workbook %s: output under GOMAXPROCS=%s differs from the output under the default processor count: %s", ver, g, d), rep)
					}
					os.RemoveAll(dp)
				}
			}
			// the output directory given as a relative path (the command started elsewhere than in the repository)
			if errx == nil {
				for _, rel := range []string{"gen", "src/fit", "."} {
					dr, cwdr, logr, errr := env.runRel(writeTemp(scratch, "stock.xlsx", data), ver, rel)
					w.Eval(1)
					w.Fam("relative-output-directory", 1)
					if errr != nil {
						w.Violation("fitgen-fails", fmt.Sprintf("workbook %s with the relative output directory %q: fitgen exits with %v: %s", ver, rel, errr, trunc(lastLines(logr, 3), 400)), rep)
					} else if d := dirsEqual(dr, dx); d != "" {
						w.Violation("output-depends-on-directory-form", fmt.Sprintf("workbook %s: output in the relative directory %q differs from the output in an absolute one: %s", ver, rel, d), rep)
					}
					os.RemoveAll(cwdr)
				}
			}
			// the output directory as an environment answer: it already holds this very output except for one file,
			// which is the same-named file generated from another SDK version, or cut in half (an interrupted
			// earlier run, a hand-edited table) — the finished run must leave exactly the fresh output
			if errx == nil {
				other := "16.20"
				if ver == other {
					other = "21.40"
				}
				od, _ := os.ReadFile(filepath.Join(tdDir, other+".xlsx"))
				dother, _, erro := env.run(writeTemp(scratch, "other.xlsx", od), other)
				var gn []string
				for n := range generatedNames {
					gn = append(gn, n)
				}
				sort.Strings(gn)
				modes := []string{"from-another-sdk-version", "cut-in-half"}
				if thorough {
					modes = append(modes, "empty")
				}
				for _, n := range gn {
					for _, mode := range modes {
						files := map[string][]byte{}
						for _, m := range gn {
							b, err := os.ReadFile(filepath.Join(dx, m))
							if err != nil {
								continue
							}
							if m == n {
								switch mode {
								case "from-another-sdk-version":
									if erro != nil {
										continue
									}
									b, _ = os.ReadFile(filepath.Join(dother, m))
								case "cut-in-half":
									b = b[:len(b)/2]
								case "empty":
									b = nil
								}
							}
							files[m] = b
						}
						dp, logp, errp := env.runPrepared(writeTemp(scratch, "stock.xlsx", data), ver, files)
						w.Eval(1)
						w.Fam("output-directory-already-holds-files", 1)
						if errp != nil {
							w.Violation("fitgen-fails", fmt.Sprintf("workbook %s into a directory that holds the output with %s %s: fitgen exits with %v: %s", ver, n, mode, errp, trunc(lastLines(logp, 3), 400)), rep)
						} else if d := dirsEqual(dp, dx); d != "" {
							w.Violation("output-depends-on-directory-content", fmt.Sprintf("workbook %s into a directory that already holds the output with %s %s: result differs from the output into an empty directory: %s", ver, n, mode, d), rep)
						}
						os.RemoveAll(dp)
					}
				}
				os.RemoveAll(dother)
			}
			os.RemoveAll(dz)
			os.RemoveAll(dx)
			// known finding K7: the stock output does not compile with today's support code
			if len(st.skew) > 0 {
				var es []string
				for e := range st.skew {
					es = append(es, e)
				}
				sort.Strings(es)
				w.Known("stock-skew/"+ver, fmt.Sprintf("workbook %s: %d support-code errors, e.g. %s", ver, len(es), es[0]), rep)
			}
		}
		if ver != "21.40" && !thorough {
			continue
		}
		// ---- deviation 1: single-row toggles
		targets := map[string]bool{} // "msg.field" needed by enabled rows
		for _, m := range msgs {
			for _, f := range m.Fields {
				if !f.enabled() {
					continue
				}
				for _, c := range f.Comps {
					targets[m.Name+"."+c] = true
				}
				for _, s := range f.Subs {
					if !s.enabled() {
						continue
					}
					for _, c := range s.Comps {
						targets[m.Name+"."+c] = true
					}
					for _, r := range s.Refs {
						targets[m.Name+"."+r] = true
					}
				}
			}
		}
		for mi, m := range msgs {
			interesting := false
			for _, f := range m.Fields {
				if len(f.Comps) > 0 || len(f.Subs) > 0 {
					interesting = true
				}
			}
			if !thorough && !interesting {
				continue
			}
			for fi, f := range m.Fields {
				var tg *c19Toggle
				key := m.Name + "." + f.Name
				if f.enabled() {
					if len(f.Comps) > 0 || targets[key] || st.selected[camel(m.Name)+"Msg."+camel(f.Name)] {
						w.Fam("protected-rows", 1)
						continue
					}
					tg = &c19Toggle{f.Row, "0", "disable " + key}
				} else {
					ok := len(f.Comps) == 0
					for _, s := range f.Subs {
						if s.enabled() {
							for _, r := range append(append([]string{}, s.Refs...), s.Comps...) {
								found := false
								for _, f2 := range m.Fields {
									if f2.Name == r && f2.enabled() {
										found = true
									}
								}
								if !found {
									ok = false
								}
							}
						}
					}
					if !ok {
						w.Fam("protected-rows", 1)
						continue
					}
					tg = &c19Toggle{f.Row, "1", "enable " + key}
				}
				caseNo++
				if !w.Mine(caseNo) {
					continue
				}
				if w.Expired("single-row toggles") {
					return
				}
				wb2, _ := xlsxlite.Open(data)
				if err := wb2.SetNumber(wb2.Sheets[1], tg.Row, colExample, tg.Value); err != nil {
					w.HarnessError("editing %s row %d: %v", ver, tg.Row, err)
				}
				nb, _ := wb2.Bytes()
				// the model's view of the variant
				old := f.Example
				f.Example = tg.Value
				checkVariant(ver, st, []c19Toggle{*tg}, nb, msgs)
				f.Example = old
				w.Fam("deviation-1/"+ver, 1)
				if mi == 20 && fi == 1 {
					w.Sample(map[string]interface{}{"workbook": ver, "toggle": tg})
				}
			}
		}
	}
	// ---- class toggles: every unprotected row of one type (date_time, local_date_time, string, float32, byte, bool,
	// every array, every row with a scale, ...) disabled at once - the profiles in which a whole kind of field is gone
	// (imports, helpers and tables that exist for that kind must go or stay consistently)
	for _, ver := range versions {
		st := stocks[ver]
		if st == nil || st.skew == nil || (ver != "21.40" && !thorough) {
			continue
		}
		targets := map[string]bool{}
		for _, m := range st.msgs {
			for _, f := range m.Fields {
				if !f.enabled() {
					continue
				}
				for _, c := range f.Comps {
					targets[m.Name+"."+c] = true
				}
				for _, sb := range f.Subs {
					if !sb.enabled() {
						continue
					}
					for _, c := range sb.Comps {
						targets[m.Name+"."+c] = true
					}
					for _, r := range sb.Refs {
						targets[m.Name+"."+r] = true
					}
				}
			}
		}
		classes := map[string]func(f *wbField) bool{}
		typeCount := map[string]int{}
		for _, m := range st.msgs {
			for _, f := range m.Fields {
				if f.enabled() {
					typeCount[f.Type]++
				}
			}
		}
		baseTypes := map[string]bool{"date_time": true, "local_date_time": true, "string": true, "float32": true, "float64": true, "byte": true, "bool": true, "enum": true,
			"sint8": true, "sint16": true, "sint32": true, "sint64": true, "uint8": true, "uint16": true, "uint32": true, "uint64": true, "uint8z": true, "uint16z": true, "uint32z": true, "uint64z": true}
		for t := range typeCount {
			tt := t
			if baseTypes[tt] {
				classes["type "+tt] = func(f *wbField) bool { return f.Type == tt }
			}
		}
		classes["every profile-defined (enum-like) type"] = func(f *wbField) bool { return !baseTypes[f.Type] }
		classes["every array"] = func(f *wbField) bool { return f.Array != "" }
		classes["every non-array"] = func(f *wbField) bool { return f.Array == "" }
		var names []string
		for n := range classes {
			names = append(names, n)
		}
		sort.Strings(names)
		for _, cn := range names {
			caseNo++
			if !w.Mine(caseNo) {
				continue
			}
			if w.Expired("class toggles") {
				return
			}
			wb2, _ := xlsxlite.Open(st.data)
			var tgs []c19Toggle
			var changed []*wbField
			for _, m := range st.msgs {
				for _, f := range m.Fields {
					key := m.Name + "." + f.Name
					if !f.enabled() || !classes[cn](f) || len(f.Comps) > 0 || targets[key] || st.selected[camel(m.Name)+"Msg."+camel(f.Name)] {
						continue
					}
					enabledSub := false
					for _, sb := range f.Subs {
						if sb.enabled() {
							enabledSub = true
						}
					}
					if enabledSub {
						continue // a row with live subfields keeps them company (deviation 2 handles those)
					}
					wb2.SetNumber(wb2.Sheets[1], f.Row, colExample, "0")
					tgs = append(tgs, c19Toggle{f.Row, "0", "disable " + key})
					changed = append(changed, f)
				}
			}
			if len(tgs) < 2 {
				continue
			}
			nb, _ := wb2.Bytes()
			old := make([]string, len(changed))
			for i, f := range changed {
				old[i], f.Example = f.Example, "0"
			}
			short := tgs
			if len(short) > 6 {
				short = append(append([]c19Toggle{}, tgs[:5]...), c19Toggle{0, "", fmt.Sprintf("... and %d more rows of class %q", len(tgs)-5, cn)})
			}
			checkVariantDesc(ver, st, short, nb, st.msgs, fmt.Sprintf("workbook %s with %d rows of class %q disabled", ver, len(tgs), cn), tgs)
			for i, f := range changed {
				f.Example = old[i]
			}
			w.Fam("class-toggles/"+ver, 1)
		}
	}
	// ---- subfield rows: a dynamic field keeps its main row while one / all of its subfield rows are disabled
	// (struct fields and lookup entries must not change: subfields only produce accessors)
	for _, ver := range versions {
		st := stocks[ver]
		if st == nil || st.skew == nil || (ver != "21.40" && !thorough) {
			continue
		}
		for _, m := range st.msgs {
			for _, f := range m.Fields {
				if !f.enabled() {
					continue
				}
				var on []int
				for i := range f.Subs {
					if f.Subs[i].enabled() {
						on = append(on, i)
					}
				}
				if len(on) == 0 {
					continue
				}
				sets := [][]int{on}
				if len(on) > 1 {
					sets = append(sets, on[:1], on[len(on)-1:])
				}
				for _, set := range sets {
					caseNo++
					if !w.Mine(caseNo) {
						continue
					}
					if w.Expired("subfield toggles") {
						return
					}
					wb2, _ := xlsxlite.Open(st.data)
					var tgs []c19Toggle
					for _, i := range set {
						wb2.SetNumber(wb2.Sheets[1], f.Subs[i].Row, colExample, "0")
						tgs = append(tgs, c19Toggle{f.Subs[i].Row, "0", "disable subfield " + m.Name + "." + f.Name + "/" + f.Subs[i].Name})
					}
					nb, _ := wb2.Bytes()
					checkVariant(ver, st, tgs, nb, st.msgs)
					w.Fam("subfield-toggles/"+ver, 1)
					// the two ways of switching a row off - writing 0 and emptying the cell - must give the same output
					wb3, _ := xlsxlite.Open(st.data)
					for _, i := range set {
						wb3.ClearCell(wb3.Sheets[1], f.Subs[i].Row, colExample)
					}
					nb3, _ := wb3.Bytes()
					in0, in3 := writeTemp(scratch, fmt.Sprintf("sub0-%d.xlsx", caseNo), nb), writeTemp(scratch, fmt.Sprintf("subE-%d.xlsx", caseNo), nb3)
					d0, _, e0 := env.run(in0, ver)
					d3, log3, e3 := env.run(in3, ver)
					w.Eval(2)
					rep := c19Replay{Workbook: ver + ".xlsx", Toggles: tgs, Form: "xlsx"}
					if e0 == nil && e3 != nil {
						w.Violation("fitgen-fails", fmt.Sprintf("workbook %s toggles %v with the cells emptied instead of set to 0: fitgen exits with %v: %s", ver, tgs, e3, trunc(lastLines(log3, 3), 300)), rep)
					} else if e0 == nil {
						if d := dirsEqual(d0, d3); d != "" {
							w.Violation("zero-vs-empty-cell", fmt.Sprintf("workbook %s toggles %v: switching the rows off with 0 and by emptying the cells gives different output: %s", ver, tgs, d), rep)
						}
					}
					os.RemoveAll(d0)
					os.RemoveAll(d3)
					os.Remove(in0)
					os.Remove(in3)
				}
			}
		}
	}
	// ---- deviation 2, dependency-closed pairs: a field with enabled subfields is disabled together with the
	// reference field its subfields switch on (only the parent's own cell is blanked, as a product profile would),
	// and a component source is disabled together with one of its targets.
	for _, ver := range versions {
		st := stocks[ver]
		if st == nil || st.skew == nil || (ver != "21.40" && !thorough) {
			continue
		}
		needed := func(m *wbMsg, name string, except *wbField) bool {
			for _, f := range m.Fields {
				if f == except || !f.enabled() {
					continue
				}
				for _, c := range f.Comps {
					if c == name {
						return true
					}
				}
				for _, s := range f.Subs {
					if s.enabled() {
						for _, r := range append(append([]string{}, s.Refs...), s.Comps...) {
							if r == name {
								return true
							}
						}
					}
				}
			}
			return false
		}
		for _, m := range st.msgs {
			compRows := 0
			for _, f := range m.Fields {
				if f.enabled() && len(f.Comps) > 0 {
					compRows++
				}
			}
			for _, parent := range m.Fields {
				if !parent.enabled() || st.selected[camel(m.Name)+"Msg."+camel(parent.Name)] || needed(m, parent.Name, parent) {
					continue
				}
				partners := map[string]bool{}
				for _, sub := range parent.Subs {
					if sub.enabled() {
						for _, r := range sub.Refs {
							partners[r] = true
						}
					}
				}
				if len(parent.Comps) > 0 {
					if compRows < 2 {
						continue
					}
					for _, c := range parent.Comps {
						partners[c] = true
					}
				}
				for pn := range partners {
					var partner *wbField
					for _, f := range m.Fields {
						if f.Name == pn && f.enabled() {
							partner = f
						}
					}
					if partner == nil || partner == parent || len(partner.Comps) > 0 || st.selected[camel(m.Name)+"Msg."+camel(partner.Name)] || needed(m, partner.Name, parent) {
						continue
					}
					caseNo++
					if !w.Mine(caseNo) {
						continue
					}
					if w.Expired("pair toggles") {
						return
					}
					wb2, _ := xlsxlite.Open(st.data)
					wb2.SetNumber(wb2.Sheets[1], parent.Row, colExample, "0")
					wb2.SetNumber(wb2.Sheets[1], partner.Row, colExample, "0")
					nb, _ := wb2.Bytes()
					o1, o2 := parent.Example, partner.Example
					parent.Example, partner.Example = "0", "0"
					checkVariant(ver, st, []c19Toggle{{parent.Row, "0", "disable " + m.Name + "." + parent.Name}, {partner.Row, "0", "disable " + m.Name + "." + partner.Name}}, nb, st.msgs)
					parent.Example, partner.Example = o1, o2
					w.Fam("deviation-2-pairs/"+ver, 1)
				}
			}
		}
	}
	if w.Shard == 0 {
		w.Sample(map[string]interface{}{"workbook": "21.40.xlsx", "toggle": "none (deviation 0)", "forms": []string{"xlsx with -sdk 21.40", "FitSDKRelease_21.40.zip"}, "runs": 2})
	}
	_ = json.Marshal
}

func writeTemp(dir, name string, data []byte) string {
	p := filepath.Join(dir, name)
	os.WriteFile(p, data, 0o644)
	return p
}

func lastLines(s string, n int) string {
	ls := strings.Split(strings.TrimSpace(s), "\n")
	if len(ls) > n {
		ls = ls[len(ls)-n:]
	}
	return strings.Join(ls, " | ")
}
