package props

import (
	"bytes"
	"encoding/binary"
	"encoding/json"
	"fmt"
	"io"
	"strconv"
	"strings"

	"github.com/tormoder/fit"
	"github.com/tormoder/fit/dyncrc16"

	"verif/fitmodel"
	"verif/vx"
)

// C14: the checksum is CRC-16/ARC and does not depend on how data is fed.
// Complete transition system: 65536 register states x 256 bytes, every state
// reached on the implementation by its unique 2-byte prefix from New().

type c14Replay struct {
	Kind   string `json:"kind"`
	Data   string `json:"data_hex"`
	Cuts   []int  `json:"cuts,omitempty"`
	Expect uint16 `json:"expect"`
	Got    uint16 `json:"got"`
	Offset int    `json:"start_offset_in_buffer,omitempty"`
}

func init() {
	vx.Register(&vx.Prop{
		ID:    "C14",
		Level: "model_checking",
		Rule: "explicit-state: all 65536 register states (each reached on the implementation through New().Write of its unique 2-byte prefix) x all 256 next bytes, compared with a bitwise CRC-16/ARC; " +
			"Reset and residue from every state; Sum / Size / BlockSize leave every state unchanged; all byte strings of length<=3 (quick: <=2 plus stride on 3) under every write partition; long strings under every 1- and 2-cut partition; single Write / Checksum calls of sizes 2^k-1, 2^k, 2^k+1 for k=5..20; self-referential inputs: data of 0..72 (and larger) bytes followed by its own checksum in either byte order and 0..10 zero bytes, at 8 start offsets, as one piece and as two writes; alignment: every start offset 0..16 inside a larger buffer x 30 lengths up to 8192 through Checksum, one Write and a two-part Write; first use: Checksum / Write / byte-wise Write / Sum on 10 lengths as the first call a fresh process makes into the package, and ordered pairs of such calls (quick: lengths 255..4096; thorough: all), one process per history; histories that first go through package fit (Header.CheckIntegrity with a wrong / right CRC, CheckIntegrity and Decode of corrupt and valid files, Encode) and then use the checksum package. " +
			"distinct = distinct (state,byte)->state' transitions observed on the implementation",
		Assumptions: []string{"reference is the textbook bitwise reflected CRC-16 (poly 0xA001, init 0, no final xor)"},
		Run:         runC14,
		Sub:         c14Sub,
		Replay: func(raw json.RawMessage) (string, error) {
			var fu struct {
				FirstUse []string `json:"first_use"`
			}
			if json.Unmarshal(raw, &fu) == nil && len(fu.FirstUse) > 0 {
				out, err := vx.SubRun("C14", fu.FirstUse...)
				if err != nil {
					return "", err
				}
				lines := strings.Fields(string(out))
				for i := 0; i+1 < len(fu.FirstUse); i += 2 {
					n, _ := strconv.Atoi(fu.FirstUse[i+1])
					want := fmt.Sprintf("%04x", fitmodel.CRC(c14Pattern(n)))
					if isFitCall(fu.FirstUse[i]) {
						want = "-"
					}
					if i/2 >= len(lines) || lines[i/2] != want {
						return "", fmt.Errorf("fresh process %v: got %v, reference for call %d is %s", fu.FirstUse, lines, i/2+1, want)
					}
				}
				return "ok", nil
			}
			var r c14Replay
			if err := json.Unmarshal(raw, &r); err != nil {
				return "", err
			}
			data := vx.UnHex(r.Data)
			if r.Offset > 0 {
				// same bytes at the recorded distance from the start of an allocation
				buf := make([]byte, r.Offset+len(data))
				copy(buf[r.Offset:], data)
				data = buf[r.Offset:]
			}
			h := dyncrc16.New()
			prev := 0
			for _, c := range append(r.Cuts, len(data)) {
				h.Write(data[prev:c])
				prev = c
			}
			want := fitmodel.CRC(data)
			if h.Sum16() != want || dyncrc16.Checksum(data) != want {
				return "", fmt.Errorf("streaming=%#04x checksum=%#04x reference=%#04x", h.Sum16(), dyncrc16.Checksum(data), want)
			}
			return "ok", nil
		},
		Post: func(m *vx.Merged) error {
			if m.States != 65536 {
				return fmt.Errorf("expected 65536 states, saw %d", m.States)
			}
			return nil
		},
	})
}

// c14ManyHashers: tens of thousands of hashers alive at once (a pool, slab or free list of hasher states would
// hand out a state that is still in use): each starts at zero, each is fed its own data in an interleaved order, and
// each ends with the reference checksum of its own data.
func c14ManyHashers(w *vx.W) {
	if w.Shard != 0 {
		return
	}
	n := 70000
	hs := make([]hash16, n)
	for i := range hs {
		hs[i] = dyncrc16.New()
		if s := hs[i].Sum16(); s != 0 {
			w.Violation("crc/many-hashers", fmt.Sprintf("the %d-th hasher created in this process starts with checksum %#04x instead of 0", i+1, s), c14Replay{Kind: "many-hashers"})
			return
		}
	}
	data := func(i, part int) []byte {
		return []byte{byte(i), byte(i >> 8), byte(i >> 16), byte(part), byte(i*7 + part)}
	}
	for part := 0; part < 3; part++ {
		for i := range hs {
			j := (i*7919 + part*13) % n // a permutation (7919 is prime and does not divide n)
			hs[j].Write(data(j, part))
		}
	}
	w.Eval(int64(n))
	w.Fam("many-hashers-alive-at-once", int64(n))
	for i := range hs {
		want := fitmodel.CRC(fitmodel.Concat(data(i, 0), data(i, 1), data(i, 2)))
		if got := hs[i].Sum16(); got != want {
			w.Violation("crc/many-hashers", fmt.Sprintf("hasher %d of %d alive at once: checksum %#04x, reference %#04x for the 15 bytes written to it", i+1, n, got, want), c14Replay{Kind: "many-hashers"})
			return
		}
	}
}

type hash16 interface {
	Write([]byte) (int, error)
	Sum16() uint16
}

func runC14(w *vx.W) {
	c14ManyHashers(w)
	c14FirstUse(w)
	c14Alignment(w)
	procsFamily(w, "C14", "checksum")
	c14SelfReferential(w)
	// inverse table: state -> 2-byte prefix, from the reference model
	var prefix [65536][2]byte
	var seen [65536]bool
	for a := 0; a < 256; a++ {
		for b := 0; b < 256; b++ {
			s := fitmodel.CRC([]byte{byte(a), byte(b)})
			if seen[s] {
				w.HarnessError("reference CRC is not a bijection on 2-byte prefixes")
			}
			seen[s] = true
			prefix[s] = [2]byte{byte(a), byte(b)}
		}
	}
	bad := func(kind string, data []byte, cuts []int, want, got uint16) {
		w.Violation("crc/"+kind, fmt.Sprintf("%s: data=%x cuts=%v reference=%#04x implementation=%#04x", kind, data, cuts, want, got),
			c14Replay{kind, vx.Hex(data), cuts, want, got, 0})
	}
	// 1. transition system
	for s := 0; s < 65536; s++ {
		if !w.Mine(int64(s)) {
			continue
		}
		p := prefix[s][:]
		h := dyncrc16.New()
		h.Write(p)
		if h.Sum16() != uint16(s) {
			bad("prefix", p, nil, uint16(s), h.Sum16())
			continue
		}
		w.State(uint64(s))
		// Sum, Size and BlockSize are observers: the appended sum is the register (big-endian, as hash.Hash documents)
		// and the state is the same afterwards, also after calling them twice
		for rep := 0; rep < 2; rep++ {
			out := h.Sum([]byte{0xEE})
			_, _ = h.Size(), h.BlockSize()
			if len(out) != 3 || out[0] != 0xEE || uint16(out[1])<<8|uint16(out[2]) != uint16(s) || h.Sum16() != uint16(s) {
				bad("sum-observer", p, nil, uint16(s), h.Sum16())
				break
			}
		}
		w.Eval(2)
		for b := 0; b < 256; b++ {
			h.Reset()
			if h.Sum16() != 0 {
				bad("reset", p, nil, 0, h.Sum16())
			}
			h.Write(p)
			h.Write([]byte{byte(b)})
			want := fitmodel.CRCUpdate(uint16(s), []byte{byte(b)})
			got := h.Sum16()
			w.Transition(1)
			w.Trace(1)
			w.Eval(1)
			w.Distinct(uint64(s)<<24 | uint64(b)<<16 | uint64(got))
			data := []byte{p[0], p[1], byte(b)}
			if got != want {
				bad("step", data, []int{2}, want, got)
			}
			// one-shot agrees
			if c := dyncrc16.Checksum(data); c != want {
				bad("checksum", data, nil, want, c)
			}
			// residue: append sum little-endian => 0
			res := append(data, byte(got), byte(got>>8))
			if c := dyncrc16.Checksum(res); c != 0 {
				bad("residue", res, nil, 0, c)
			}
			h.Write([]byte{byte(got), byte(got >> 8)})
			if h.Sum16() != 0 {
				bad("residue-stream", res, []int{2, 3}, 0, h.Sum16())
			}
			// Reset from this state then the byte
			h.Reset()
			h.Write([]byte{byte(b)})
			if want0 := fitmodel.CRC([]byte{byte(b)}); h.Sum16() != want0 {
				bad("reset-step", []byte{byte(b)}, nil, want0, h.Sum16())
			}
		}
	}
	w.Sample(map[string]interface{}{"state": "0x1234", "prefix_hex": vx.Hex(prefix[0x1234][:]), "next_byte": 0xA5,
		"reference_next": fitmodel.CRCUpdate(0x1234, []byte{0xA5})})

	// 2. all strings of length <= 3 under all write partitions
	stride := 1
	if w.Quick() {
		stride = 61
	}
	var idx int64
	for n := 0; n <= 3; n++ {
		total := 1 << (8 * uint(n))
		st := 1
		if n == 3 {
			st = stride
		}
		for v := 0; v < total; v += st {
			idx++
			if !w.Mine(idx) {
				continue
			}
			data := make([]byte, n)
			for i := 0; i < n; i++ {
				data[i] = byte(v >> (8 * uint(i)))
			}
			want := fitmodel.CRC(data)
			// partitions = subsets of the n-1 inner cut points
			parts := 1
			if n > 1 {
				parts = 1 << uint(n-1)
			}
			for m := 0; m < parts; m++ {
				h := dyncrc16.New()
				prev := 0
				var cuts []int
				for c := 1; c < n; c++ {
					if m&(1<<uint(c-1)) != 0 {
						h.Write(data[prev:c])
						cuts = append(cuts, c)
						prev = c
					}
				}
				h.Write(data[prev:])
				h.Write(nil) // empty write must not change anything
				w.Eval(1)
				w.Fam("short-strings-x-partitions", 1)
				if h.Sum16() != want {
					bad("partition", data, cuts, want, h.Sum16())
				}
			}
		}
	}
	if w.Quick() {
		w.Note("length-3 strings enumerated with stride 61 in the quick tier (all of them in thorough); the transition system itself is complete in both tiers")
	}

	// 3. long strings, every 1-cut (4 KiB) and every 2-cut (512 B) partition
	long := make([]byte, 4096)
	x := uint32(w.Seed)*2654435761 + 12345
	for i := range long {
		x = x*1664525 + 1013904223
		long[i] = byte(x >> 24)
	}
	wantL := fitmodel.CRC(long)
	for c := 0; c <= len(long); c++ {
		if !w.Mine(int64(c)) {
			continue
		}
		h := dyncrc16.New()
		h.Write(long[:c])
		h.Write(long[c:])
		w.Eval(1)
		w.Fam("4KiB-1cut", 1)
		if h.Sum16() != wantL {
			bad("cut1", long, []int{c}, wantL, h.Sum16())
		}
	}
	short := long[:512]
	wantS := fitmodel.CRC(short)
	for a := 0; a <= len(short); a++ {
		if !w.Mine(int64(a)) {
			continue
		}
		for b := a; b <= len(short); b++ {
			h := dyncrc16.New()
			h.Write(short[:a])
			h.Write(short[a:b])
			h.Write(short[b:])
			w.Eval(1)
			w.Fam("512B-2cut", 1)
			if h.Sum16() != wantS {
				bad("cut2", short, []int{a, b}, wantS, h.Sum16())
			}
		}
	}
	// 4. large single writes (block-wise implementations switch code paths at some size): sizes around powers of two
	// up to 1 MiB as one Write / one Checksum call, and split at one position
	var sizes []int
	for sh := 5; sh <= 20; sh++ {
		for _, d := range []int{-1, 0, 1} {
			sizes = append(sizes, 1<<uint(sh)+d)
		}
	}
	sizes = append(sizes, 70000, 200000, 3*65536+17)
	big := make([]byte, 1<<20+1)
	for i := range big {
		x = x*1664525 + 1013904223
		big[i] = byte(x >> 23)
	}
	for si, n := range sizes {
		if !w.Mine(int64(si)) {
			continue
		}
		data := big[:n]
		want := fitmodel.CRCFast(0, data)
		if n <= 70000 && fitmodel.CRC(data) != want {
			w.HarnessError("reference table CRC disagrees with the bitwise reference")
		}
		h := dyncrc16.New()
		h.Write(data)
		w.Eval(3)
		w.Fam("large-single-writes", 1)
		rep := c14Replay{Kind: "large", Data: fmt.Sprintf("(%d pseudo-random bytes, seed %d)", n, w.Seed), Expect: want}
		if h.Sum16() != want {
			w.Violation("crc/large-write", fmt.Sprintf("single Write of %d bytes: reference %#04x implementation %#04x", n, want, h.Sum16()), rep)
		}
		if c := dyncrc16.Checksum(data); c != want {
			w.Violation("crc/large-checksum", fmt.Sprintf("Checksum of %d bytes: reference %#04x implementation %#04x", n, want, c), rep)
		}
		h2 := dyncrc16.New()
		h2.Write(data[:n/3])
		h2.Write(data[n/3:])
		if h2.Sum16() != want {
			w.Violation("crc/large-split", fmt.Sprintf("%d bytes written as %d+%d: reference %#04x implementation %#04x", n, n/3, n-n/3, want, h2.Sum16()), rep)
		}
		// residue over the large buffer
		res := append(append([]byte{}, data...), byte(want), byte(want>>8))
		if c := dyncrc16.Checksum(res); c != 0 {
			w.Violation("crc/large-residue", fmt.Sprintf("residue of %d bytes + sum is %#04x", n, c), rep)
		}
	}
	// 5. the hash as an io.Writer target of io.Copy / io.CopyN (this is how the decoder's integrity check feeds it; an
	// io.ReaderFrom fast path, if the hash has one, is used here): every read schedule with at most 2 deviations,
	// including the last bytes arriving together with io.EOF
	for li, n := range []int{0, 1, 2, 3, 7, 8, 9, 33} {
		if !w.Mine(int64(li)) {
			continue
		}
		data := long[:n]
		want := fitmodel.CRC(data)
		for _, ob := range []bool{false, true} {
			var got uint16
			var cerr error
			_, _, err := envExplore(data, ob, false, 2, nil,
				func(r *envReader) {
					h := dyncrc16.New()
					h.Write([]byte{0xAA})
					h.Reset()
					_, cerr = io.Copy(h, r)
					got = h.Sum16()
				},
				func(x *envExec, choices []int) {
					w.Eval(1)
					w.Fam("io.Copy-read-schedules", 1)
					if cerr != nil || got != want {
						bad("copy", data, choices, want, got)
					}
				})
			if err != nil {
				w.HarnessError("C14 copy exploration: %v", err)
			}
		}
		// CopyN of a prefix from a longer source
		if n >= 2 {
			h := dyncrc16.New()
			io.CopyN(h, &countingReader{b: long[:n+5], chunk: 3}, int64(n))
			w.Eval(1)
			if h.Sum16() != want {
				bad("copyN", data, nil, want, h.Sum16())
			}
		}
	}
	// two hashes are independent (no hidden shared state)
	if w.Shard == 0 {
		h1, h2 := dyncrc16.New(), dyncrc16.New()
		h1.Write(long[:100])
		h2.Write(long[100:300])
		h1.Write(long[100:200])
		if h1.Sum16() != fitmodel.CRC(long[:200]) || h2.Sum16() != fitmodel.CRC(long[100:300]) {
			bad("independence", long[:300], nil, fitmodel.CRC(long[:200]), h1.Sum16())
		}
		w.Eval(1)
	}
}

// ---- first use: the package's entry points called as the very first thing a process does with it (lazily built
// tables must be built by every entry point), and every ordered pair of such calls, each history in a fresh process.

var c14FirstAPIs = []string{"Checksum", "Write", "WriteBytewise", "Sum"}
var c14FirstLens = []int{0, 1, 2, 255, 256, 511, 512, 513, 4096, 70001}

func c14Pattern(n int) []byte {
	b := make([]byte, n)
	for i := range b {
		b[i] = byte(i*131 + i>>8 + 7)
	}
	return b
}

// c14Sub: args = api len [api len ...]; prints one hex sum per call.
func c14Sub(args []string) {
	if tzSub(args) {
		return
	}
	for i := 0; i+1 < len(args); i += 2 {
		n, _ := strconv.Atoi(args[i+1])
		data := c14Pattern(n)
		var sum uint16
		switch args[i] {
		case "Checksum":
			sum = dyncrc16.Checksum(data)
		case "Write":
			h := dyncrc16.New()
			h.Write(data)
			sum = h.Sum16()
		case "WriteBytewise":
			h := dyncrc16.New()
			for j := range data {
				h.Write(data[j : j+1])
			}
			sum = h.Sum16()
		case "HeaderCheckBad", "HeaderCheckGood", "CheckIntegrityCorrupt", "DecodeGood", "DecodeCorrupt", "EncodeSmall":
			// calls into package fit that use the checksum internally (and may leave hashers behind)
			c14FitCall(args[i])
			fmt.Println("-")
			continue
		case "Sum":
			h := dyncrc16.New()
			h.Write(data)
			s := h.Sum([]byte{0xEE})
			if len(s) != 3 || s[0] != 0xEE {
				fmt.Println("bad-sum-shape")
				continue
			}
			sum = uint16(s[1])<<8 | uint16(s[2])
		}
		fmt.Printf("%04x\n", sum)
	}
}

// c14Alignment: the sum must not depend on where the bytes live: every start offset 0..16 inside a larger buffer
// (so every address alignment modulo 8 and 16) x lengths around the powers of two up to 8192, through Checksum and
// through one Write, plus a two-part Write cut at every offset 0..16.
func c14Alignment(w *vx.W) {
	if w.Shard != 0 {
		return
	}
	big := c14Pattern(9000)
	for _, n := range []int{1, 7, 8, 9, 15, 16, 17, 31, 32, 33, 63, 64, 65, 127, 128, 129, 255, 256, 257, 511, 512, 513, 1023, 1024, 1025, 4095, 4096, 4097, 8191, 8192} {
		for off := 0; off <= 16; off++ {
			data := big[off : off+n]
			want := fitmodel.CRC(data)
			w.Eval(3)
			w.Fam("alignment", 1)
			if got := dyncrc16.Checksum(data); got != want {
				w.Violation("crc/alignment", fmt.Sprintf("Checksum of %d bytes starting %d bytes into a buffer: %#04x, reference %#04x", n, off, got, want), c14Replay{"alignment", vx.Hex(data), nil, want, got, off})
			}
			h := dyncrc16.New()
			h.Write(data)
			if got := h.Sum16(); got != want {
				w.Violation("crc/alignment", fmt.Sprintf("Write of %d bytes starting %d bytes into a buffer: %#04x, reference %#04x", n, off, got, want), c14Replay{"alignment", vx.Hex(data), nil, want, got, off})
			}
			whole := big[:n+16]
			h2 := dyncrc16.New()
			h2.Write(whole[:off])
			h2.Write(whole[off:])
			if got, want2 := h2.Sum16(), fitmodel.CRC(whole); got != want2 {
				w.Violation("crc/alignment", fmt.Sprintf("Write of %d bytes cut at %d: %#04x, reference %#04x", len(whole), off, got, want2), c14Replay{"alignment", vx.Hex(whole), []int{off}, want2, got, 0})
			}
		}
	}
}

var c14FitCalls = []string{"HeaderCheckBad", "HeaderCheckGood", "CheckIntegrityCorrupt", "DecodeGood", "DecodeCorrupt", "EncodeSmall"}

func isFitCall(n string) bool {
	for _, f := range c14FitCalls {
		if f == n {
			return true
		}
	}
	return false
}

func c14FitCall(name string) {
	guard(func() {
		switch name {
		case "HeaderCheckBad", "HeaderCheckGood":
			h := fit.Header{Size: 14, ProtocolVersion: 0x10, ProfileVersion: 2115, DataSize: 100, DataType: [4]byte{'.', 'F', 'I', 'T'}}
			raw := fitmodel.HeaderBytes(fitmodel.DefaultHeader, 100)
			h.ProtocolVersion, h.ProfileVersion = raw[1], uint16(raw[2])|uint16(raw[3])<<8
			h.CRC = uint16(raw[12]) | uint16(raw[13])<<8
			if name == "HeaderCheckBad" {
				h.CRC ^= 0x5A5A
			}
			_ = h.CheckIntegrity()
		case "CheckIntegrityCorrupt":
			b := append([]byte{}, sAct3.B...)
			b[len(b)-5] ^= 0x20
			_ = fit.CheckIntegrity(bytes.NewReader(b), false)
			hb := append([]byte{}, sAct3.B...)
			hb[12] ^= 0x11
			_ = fit.CheckIntegrity(bytes.NewReader(hb), true)
		case "DecodeGood":
			_, _ = fit.Decode(bytes.NewReader(sAct3.B))
		case "DecodeCorrupt":
			b := append([]byte{}, sAct3.B...)
			b[20] ^= 0x01
			_, _ = fit.Decode(bytes.NewReader(b))
			_, _ = fit.Decode(bytes.NewReader(sAct3.B[:30]))
		case "EncodeSmall":
			var buf bytes.Buffer
			_ = fit.Encode(&buf, apiFile(0), binary.LittleEndian)
		}
	})
}

// c14SelfReferential: data followed by its own checksum (either byte order) and then by 0..10 zero bytes, fed as one
// piece and byte-wise, for data lengths 0..72 and some larger ones, at start offsets 0..7 inside a larger buffer:
// the inputs in which a word of the data equals the current register (shortcuts for "nothing changes" live there).
func c14SelfReferential(w *vx.W) {
	var idx int64
	for _, n := range append(seqInts(0, 72), 128, 256, 1000, 1024, 4096) {
		for pat := 0; pat < 3; pat++ {
			idx++
			if !w.Mine(idx) {
				continue
			}
			data := c14Pattern(n + pat)[pat:]
			sum := fitmodel.CRC(data)
			for order := 0; order < 2; order++ {
				for zeros := 0; zeros <= 10; zeros++ {
					for off := 0; off < 8; off++ {
						buf := make([]byte, off+n+2+zeros)
						x := buf[off:]
						copy(x, data)
						if order == 0 {
							x[n], x[n+1] = byte(sum), byte(sum>>8)
						} else {
							x[n], x[n+1] = byte(sum>>8), byte(sum)
						}
						want := fitmodel.CRC(x)
						w.Eval(2)
						w.Fam("data-then-own-checksum-then-zeros", 1)
						if got := dyncrc16.Checksum(x); got != want {
							w.Violation("crc/self-referential", fmt.Sprintf("Checksum of %d data bytes + their sum (order %d) + %d zero bytes at buffer offset %d: %#04x, reference %#04x", n, order, zeros, off, got, want), c14Replay{"self-referential", vx.Hex(x), nil, want, got, off})
						}
						h := dyncrc16.New()
						h.Write(x[:n])
						h.Write(x[n:])
						if got := h.Sum16(); got != want {
							w.Violation("crc/self-referential", fmt.Sprintf("Write(data) then Write(sum + %d zeros): %#04x, reference %#04x", zeros, got, want), c14Replay{"self-referential", vx.Hex(x), []int{n}, want, got, 0})
						}
					}
				}
			}
		}
	}
}

func seqInts(lo, hi int) []int {
	var out []int
	for i := lo; i <= hi; i++ {
		out = append(out, i)
	}
	return out
}

func c14FirstUse(w *vx.W) {
	type call struct {
		api string
		n   int
	}
	var calls []call
	for _, a := range c14FirstAPIs {
		for _, n := range c14FirstLens {
			if a == "WriteBytewise" && n > 4096 {
				continue
			}
			calls = append(calls, call{a, n})
		}
	}
	var hists [][]call
	for _, c := range calls {
		hists = append(hists, []call{c})
	}
	for _, a := range calls {
		for _, b := range calls {
			if w.Quick() && !(a.n >= 255 && b.n >= 255 && a.n <= 4096 && b.n <= 4096) {
				continue // quick tier: pairs around the 256/512/4096 boundaries; thorough: all pairs
			}
			hists = append(hists, []call{a, b})
		}
	}
	// histories that go through package fit first: Header.CheckIntegrity with a wrong / right CRC, CheckIntegrity and
	// Decode of corrupt and valid files, a small Encode; afterwards the checksum package must behave as if fresh
	for _, f1 := range c14FitCalls {
		for _, c := range []call{{"Checksum", 1}, {"Checksum", 513}, {"Write", 0}, {"Write", 2}, {"Write", 513}, {"Sum", 256}} {
			hists = append(hists, []call{{f1, 0}, c})
		}
		for _, f2 := range c14FitCalls {
			hists = append(hists, []call{{f1, 0}, {f2, 0}, {"Write", 3}, {"Checksum", 700}})
		}
	}
	for i, h := range hists {
		if !w.Mine(int64(i)) {
			continue
		}
		var args []string
		var names []string
		for _, c := range h {
			args = append(args, c.api, strconv.Itoa(c.n))
			names = append(names, fmt.Sprintf("%s(%d bytes)", c.api, c.n))
		}
		out, err := vx.SubRun("C14", args...)
		w.Eval(int64(len(h)))
		w.Trace(1)
		w.Fam(fmt.Sprintf("first-use-histories-len%d", len(h)), 1)
		if err != nil {
			w.Violation("first-use/crash", fmt.Sprintf("fresh process running %v died: %v", names, err), map[string]interface{}{"first_use": args})
			continue
		}
		lines := strings.Fields(string(out))
		for j, c := range h {
			want := fmt.Sprintf("%04x", fitmodel.CRC(c14Pattern(c.n)))
			if isFitCall(c.api) {
				want = "-"
			}
			got := "missing"
			if j < len(lines) {
				got = lines[j]
			}
			if got != want {
				w.Violation("first-use/"+c.api, fmt.Sprintf("fresh process, calls %v: call #%d returns %s, reference %s", names, j+1, got, want), map[string]interface{}{"first_use": args})
				break
			}
		}
	}
}
