package props

import (
	"bytes"
	"encoding/json"
	"fmt"
	"go/ast"
	"go/parser"
	"go/token"
	"os"
	"path/filepath"
	"sort"
	"strconv"
	"time"

	"verif/fitmodel"
	"verif/vx"
)

// C01: decoding entry points are total (no panic, no hang) on any input.

type c01Replay struct {
	Entry string `json:"entry"`
	Hex   string `json:"stream_hex"`
	Chunk int    `json:"chunk"` // 0 whole buffer, 1 one byte per read
}

var repoRoot = func() string {
	if r := os.Getenv("VERIF_REPO"); r != "" {
		return r
	}
	return "/repo"
}()

func init() {
	vx.Register(&vx.Prop{
		ID:    "C01",
		Level: "exploration",
		Rule: "families: (a) definition space: header+file_id+one single-field definition (message x field number x base-type byte x size x byte order)+matching data record, through Decode/DecodeChained (accepted definitions again with 4 payload patterns, as compressed-timestamp records with and without time reference, with developer descriptors, with 1-byte reads, and as the file_id definition through DecodeHeaderAndFileID); " +
			"(b) header space (size byte x truncation x protocol x data type x data size x header CRC) through all six entry points; (c) record-header space: every pair of record header bytes after file_id with model-expected bodies, each cut at every offset (re-framed and not); (d) crasher inputs and testdata files cut at every/strided offsets; (e) developer-field space: 0..255 developer descriptors of sizes 0..255 with 0/1/3/255 regular fields, known / unknown / file_id messages; (f) every single-byte substitution (all 255 other values at every offset) of every small valid stream and small corpus file, with and without a recomputed file CRC; (g) chained streams: a valid member that leaves definitions on all 16 local types followed by a member whose file_id definition (on every local type) is followed by every record header byte. " +
			"Oracle: every call returns (no panic; watchdog for hangs). distinct = distinct (entry point, error-class or accepted) outcomes x definition classes",
		Assumptions: []string{"readers that return (0,nil) forever are outside the alphabet", "arbitrary deep garbage beyond the structured families is not enumerated"},
		Run:         runC01,
		Sub:         func(args []string) { tzSub(args) },
		QuickBudget: 240, ThoroughBudget: 3300,
		Replay: func(raw json.RawMessage) (string, error) {
			var r c01Replay
			json.Unmarshal(raw, &r)
			b := vx.UnHex(r.Hex)
			res := callEntry(r.Entry, &countingReader{b: b, chunk: r.Chunk})
			if res.Panic != "" {
				return "", fmt.Errorf("%s panics: %s", r.Entry, res.Panic)
			}
			return fmt.Sprintf("%s returned err=%v", r.Entry, res.Err), nil
		},
		Post: func(m *vx.Merged) error {
			if m.Fam["a:accepted-definitions"] == 0 {
				return fmt.Errorf("no definition was accepted: generator broken")
			}
			if m.Fam["a:rejected-definitions"] == 0 {
				return fmt.Errorf("no definition was rejected: generator broken")
			}
			return nil
		},
	})
}

type c01ctx struct {
	w     *vx.W
	cur   []byte
	entry string
	chunk int
}

func (c *c01ctx) call(entry string, b []byte, chunk int) callResult {
	c.cur, c.entry, c.chunk = b, entry, chunk
	c.w.Tick()
	var res callResult
	if chunk == 0 {
		res = callEntry(entry, bytes.NewReader(b))
	} else {
		res = callEntry(entry, &countingReader{b: b, chunk: chunk})
	}
	c.w.Eval(1)
	if res.Panic != "" {
		key := "panic/" + entry + "/" + panicClass(res.Panic)
		c.w.Violation(key, fmt.Sprintf("%s panics: %s (input %d bytes: %s)", entry, res.Panic, len(b), trunc(vx.Hex(b), 160)), c01Replay{entry, vx.Hex(b), chunk})
	}
	return res
}

func panicClass(p string) string {
	if len(p) > 60 {
		p = p[:60]
	}
	return p
}

func errClass(err error) string {
	if err == nil {
		return "ok"
	}
	s := err.Error()
	// strip numbers so that classes stay few
	out := make([]byte, 0, len(s))
	for i := 0; i < len(s); i++ {
		if s[i] >= '0' && s[i] <= '9' {
			continue
		}
		out = append(out, s[i])
	}
	if len(out) > 70 {
		out = out[:70]
	}
	return string(out)
}

func runC01(w *vx.W) {
	procsFamily(w, "C01", "integrity", "chain-faults")
	c := &c01ctx{w: w}
	w.CurCase = func() (string, interface{}) {
		return fmt.Sprintf("%s on %d bytes", c.entry, len(c.cur)), c01Replay{c.entry, vx.Hex(c.cur), c.chunk}
	}
	w.StartWatchdog(30 * time.Second)
	c01Headers(c)
	c01RecordHeaders(c)
	c01Corpus(c)
	c01DevFields(c)
	c01FieldDescriptions(c)
	mixLongRunsTotality(w, "m:long-runs", func(l longRun, entry, pn string, stream []byte) {
		w.Violation("panic/"+entry+"/"+panicClass(pn), fmt.Sprintf("long run %s: %s panics: %s", l, entry, pn), c01Replay{entry, vx.Hex(stream), 0})
	})
	c01Chains(c)
	c01Substitutions(c)
	c01LyingSizes(c)
	c01LocalSweep(c)
	c01BeforeFileId(c)
	c01StringBytes(c)
	c01Definitions(c)
}

// ---------- (a) definition space ----------

func c01Definitions(c *c01ctx) {
	w := c.w
	p := prof()
	thorough := !w.Quick()

	// message list: all known + unknown representatives
	type mf struct {
		m uint16
		f int
	}
	nf, _, _ := tableLens()
	msgs := append([]uint16{}, p.known...)
	unknown := []uint16{uint16(nf - 1), uint16(nf), uint16(nf + 1), 0xFF00, 0xFFFE, 22, 160}
	for _, u := range unknown {
		if !p.isKnown[u] {
			msgs = append(msgs, u)
		}
	}
	var pairs []mf
	for _, m := range msgs {
		if thorough {
			for f := 0; f < 256; f++ {
				pairs = append(pairs, mf{m, f})
			}
			continue
		}
		have := map[int]bool{}
		for _, e := range p.byMesg[m] {
			have[e.Slot] = true
		}
		// 3 unlisted numbers incl. 250 and 255
		extra := []int{250, 255}
		for f := 0; f < 256 && len(extra) < 3; f++ {
			if !have[f] && f != 250 && f != 255 {
				extra = append(extra, f)
			}
		}
		for _, f := range extra {
			have[f] = true
		}
		var fs []int
		for f := range have {
			fs = append(fs, f)
		}
		sort.Ints(fs)
		for _, f := range fs {
			pairs = append(pairs, mf{m, f})
		}
	}
	knownBase := map[byte]bool{}
	for _, b := range fitmodel.KnownBases {
		knownBase[b] = true
	}

	// template: 14-byte header, file_id def+data (activity), probe def (local 1), data
	tmpl := fitmodel.Concat(fitmodel.HeaderBytes(fitmodel.DefaultHeader, 0), fitmodel.FileIdRecords(0, 4)[0], fitmodel.FileIdRecords(0, 4)[1])
	defOff := len(tmpl)
	buf := make([]byte, 0, 1024)
	payload := func(pat int, size int, dst []byte) {
		for i := 0; i < size; i++ {
			switch pat {
			case 0:
				dst[i] = byte(i + 1)
			case 1:
				dst[i] = 0
			case 2:
				dst[i] = 0xFF
			case 3:
				dst[i] = 0x80
			case 4:
				dst[i] = byte('a' + i%26)
			case 5:
				dst[i] = byte('a' + i%26)
				if i == size-1 || i%7 == 6 {
					dst[i] = 0
				}
			}
		}
	}
	build := func(m uint16, f int, base byte, size int, big bool, pat int, hdrbits byte, comp int, dev int) []byte {
		// hdrbits: extra bits for the definition header (0x20 dev flag); comp: -1 normal data header, else compressed with offset comp
		buf = append(buf[:0], tmpl...)
		arch := byte(0)
		if big {
			arch = 1
		}
		defh := byte(0x41) | hdrbits
		buf = append(buf, defh, 0, arch, 0, 0, 1, byte(f), byte(size), base)
		if big {
			buf[defOff+3], buf[defOff+4] = byte(m>>8), byte(m)
		} else {
			buf[defOff+3], buf[defOff+4] = byte(m), byte(m>>8)
		}
		devBytes := 0
		if hdrbits&0x20 != 0 {
			switch dev {
			case 0:
				buf = append(buf, 0)
			case 1:
				buf = append(buf, 1, 0, 3, 0)
				devBytes = 3
			case 2:
				buf = append(buf, 255)
				for i := 0; i < 255; i++ {
					buf = append(buf, byte(i), 1, 0)
				}
				devBytes = 255
			}
		}
		if comp >= 0 {
			buf = append(buf, 0x80|1<<5|byte(comp&0x1F))
		} else {
			buf = append(buf, 0x01)
		}
		n := len(buf)
		buf = append(buf, make([]byte, size+devBytes+2)...)
		payload(pat, size, buf[n:n+size])
		fitmodel.Seal(buf)
		return buf
	}
	// a stream that first establishes a timestamp reference (record with field 253) on local 2
	withRef := func(b []byte) []byte {
		ref := fitmodel.Def{Local: 2, Global: 20, Fields: []fitmodel.FieldDef{{Num: 253, Size: 4, Base: fitmodel.Uint32}}}
		out := append([]byte{}, b[:defOff]...)
		out = append(out, ref.Bytes()...)
		out = append(out, fitmodel.Data(2, []byte{0x00, 0x00, 0x00, 0x30})...)
		out = append(out, b[defOff:]...)
		fitmodel.Seal(out)
		return out
	}

	sizesUnknown := []int{0, 1, 255}
	var idx int64
	sampled := 0
	for _, pr := range pairs {
		idx++
		if !w.Mine(idx) {
			continue
		}
		if w.Expired("definition space") {
			w.Note("definition space stopped early; pairs are visited in message order")
			return
		}
		for bb := 0; bb < 256; bb++ {
			base := byte(bb)
			isKnown := knownBase[base]
			var sizes []int
			if isKnown || thorough {
				sizes = nil // all
			} else {
				sizes = sizesUnknown
			}
			nsz := 256
			if sizes != nil {
				nsz = len(sizes)
			}
			for si := 0; si < nsz; si++ {
				size := si
				if sizes != nil {
					size = sizes[si]
				}
				for o := 0; o < 2; o++ {
					big := o == 1
					b := build(pr.m, pr.f, base, size, big, 0, 0, -1, 0)
					res := c.call("Decode", b, 0)
					w.Fam("a:definitions", 1)
					if res.Err != nil || res.Panic != "" {
						w.Fam("a:rejected-definitions", 1)
						if isKnown {
							w.DistinctS("rej/" + errClass(res.Err))
						}
						continue
					}
					w.Fam("a:accepted-definitions", 1)
					w.Distinct(uint64(pr.m)<<32 | uint64(pr.f)<<24 | uint64(base)<<16 | uint64(size)<<1 | uint64(o))
					if sampled < 2 && w.Shard == 0 {
						sampled++
						w.Sample(map[string]interface{}{"family": "a", "mesg": pr.m, "field": pr.f, "base": base, "size": size, "big_endian": big, "stream_hex": vx.Hex(b)})
					}
					// accepted: deepen (fields the profile does not list are only skipped by size:
					// deepen those for a few sizes only)
					if _, listed := p.fields[pr.m][byte(pr.f)]; !(listed && p.isKnown[pr.m]) {
						if size != 1 && size != 2 && size != 4 && size != 8 && size != 255 {
							continue
						}
					}
					c.call("DecodeChained", b, 0)
					c.call("Decode", b, 1)
					npat := 4
					if base == fitmodel.String {
						npat = 6
					}
					for pat := 1; pat < npat; pat++ {
						c.call("Decode", build(pr.m, pr.f, base, size, big, pat, 0, -1, 0), 0)
					}
					// compressed-timestamp header, without and with a time reference
					for _, off := range []int{0, 31} {
						bc := build(pr.m, pr.f, base, size, big, 0, 0, off, 0)
						c.call("Decode", bc, 0)
						c.call("Decode", withRef(bc), 0)
					}
					// developer flag with 0 / 1 / 255 descriptors
					for dev := 0; dev < 3; dev++ {
						c.call("Decode", build(pr.m, pr.f, base, size, big, 2, 0x20, -1, dev), 0)
					}
					w.Fam("a:accepted-deepened", 1)
				}
			}
		}
	}
	// (a2) definition pairs: the same (field number, size, base type) triple is first defined for another message
	// (an unknown number with the same low byte / +256 / an unrelated unknown / another known message) and then for
	// the profile message: state carried from one definition to the next must not weaken validation.
	sizes2 := []int{0, 1, 2, 3, 4, 7, 8, 16, 255}
	idx = 0
	for _, pr := range pairs {
		idx++
		if !w.Mine(idx) || !p.isKnown[pr.m] {
			continue
		}
		if _, listed := p.fields[pr.m][byte(pr.f)]; !listed {
			continue
		}
		if w.Expired("definition pairs") {
			break
		}
		firsts := []uint16{pr.m + 256, pr.m + 512, 0xFF00 | pr.m&0xFF, 0xFE37, p.known[(int(pr.m)+7)%len(p.known)]}
		for _, base := range fitmodel.KnownBases {
			for _, size := range sizes2 {
				for o := 0; o < 2; o++ {
					for _, m1 := range firsts {
						if m1 == pr.m || m1 == 0xFFFF {
							continue
						}
						b := build(pr.m, pr.f, base, size, o == 1, 0, 0, -1, 0)
						// insert the first definition (local 2) before the probe definition
						d1 := fitmodel.Def{Local: 2, Big: o == 1, Global: m1, Fields: []fitmodel.FieldDef{{Num: byte(pr.f), Size: byte(size), Base: base}}}
						nb := append([]byte{}, b[:defOff]...)
						nb = append(nb, d1.Bytes()...)
						nb = append(nb, b[defOff:]...)
						fitmodel.Seal(nb)
						c.call("Decode", nb, 0)
						w.Fam("a2:definition-pairs", 1)
					}
				}
			}
		}
	}
	// the same single-field definitions as the *file_id definition itself* (DecodeHeaderAndFileID path)
	hdr := fitmodel.HeaderBytes(fitmodel.DefaultHeader, 0)
	for f := 0; f < 256; f++ {
		if !w.Mine(int64(f)) {
			continue
		}
		for _, base := range fitmodel.KnownBases {
			for size := 0; size < 256; size++ {
				for o := 0; o < 2; o++ {
					d := fitmodel.Def{Local: 0, Big: o == 1, Global: 0, Fields: []fitmodel.FieldDef{{Num: 0, Size: 1, Base: fitmodel.Enum}, {Num: byte(f), Size: byte(size), Base: base}}}
					pl := make([]byte, 1+size)
					pl[0] = 4
					payload(0, size, pl[1:])
					b := fitmodel.Concat(hdr, d.Bytes(), fitmodel.Data(0, pl), []byte{0, 0})
					fitmodel.Seal(b)
					r1 := c.call("DecodeHeaderAndFileID", b, 0)
					w.Fam("a:file_id-definitions", 1)
					if r1.Err == nil {
						c.call("Decode", b, 0)
						c.call("DecodeHeaderAndFileID", b, 1)
					}
				}
			}
		}
	}
}

// ---------- (e) developer-field and multi-field space ----------

// c01DevFields: definitions with the developer flag and 0..255 developer descriptors of sizes up to 255, with
// 0 / 1 / 255 regular fields, for a known and an unknown message, followed by a matching data record.
func c01DevFields(c *c01ctx) {
	w := c.w
	var idx int64
	for _, m := range []uint16{20, 0xFF00, 0} {
		for _, nreg := range []int{0, 1, 3, 255} {
			for _, ndev := range []int{0, 1, 2, 3, 4, 5, 16, 255} {
				for _, dsz := range []int{0, 1, 2, 200, 254, 255} {
					for _, rsz := range []int{1, 255} {
						for o := 0; o < 2; o++ {
							idx++
							if !w.Mine(idx) {
								continue
							}
							d := fitmodel.Def{Local: 1, Big: o == 1, Global: m, DevFlag: true}
							for i := 0; i < nreg; i++ {
								// unlisted field numbers (200..) as byte arrays: accepted for any size
								d.Fields = append(d.Fields, fitmodel.FieldDef{Num: byte(200 + i%50), Size: byte(rsz), Base: fitmodel.Byte})
							}
							for i := 0; i < ndev; i++ {
								d.Dev = append(d.Dev, fitmodel.DevDef{Num: byte(i), Size: byte(dsz), Idx: byte(i % 3)})
							}
							pl := make([]byte, d.DataLen())
							for i := range pl {
								pl[i] = byte(i)
							}
							ft := byte(4)
							recs := fitmodel.FileIdRecords(0, ft)
							if m == 0 {
								// the definition is a further file_id definition: keep the type
								d.Fields = append([]fitmodel.FieldDef{{Num: 0, Size: 1, Base: fitmodel.Enum}}, d.Fields...)
								pl = append([]byte{ft}, pl...)
							}
							recs = append(recs, d.Bytes(), fitmodel.Data(1, pl), fitmodel.Data(1, pl))
							b := fitmodel.File(fitmodel.DefaultHeader, recs...)
							res := c.call("Decode", b, 0)
							w.Fam("e:developer-field-definitions", 1)
							w.DistinctS(fmt.Sprintf("dev/%d/%d/%d/%s", nreg, ndev, dsz, errClass(res.Err)))
							c.call("DecodeChained", b, 0)
							c.call("Decode+options", b, 0)
							if len(b) < 20000 {
								c.call("Decode", b, 1)
							}
							c.call("Decode", b[:len(b)-len(pl)/2-3], 0)
						}
					}
				}
			}
		}
	}
}

// c01FieldDescriptions: developer fields preceded by the messages that describe them — a field_description whose
// fit_base_type_id takes every byte value (most of them name no base type), with or without a developer_data_id,
// once or twice, before or after the definition that uses the field; the developer field's size takes values that
// are and are not multiples of any element size.
func c01FieldDescriptions(c *c01ctx) {
	w := c.w
	var idx int64
	for bt := 0; bt < 256; bt++ {
		for _, dsz := range []int{1, 2, 3, 4, 8, 255} {
			for shape := 0; shape < 4; shape++ {
				for o := 0; o < 2; o++ {
					idx++
					if !w.Mine(idx) {
						continue
					}
					big := o == 1
					recs := fitmodel.FileIdRecords(0, 4)
					if shape != 1 {
						did := fitmodel.Def{Local: 2, Big: big, Global: 207, Fields: []fitmodel.FieldDef{{Num: 3, Size: 1, Base: fitmodel.Uint8}, {Num: 1, Size: 16, Base: fitmodel.Byte}}}
						recs = append(recs, did.Bytes(), fitmodel.Data(2, append([]byte{0}, c01Fill(16)...)))
					}
					fdd := fitmodel.Def{Local: 3, Big: big, Global: 206, Fields: []fitmodel.FieldDef{{Num: 0, Size: 1, Base: fitmodel.Uint8}, {Num: 1, Size: 1, Base: fitmodel.Uint8}, {Num: 2, Size: 1, Base: fitmodel.Uint8}, {Num: 3, Size: 4, Base: fitmodel.String}, {Num: 8, Size: 2, Base: fitmodel.String}}}
					desc := func(b int) []byte { return fitmodel.Data(3, []byte{0, 7, byte(b), 'd', 'e', 'v', 0, 'm', 0}) }
					d := fitmodel.Def{Local: 1, Big: big, Global: 20, Fields: []fitmodel.FieldDef{{Num: 3, Size: 1, Base: fitmodel.Uint8}}, DevFlag: true, Dev: []fitmodel.DevDef{{Num: 7, Size: byte(dsz), Idx: 0}}}
					pl := append([]byte{71}, c01Fill(dsz)...)
					switch shape {
					case 0, 1:
						recs = append(recs, fdd.Bytes(), desc(bt), d.Bytes(), fitmodel.Data(1, pl))
					case 2: // described twice: a well-formed description, then this one
						recs = append(recs, fdd.Bytes(), desc(0x84), desc(bt), d.Bytes(), fitmodel.Data(1, pl), desc(0x02), fitmodel.Data(1, pl))
					case 3: // the description follows the definition
						recs = append(recs, d.Bytes(), fdd.Bytes(), desc(bt), fitmodel.Data(1, pl), d.Bytes(), fitmodel.Data(1, pl))
					}
					b := fitmodel.File(fitmodel.DefaultHeader, recs...)
					res := c.call("Decode", b, 0)
					w.Fam("l:field-descriptions", 1)
					w.DistinctS(fmt.Sprintf("fdesc/%d/%d/%d/%s", bt, dsz, shape, errClass(res.Err)))
					c.call("DecodeChained", b, 0)
					c.call("Decode+options", b, 0)
				}
			}
		}
	}
}

// ---------- (f) single-byte substitutions ----------

// c01Substitutions: every byte of every small valid stream replaced by every other value (and the stream then
// re-sealed so that the decoder gets past the CRC as well as not), through Decode and DecodeChained.
func c01Substitutions(c *c01ctx) {
	w := c.w
	var small []namedStream
	small = append(small, sMin12, sMin14, sAct3, sAct3BE, sSet, sMonState, sZero, sChain2)
	for _, p := range corpusFiles() {
		if b, err := os.ReadFile(p); err == nil && len(b) <= 260 {
			small = append(small, single(p, b))
		}
	}
	if c.w.Shard == 0 {
		w.Extra("substitution_streams", len(small))
	}
	var idx int64
	for _, s := range small {
		buf := make([]byte, len(s.B))
		for off := 0; off < len(s.B); off++ {
			idx++
			if !w.Mine(idx) {
				continue
			}
			if w.Expired("substitutions") {
				return
			}
			for v := 0; v < 256; v++ {
				if byte(v) == s.B[off] {
					continue
				}
				copy(buf, s.B)
				buf[off] = byte(v)
				c.call("Decode", buf, 0)
				if len(s.Members) == 1 && off >= int(s.B[0]) && off < len(s.B)-2 {
					// data-area byte: also with a recomputed file CRC so that parsing is not cut short by the check
					cc := fitmodel.CRCFast(0, buf[:len(buf)-2])
					buf[len(buf)-2], buf[len(buf)-1] = byte(cc), byte(cc>>8)
					c.call("Decode", buf, 0)
					c.call("DecodeChained", buf, 0)
				}
				w.Fam("f:single-byte-substitutions", 1)
			}
		}
	}
}

// ---------- (g) chained streams whose later members lean on earlier ones ----------

// c01Chains: a valid first file that leaves definitions on all 16 local types (unknown / known / mixed messages),
// followed by a second file whose file_id definition is followed by a data record (normal and compressed header)
// for every local type, by a definition with every header byte, or by nothing: decoder state must not leak between
// chained files, and whatever happens must be an error, not a panic.
func c01Chains(c *c01ctx) {
	w := c.w
	var firsts [][]byte
	for v := 0; v < 3; v++ {
		recs := fitmodel.FileIdRecords(0, 4)
		for l := 1; l < 16; l++ {
			var d fitmodel.Def
			switch {
			case v == 0 || (v == 2 && l%2 == 0):
				d = fitmodel.Def{Local: byte(l), Global: 0xFF00 + uint16(l), Fields: []fitmodel.FieldDef{{Num: 1, Size: 2, Base: fitmodel.Uint16}}}
			default:
				d = recordDef(byte(l), l%2 == 1)
			}
			recs = append(recs, d.Bytes(), fitmodel.Data(byte(l), make([]byte, d.DataLen())))
		}
		firsts = append(firsts, fitmodel.File(fitmodel.DefaultHeader, recs...))
	}
	var idx int64
	for fi, first := range firsts {
		for a := 0; a < 16; a++ {
			for h := 0; h < 256; h++ {
				idx++
				if !w.Mine(idx) {
					continue
				}
				// second member: file_id definition on local a, then record header byte h (+ a few payload bytes)
				second := fitmodel.File(hdr12(), fitmodel.FileIdDef(byte(a), false).Bytes(), []byte{byte(h), 4, 0, 0, 0, 0, 0, 0, 0, 0, 0})
				b := fitmodel.Concat(first, second)
				c.call("DecodeChained", b, 0)
				w.Fam("g:chained-stale-state", 1)
				if fi == 0 && h < 16 {
					c.call("DecodeChained", b, 1)
					// and with a proper file_id data record first, then the stale reference
					second2 := fitmodel.File(hdr14(), fitmodel.FileIdDef(byte(a), false).Bytes(), fitmodel.Data(byte(a), []byte{4}), []byte{byte(h), 1, 2, 3, 4, 5, 6, 7, 8, 9})
					c.call("DecodeChained", fitmodel.Concat(first, second2), 0)
				}
			}
		}
	}
}

func tableLens() (int, int, int) { return fitVerifTableLens() }

// ---------- (b) header space ----------

func c01Headers(c *c01ctx) {
	w := c.w
	body := fitmodel.Concat(fitmodel.FileIdRecords(0, 4)...)
	protos := []byte{0x10, 0x20, 0x2F, 0x30, 0xFF}
	dtypes := []string{".FIT", ".FIU", "\x00\x00\x00\x00"}
	var idx int64
	for size := 0; size < 256; size++ {
		idx++
		if !w.Mine(idx) {
			continue
		}
		for _, proto := range protos {
			for _, dt := range dtypes {
				for dsi := 0; dsi < 6; dsi++ {
					for crcMode := 0; crcMode < 3; crcMode++ {
						ds := []uint32{0, 1, uint32(len(body) - 1), uint32(len(body)), uint32(len(body) + 1), 0xFFFFFFFF}[dsi]
						h := fitmodel.HeaderBytes(fitmodel.Header{Size: 14, Proto: proto, Profile: 2115, DataType: dt, CRCMode: crcMode}, ds)
						h[0] = byte(size)
						if crcMode == 0 {
							cc := fitmodel.CRC(h[:12])
							h[12], h[13] = byte(cc), byte(cc>>8)
						}
						full := fitmodel.Concat(h, body)
						cc := fitmodel.CRC(full)
						full = append(full, byte(cc), byte(cc>>8))
						for cut := 0; cut <= 15; cut++ {
							b := full
							if cut < 15 {
								b = full[:cut]
							}
							for _, e := range entryNames {
								res := c.call(e, b, 0)
								w.Fam("b:headers", 1)
								if size == 12 || size == 14 {
									w.DistinctS("hdr/" + e + "/" + errClass(res.Err))
								}
							}
							for _, e := range optionEntries {
								c.call(e, b, 0)
								w.Fam("b:headers-with-options", 1)
							}
							if cut == 15 && (size == 12 || size == 14) {
								for _, e := range entryNames {
									c.call(e, b, 1)
								}
							}
						}
					}
				}
			}
		}
	}
	if w.Shard == 0 {
		w.Sample(map[string]interface{}{"family": "b", "header_hex": vx.Hex(fitmodel.HeaderBytes(fitmodel.DefaultHeader, uint32(len(body)))), "note": "size byte replaced by 0..255, truncated at 0..14"})
	}
}

// ---------- (c) record-header space ----------

// c01Body returns the body the model expects after record header h, given the
// slot table (payload length per local type, -1 undefined), and updates it.
func c01Body(h byte, slots *[16]int, variant int) []byte {
	switch {
	case h&0x80 != 0: // compressed timestamp data
		l := (h >> 5) & 3
		if slots[l] < 0 {
			return nil
		}
		return c01Fill(slots[l])
	case h&0x40 != 0: // definition
		l := h & 0x0F
		var d fitmodel.Def
		switch variant % 5 {
		case 3:
			d = fitmodel.Def{Global: 0x0114} // zero fields, unknown message
		case 4:
			d = fitmodel.Def{Global: 12, Big: true} // zero fields, a known message whose first field is not a time (sport)
		case 0:
			d = fitmodel.Def{Global: 20, Fields: []fitmodel.FieldDef{{Num: 253, Size: 4, Base: fitmodel.Uint32}, {Num: 3, Size: 1, Base: fitmodel.Uint8}}}
		case 1:
			d = fitmodel.Def{Global: 20, Big: true, Fields: nil}
		case 2:
			fs := make([]fitmodel.FieldDef, 255)
			for i := range fs {
				fs[i] = fitmodel.FieldDef{Num: byte(i), Size: 1, Base: fitmodel.Uint8}
			}
			d = fitmodel.Def{Global: 0xFF00, Fields: fs}
		}
		d.Local = l
		if h&0x20 != 0 {
			d.DevFlag = true
			d.Dev = []fitmodel.DevDef{{Num: 0, Size: 2, Idx: 0}}
		}
		b := d.Bytes()[1:]
		slots[l] = d.DataLen()
		return b
	default: // normal data
		l := h & 0x0F
		if slots[l] < 0 {
			return nil
		}
		return c01Fill(slots[l])
	}
}

// c01Fill: non-zero payload bytes (a zero timestamp field would never establish a time reference).
func c01Fill(n int) []byte {
	b := make([]byte, n)
	for i := range b {
		b[i] = byte(0x21 + i%7)
	}
	return b
}

func c01RecordHeaders(c *c01ctx) {
	w := c.w
	pre := fitmodel.Concat(fitmodel.HeaderBytes(fitmodel.DefaultHeader, 0), fitmodel.FileIdRecords(0, 4)[0], fitmodel.FileIdRecords(0, 4)[1])
	depth3 := []byte{0x00, 0x01, 0x0F, 0x10, 0x20, 0x3F, 0x40, 0x41, 0x4F, 0x60, 0x61, 0x7F, 0x80, 0x9F, 0xA0, 0xBF, 0xE0, 0xFF}
	var idx int64
	for h1 := 0; h1 < 256; h1++ {
		for h2 := 0; h2 < 256; h2++ {
			idx++
			if !w.Mine(idx) {
				continue
			}
			if w.Expired("record-header space") {
				return
			}
			variants := 1
			if h1&0xC0 == 0x40 {
				variants = 5
			}
			for v := 0; v < 2*variants; v++ {
				// the second half of the variants runs after a prefix that has established a time reference
				// (a record with an explicit timestamp on local 2) and left definitions on locals 2 and 3
				primed := v >= variants
				thirds := []int{-1}
				if !w.Quick() {
					for _, t := range depth3 {
						thirds = append(thirds, int(t))
					}
				}
				for _, h3 := range thirds {
					var slots [16]int
					for i := range slots {
						slots[i] = -1
					}
					slots[0] = 1 // file_id definition on local 0
					b := append([]byte{}, pre...)
					if primed {
						pd := recordDef(2, false)
						b = append(b, pd.Bytes()...)
						b = append(b, recordData(2, false, 1000000000, 70, 5)...)
						slots[2] = pd.DataLen()
						zd := fitmodel.Def{Local: 3, Global: 0x0114}
						b = append(b, zd.Bytes()...)
						slots[3] = 0
					}
					b = append(b, byte(h1))
					b = append(b, c01Body(byte(h1), &slots, v)...)
					b = append(b, byte(h2))
					b = append(b, c01Body(byte(h2), &slots, 0)...)
					if h3 >= 0 {
						b = append(b, byte(h3))
						b = append(b, c01Body(byte(h3), &slots, 0)...)
					}
					b = append(b, 0, 0)
					fitmodel.Seal(b)
					res := c.call("Decode", b, 0)
					w.Fam("c:record-header-words", 1)
					w.DistinctS(fmt.Sprintf("rh/%02x/%s", h1&0xE0, errClass(res.Err)))
					c.call("DecodeChained", b, 0)
					c.call("Decode+options", b, 0)
					if h3 >= 0 {
						continue
					}
					if len(b) < 200 {
						c.call("Decode", b, 1)
					}
					// every cut: plain truncation and re-framed truncation (data size = cut)
					lim := len(b)
					if lim > 120 {
						lim = 120
					}
					if primed {
						continue
					}
					for cut := len(pre); cut < lim; cut++ {
						c.call("Decode", b[:cut], 0)
						rf := append(append([]byte{}, b[:cut]...), 0, 0)
						fitmodel.Seal(rf)
						c.call("Decode", rf, 0)
						w.Fam("c:cuts", 2)
					}
				}
			}
		}
	}
	if w.Shard == 0 {
		w.Sample(map[string]interface{}{"family": "c", "prefix_hex": vx.Hex(pre), "note": "followed by every pair of record header bytes with model-expected bodies"})
	}
}

// ---------- (d) corpus ----------

// crasherInputs extracts the string literals of fuzz_test.go's input table.
func crasherInputs() [][]byte {
	fset := token.NewFileSet()
	f, err := parser.ParseFile(fset, filepath.Join(repoRoot, "fuzz_test.go"), nil, 0)
	if err != nil {
		return nil
	}
	var out [][]byte
	var eval func(e ast.Expr) (string, bool)
	eval = func(e ast.Expr) (string, bool) {
		switch x := e.(type) {
		case *ast.BasicLit:
			if x.Kind == token.STRING {
				s, err := strconv.Unquote(x.Value)
				return s, err == nil
			}
		case *ast.BinaryExpr:
			if x.Op == token.ADD {
				a, ok1 := eval(x.X)
				b, ok2 := eval(x.Y)
				return a + b, ok1 && ok2
			}
		case *ast.ParenExpr:
			return eval(x.X)
		}
		return "", false
	}
	ast.Inspect(f, func(n ast.Node) bool {
		cl, ok := n.(*ast.CompositeLit)
		if !ok || len(cl.Elts) != 2 {
			return true
		}
		if _, ok := eval(cl.Elts[0]); !ok {
			return true
		}
		if s, ok := eval(cl.Elts[1]); ok {
			out = append(out, []byte(s))
		}
		return true
	})
	return out
}

func corpusFiles() []string {
	var files []string
	filepath.Walk(filepath.Join(repoRoot, "testdata"), func(p string, info os.FileInfo, err error) error {
		if err == nil && !info.IsDir() && filepath.Ext(p) == ".fit" {
			files = append(files, p)
		}
		return nil
	})
	sort.Strings(files)
	return files
}

func c01Corpus(c *c01ctx) {
	w := c.w
	type item struct {
		name string
		b    []byte
	}
	var items []item
	for i, b := range crasherInputs() {
		items = append(items, item{fmt.Sprintf("crasher-%d", i), b})
	}
	ncrash := len(items)
	for _, p := range corpusFiles() {
		b, err := os.ReadFile(p)
		if err == nil {
			items = append(items, item{p, b})
		}
	}
	if w.Shard == 0 {
		w.Extra("corpus", map[string]int{"crasher_inputs": ncrash, "testdata_files": len(items) - ncrash})
	}
	var idx int64
	for _, it := range items {
		for _, e := range append(append([]string{}, entryNames...), optionEntries...) {
			idx++
			if w.Mine(idx) {
				c.call(e, it.b, 0)
				if len(it.b) < 8192 {
					c.call(e, it.b, 1)
				}
				w.Fam("d:corpus-whole", 1)
			}
		}
		// cuts
		step := 1
		if len(it.b) > 4096 {
			step = len(it.b) / 1500
			if !w.Quick() {
				step = len(it.b) / 20000
			}
			if step < 1 {
				step = 1
			}
		}
		for cut := 0; cut < len(it.b); cut++ {
			if cut > 2048 && cut%step != 0 {
				continue
			}
			idx++
			if !w.Mine(idx) {
				continue
			}
			if w.Expired("corpus cuts") {
				return
			}
			c.call("Decode", it.b[:cut], 0)
			c.call("DecodeChained", it.b[:cut], 0)
			c.call("CheckIntegrity", it.b[:cut], 0)
			if cut < 2048 {
				c.call("Decode+options", it.b[:cut], 0)
				c.call("DecodeChained+options", it.b[:cut], 0)
			}
			if cut < 64 {
				c.call("DecodeHeader", it.b[:cut], 0)
				c.call("DecodeHeaderAndFileID", it.b[:cut], 0)
				c.call("CheckIntegrityHeaderOnly", it.b[:cut], 0)
			}
			w.Fam("d:corpus-cuts", 1)
		}
	}
}

// (h) headers that lie about the data size: every declared size from 0 to past the end, on streams with long fields
// (a 200-byte array, 40-byte strings, 100 bytes of developer data), so that the declared end falls inside a field,
// inside a record header, inside a definition; header CRC right or absent; followed by nothing, by the rest of the
// original bytes, or by another valid file; whole-buffer, 1-, 3- and 17-byte reads.
func c01LyingSizes(c *c01ctx) {
	w := c.w
	long := fitmodel.Def{Local: 1, Global: 0xFF00, Fields: []fitmodel.FieldDef{{Num: 0, Size: 200, Base: fitmodel.Byte}, {Num: 1, Size: 2, Base: fitmodel.Uint16}}}
	str := fitmodel.Def{Local: 2, Big: true, Global: 12, Fields: []fitmodel.FieldDef{{Num: 3, Size: 40, Base: fitmodel.String}, {Num: 0, Size: 1, Base: fitmodel.Enum}}}
	dev := fitmodel.Def{Local: 3, Global: 20, Fields: []fitmodel.FieldDef{{Num: 3, Size: 1, Base: fitmodel.Uint8}}, DevFlag: true, Dev: []fitmodel.DevDef{{Num: 0, Size: 100, Idx: 0}}}
	fill := func(n int, b byte) []byte {
		p := make([]byte, n)
		for i := range p {
			p[i] = b + byte(i)
		}
		return p
	}
	sp := append([]byte("a sport name that is fairly long"), make([]byte, 8)...)
	bases := [][]byte{
		fitmodel.File(fitmodel.DefaultHeader, append(fitmodel.FileIdRecords(0, 4), long.Bytes(), fitmodel.Data(1, fill(202, 1)), fitmodel.Data(1, fill(202, 7)))...),
		fitmodel.File(hdr12(), append(fitmodel.FileIdRecords(0, 3), str.Bytes(), fitmodel.Data(2, append(sp, 2)), fitmodel.Data(2, append(sp, 1)))...),
		fitmodel.File(fitmodel.DefaultHeader, append(fitmodel.FileIdRecords(0, 4), dev.Bytes(), fitmodel.Data(3, fill(101, 3)), recordDef(4, false).Bytes(), recordData(4, false, 1000000000, 60, 9))...),
	}
	var idx int64
	for bi, base := range bases {
		hs := int(base[0])
		dataLen := len(base) - hs - 2
		for D := 0; D <= dataLen+20; D++ {
			for crcMode := 0; crcMode < 2; crcMode++ {
				if hs == 12 && crcMode == 1 {
					continue
				}
				idx++
				if !w.Mine(idx) {
					continue
				}
				b := append([]byte{}, base...)
				b[4], b[5], b[6], b[7] = byte(D), byte(D>>8), byte(D>>16), byte(D>>24)
				if hs == 14 {
					if crcMode == 0 {
						cc := fitmodel.CRC(b[:12])
						b[12], b[13] = byte(cc), byte(cc>>8)
					} else {
						b[12], b[13] = 0, 0
					}
				}
				// (i) the rest of the original bytes follow; (ii) exactly D data bytes + a right file CRC, then a valid file;
				// (iii) cut right after the declared data
				variants := [][]byte{b}
				if D <= dataLen {
					exact := append([]byte{}, b[:hs+D]...)
					cc := fitmodel.CRC(exact)
					exact = append(exact, byte(cc), byte(cc>>8))
					variants = append(variants, fitmodel.Concat(exact, sMin12.B), b[:hs+D])
				}
				for vi, v := range variants {
					for _, chunk := range []int{0, 1, 3, 17} {
						c.call("Decode", v, chunk)
						c.call("DecodeChained", v, chunk)
						if chunk <= 1 {
							c.call("CheckIntegrity", v, chunk)
							c.call("DecodeHeaderAndFileID", v, chunk)
						}
						if vi == 0 && chunk == 1 {
							c.call("Decode+options", v, chunk)
						}
					}
					w.Fam("h:lying-data-size", 1)
					w.DistinctS(fmt.Sprintf("lie/%d/%d/%d", bi, vi, D*1000/(dataLen+1)/100))
				}
			}
		}
	}
}

// (i) every whole-second zone offset between -15 h and +15 h of a local timestamp from its UTC reference (108 001
// values, both byte orders): value-dependent table lookups in the time code must not fail for any of them.
func c01LocalSweep(c *c01ctx) {
	w := c.w
	var idx int64
	for start := sweepLo; start <= sweepHi; start += sweepPer {
		for _, big := range []bool{false, true} {
			idx++
			if !w.Mine(idx) {
				continue
			}
			stream, _ := localSweepFile(start, big)
			c.call("Decode", stream, 0)
			c.call("DecodeChained", stream, 0)
			w.Fam("i:zone-offset-sweep", 1)
		}
	}
}

// (j) records between the file_id definition and the first file_id data record: every pair of record-header bytes
// (definitions of known / unknown messages, data for defined and undefined local types, compressed headers) with
// model-expected bodies, followed by the file_id data record; the header / file_id entry points included.
func c01BeforeFileId(c *c01ctx) {
	w := c.w
	pre := fitmodel.Concat(fitmodel.HeaderBytes(fitmodel.DefaultHeader, 0), fitmodel.FileIdRecords(0, 4)[0])
	var idx int64
	for h1 := 0; h1 < 256; h1++ {
		for h2 := 0; h2 < 256; h2++ {
			idx++
			if !w.Mine(idx) {
				continue
			}
			variants := 1
			if h1&0xC0 == 0x40 {
				variants = 5
			}
			for v := 0; v < variants; v++ {
				var slots [16]int
				for i := range slots {
					slots[i] = -1
				}
				slots[0] = 1
				b := append([]byte{}, pre...)
				b = append(b, byte(h1))
				b = append(b, c01Body(byte(h1), &slots, v)...)
				b = append(b, byte(h2))
				b = append(b, c01Body(byte(h2), &slots, 0)...)
				b = append(b, fitmodel.FileIdRecords(0, 4)[1]...)
				b = append(b, 0, 0)
				fitmodel.Seal(b)
				res := c.call("Decode", b, 0)
				c.call("DecodeChained", b, 0)
				c.call("DecodeHeaderAndFileID", b, 0)
				c.call("Decode+options", b, 0)
				w.Fam("j:records-before-file_id-data", 1)
				w.DistinctS(fmt.Sprintf("pre/%02x/%s", h1&0xE0, errClass(res.Err)))
			}
		}
	}
}

// (k) string fields filled with every word over the UTF-8 byte classes {NUL, ASCII, continuation bytes 0x80 / 0xBF,
// 2-, 3- and 4-byte lead bytes, 0xFF} for field sizes 1..4 (scalar strings and string arrays of every known message
// that has one), with and without a terminator: string handling that scans for rune boundaries must stay in bounds.
func c01StringBytes(c *c01ctx) {
	w := c.w
	p := prof()
	alpha := []byte{0x00, 'a', 0x80, 0xBF, 0xC3, 0xE2, 0xF0, 0xFF}
	var idx int64
	for _, e := range p.all {
		if e.Base != fitmodel.String {
			continue
		}
		m := uint16(e.Mesg)
		ft, ok := hostType(m)
		if !ok {
			ft = 4
		}
		for size := 1; size <= 4; size++ {
			n := 1
			for i := 0; i < size; i++ {
				n *= len(alpha)
			}
			for code := 0; code < n; code++ {
				idx++
				if !w.Mine(idx) {
					continue
				}
				pl := make([]byte, size)
				x := code
				for i := range pl {
					pl[i] = alpha[x%len(alpha)]
					x /= len(alpha)
				}
				var b []byte
				if m == 0 {
					d := fitmodel.Def{Local: 0, Global: 0, Fields: []fitmodel.FieldDef{{Num: 0, Size: 1, Base: fitmodel.Enum}, {Num: e.Num, Size: byte(size), Base: fitmodel.String}}}
					b = fitmodel.File(fitmodel.DefaultHeader, d.Bytes(), fitmodel.Data(0, append([]byte{ft}, pl...)))
				} else {
					b = probeStream(ft, m, code%2 == 1, []fitmodel.FieldDef{{Num: e.Num, Size: byte(size), Base: fitmodel.String}}, pl)
				}
				c.call("Decode", b, 0)
				if size <= 2 {
					c.call("DecodeHeaderAndFileID", b, 0)
					c.call("Decode+options", b, 0)
				}
				w.Fam("k:string-byte-classes", 1)
			}
		}
	}
}
