package props

import (
	"bytes"
	"encoding/hex"
	"encoding/json"
	"errors"
	"fmt"
	"strings"

	"verif/fitmodel"
	"verif/vx"
)

// The "mix" family: all words up to a length over an alphabet that crosses the decoder's features — definitions
// in both byte orders, with the timestamp first / in the middle / absent, zero-field definitions, developer
// fields, unknown messages, unknown fields in known messages, signed and array fields, a local timestamp, a
// message the file type does not host, a second file_id, on two local types that keep being redefined; data
// records with normal and compressed-timestamp headers — decoded by the real decoder and compared, message by
// message and field by field, with the complete reference decoder (refdecode.go). It is shared by the properties
// about values (C02), routing (C03), timestamps (C12) and local message types (C13): each of them promises one
// aspect of the same record loop, and the interactions between the aspects are where the per-property families
// are blind.

type mixOp struct {
	Kind  int // 0 define, 1 data, 2 compressed data (position-dependent time offset), 3 compressed data whose time offset has the other local type in its low nibble
	Local byte
	Def   int
}

var mixDefNames = []string{"rec-le-ts-first", "rec-be-ts-mid", "rec-le-no-ts", "unknown-msg", "lap-zero-fields", "rec-le-dev",
	"activity-localtime", "rec-be-signed-unknownfield", "hrv-array", "monitoring-unhosted", "file_id", "event-be", "file_creator", "rec-le-narrow-coords",
	"unknown-msg-dev", "course_point-own-ts", "activity-localtime-first"}

func (o mixOp) String() string {
	switch o.Kind {
	case 0:
		return fmt.Sprintf("def(l%d,%s)", o.Local, mixDefName(o.Def))
	case 1:
		return fmt.Sprintf("data(l%d)", o.Local)
	case 3:
		return fmt.Sprintf("xdata(l%d)", o.Local)
	}
	return fmt.Sprintf("cdata(l%d)", o.Local)
}

// mixDefName: shapes from 100 on are not part of the word alphabet; the long runs use them.
func mixDefName(k int) string {
	if k == 100 {
		return "unknown-msg-colliding-fields"
	}
	return mixDefNames[k]
}

func mixDef(k int, local byte) fitmodel.Def {
	F := func(n, s, b byte) fitmodel.FieldDef { return fitmodel.FieldDef{Num: n, Size: s, Base: b} }
	switch k {
	case 100: // a message outside the profile whose field numbers are those of record fields, with other types and sizes
		return fitmodel.Def{Local: local, Global: 0xFF01, Fields: []fitmodel.FieldDef{F(3, 4, fitmodel.String), F(0, 3, fitmodel.Byte), F(253, 2, fitmodel.String), F(5, 8, fitmodel.Float64), F(4, 6, fitmodel.Uint16)}}
	case 0:
		return fitmodel.Def{Local: local, Global: 20, Fields: []fitmodel.FieldDef{F(253, 4, fitmodel.Uint32), F(3, 1, fitmodel.Uint8), F(5, 4, fitmodel.Uint32)}}
	case 1:
		return fitmodel.Def{Local: local, Big: true, Global: 20, Fields: []fitmodel.FieldDef{F(3, 1, fitmodel.Uint8), F(253, 4, fitmodel.Uint32), F(4, 1, fitmodel.Uint8)}}
	case 2:
		return fitmodel.Def{Local: local, Global: 20, Fields: []fitmodel.FieldDef{F(3, 1, fitmodel.Uint8)}}
	case 3:
		return fitmodel.Def{Local: local, Global: 0x0114, Fields: []fitmodel.FieldDef{F(0, 3, fitmodel.Byte)}}
	case 4:
		return fitmodel.Def{Local: local, Global: 19}
	case 5:
		return fitmodel.Def{Local: local, Global: 20, Fields: []fitmodel.FieldDef{F(3, 1, fitmodel.Uint8)}, DevFlag: true, Dev: []fitmodel.DevDef{{Num: 0, Size: 2, Idx: 0}}}
	case 6:
		return fitmodel.Def{Local: local, Global: 34, Fields: []fitmodel.FieldDef{F(253, 4, fitmodel.Uint32), F(5, 4, fitmodel.Uint32), F(1, 2, fitmodel.Uint16)}}
	case 7:
		return fitmodel.Def{Local: local, Big: true, Global: 20, Fields: []fitmodel.FieldDef{F(253, 4, fitmodel.Uint32), F(0, 4, fitmodel.Sint32), F(13, 1, fitmodel.Sint8), F(250, 2, fitmodel.Uint16)}}
	case 8:
		return fitmodel.Def{Local: local, Global: 78, Fields: []fitmodel.FieldDef{F(0, 6, fitmodel.Uint16)}}
	case 9:
		return fitmodel.Def{Local: local, Global: 55, Fields: []fitmodel.FieldDef{F(253, 4, fitmodel.Uint32), F(1, 2, fitmodel.Uint16)}}
	case 10:
		return fitmodel.Def{Local: local, Global: 0, Fields: []fitmodel.FieldDef{F(0, 1, fitmodel.Enum), F(1, 2, fitmodel.Uint16)}}
	case 11:
		return fitmodel.Def{Local: local, Big: true, Global: 21, Fields: []fitmodel.FieldDef{F(253, 4, fitmodel.Uint32), F(0, 1, fitmodel.Enum), F(1, 1, fitmodel.Enum)}}
	case 13: // little-endian, coordinates narrower than the profile type (widening depends on the byte order)
		return fitmodel.Def{Local: local, Global: 20, Fields: []fitmodel.FieldDef{F(0, 2, fitmodel.Sint16), F(3, 1, fitmodel.Uint8), F(1, 1, fitmodel.Sint8)}}
	case 14: // a message outside the profile that carries developer data
		return fitmodel.Def{Local: local, Global: 0xFF00, Fields: []fitmodel.FieldDef{F(1, 2, fitmodel.Uint16)}, DevFlag: true, Dev: []fitmodel.DevDef{{Num: 0, Size: 3, Idx: 0}}}
	case 15: // a message whose time field is an ordinary field (number 1), not the common field 253
		return fitmodel.Def{Local: local, Global: 32, Fields: []fitmodel.FieldDef{F(1, 4, fitmodel.Uint32), F(5, 1, fitmodel.Enum), F(254, 2, fitmodel.Uint16)}}
	case 16: // the local time precedes the message's own timestamp: it is resolved against the previous reference
		return fitmodel.Def{Local: local, Big: true, Global: 34, Fields: []fitmodel.FieldDef{F(5, 4, fitmodel.Uint32), F(253, 4, fitmodel.Uint32), F(1, 2, fitmodel.Uint16)}}
	case 12: // a message kept at File level, not in the container
		return fitmodel.Def{Local: local, Global: 49, Fields: []fitmodel.FieldDef{F(0, 2, fitmodel.Uint16), F(1, 1, fitmodel.Uint8)}}
	}
	panic("mixDef")
}

// mixTS: the timestamp at a position — three coarse steps 50 s apart that go forwards and backwards, plus a few
// seconds, so that neighbouring messages' times differ by seconds as well as by minutes.
func mixTS(pos int) int {
	return 1000000000 + ((pos*37)%11/4)*50 + (pos%5)*3
}

// mixPayload: values depend on the position in the word, so that no two records carry the same content and the
// timestamps go forwards and backwards.
func mixPayload(d fitmodel.Def, pos int) []byte {
	var p []byte
	o := d.Order()
	for j, f := range d.Fields {
		bs := fitmodel.BaseSize(f.Base)
		n := int(f.Size) / bs
		for e := 0; e < n; e++ {
			var v uint64
			switch {
			case f.Num == 253 && pos%5 == 3:
				v = uint64(0x0FFFFFF0 + pos) // a reference below the system-time marker
			case f.Num == 253:
				v = uint64(mixTS(pos))
			case d.Global == 0 && f.Num == 0:
				v = 4
			case d.Global == 32 && f.Num == 1:
				v = uint64(1000000000 + ((pos*41)%13)*50)
			case d.Global == 34 && f.Num == 5:
				// local time: whole hours, and offsets that are not whole minutes
				v = uint64(mixTS(pos) + 3600*(pos%3) + 13*(pos%2))
			case fitmodel.BaseSigned(f.Base) && pos%2 == 1:
				v = uint64(int64(-(pos*7 + j + 2))) // two's complement, truncated by PutUint
			default:
				v = uint64(2 + (pos*7+j*3+e)%50)
			}
			p = append(p, fitmodel.PutUint(o, bs, v)...)
		}
	}
	for _, dv := range d.Dev {
		for e := 0; e < int(dv.Size); e++ {
			p = append(p, byte(0xA0+pos+e))
		}
	}
	return p
}

// mixOffset: the 5-bit time offset of a compressed-timestamp record at a position: values whose low nibble equals
// one of the two local types in use (1, 2, 17, 18), rollover-prone ones and others.
// Even positions always use offset 9, so that a word can hold two compressed records with the identical header byte
// on either side of a redefinition.
func mixOffset(pos int) byte {
	if pos%2 == 0 {
		return 9
	}
	return []byte{1, 18, 31, 2, 17, 0, 30, 16}[pos/2%8]
}

// mixRecord: one data record for op o at position i under definition d.
func mixRecord(o mixOp, i int, d fitmodel.Def) []byte {
	switch o.Kind {
	case 1:
		return fitmodel.Data(o.Local, mixPayload(d, i))
	case 3:
		// the low nibble of the offset is the *other* local type in use (a header decoded with the normal-header
		// mask would point there); bit 4 alternates
		other := byte(3 - o.Local)
		return fitmodel.Compressed(o.Local, other|byte(i%2)<<4, mixPayload(d, i))
	}
	return fitmodel.Compressed(o.Local, mixOffset(i), mixPayload(d, i))
}

// mixStream builds the stream for a word; ok is false when the word uses a local type that is not defined (the
// generator then has no layout for the record; those words are C13's and C16's subject).
func mixStream(ops []mixOp, probe bool) (stream []byte, full []mixOp, ok bool) {
	return mixStreamV(ops, probe, mixVariant{})
}

// mixVariant: the twin forms of one word — every definition in the other byte order, and the three header forms
// (14 bytes with CRC, 12 bytes, 14 bytes with the CRC left zero). Twins carry the same values, so they must decode
// to the same content; each is also judged by the reference decoder on its own.
type mixVariant struct {
	Flip bool
	Hdr  int
}

func mixStreamV(ops []mixOp, probe bool, v mixVariant) (stream []byte, full []mixOp, ok bool) {
	fid := fitmodel.FileIdDef(0, v.Flip)
	parts := [][]byte{fid.Bytes(), fitmodel.Data(0, []byte{4})}
	var slots [16]*fitmodel.Def
	slots[0] = &fid
	hdr := fitmodel.DefaultHeader
	switch v.Hdr {
	case 1:
		hdr = hdr12()
	case 2:
		hdr = hdr14zero()
	}
	for i, o := range ops {
		switch o.Kind {
		case 0:
			d := mixDef(o.Def, o.Local)
			if v.Flip {
				d.Big = !d.Big
			}
			slots[o.Local] = &d
			parts = append(parts, d.Bytes())
		case 1, 2, 3:
			d := slots[o.Local]
			if d == nil {
				return nil, nil, false
			}
			parts = append(parts, mixRecord(o, i, *d))
		}
	}
	full = append(full, ops...)
	if probe {
		// every defined local once with a normal and once with a compressed-timestamp header, in a crossed order
		for k, o := range []mixOp{{Kind: 1, Local: 1}, {Kind: 2, Local: 2}, {Kind: 2, Local: 1}, {Kind: 1, Local: 2}} {
			d := slots[o.Local]
			if d == nil {
				continue
			}
			parts = append(parts, mixRecord(o, len(ops)+k, *d))
			full = append(full, o)
		}
	}
	return fitmodel.File(hdr, parts...), full, true
}

var errOutsideModel = errors.New("outside the reference decoder's model")

// mixCheck decodes a stream with the real decoder and the reference decoder; "" when they agree.
func mixCheck(stream []byte) string {
	rf, err := refDecode(stream)
	res := safeDecode(bytes.NewReader(stream))
	if res.Panic != "" {
		return "panic: " + res.Panic
	}
	if err != nil {
		if errors.Is(err, errOutsideModel) {
			return ""
		}
		if res.Err == nil {
			return "the reference decoder rejects the stream (" + err.Error() + "), Decode accepts it"
		}
		return ""
	}
	if rf.expectError {
		if res.Err == nil {
			return "a file_id of another type must be rejected, Decode accepts the stream"
		}
		return ""
	}
	if res.Err != nil {
		if rf.mayReject {
			return ""
		}
		return "Decode rejects a valid stream: " + res.Err.Error()
	}
	return refCompare(res.File, rf)
}

// mixCheckOpts: like mixCheck, with all decode options (formatting logger, unknown fields, unknown messages).
func mixCheckOpts(stream []byte) string {
	rf, err := refDecode(stream)
	if err != nil || rf.expectError || rf.mayReject {
		return ""
	}
	res := callEntry("Decode+options", bytes.NewReader(stream))
	if res.Panic != "" {
		return "panic: " + res.Panic
	}
	if res.Err != nil {
		return "Decode with options rejects a valid stream: " + res.Err.Error()
	}
	return refCompare(res.File, rf)
}

type mixReplayT struct {
	Opts   bool     `json:"with_options,omitempty"`
	Mix    bool     `json:"mix"`
	Ops    []mixOp  `json:"ops,omitempty"`
	Word   string   `json:"word,omitempty"`
	Stream string   `json:"stream"`
	Long   *longRun `json:"long_run,omitempty"`
}

// mixReplay: shared by the Replay functions of the properties that run the family.
func mixReplay(raw json.RawMessage) (string, bool, error) {
	var r mixReplayT
	if json.Unmarshal(raw, &r) != nil || !r.Mix {
		return "", false, nil
	}
	if r.Long != nil {
		if msg := r.Long.check(); msg != "" {
			return "", true, fmt.Errorf("%s: %s", r.Word, msg)
		}
		return r.Word + ": ok", true, nil
	}
	b, err := hex.DecodeString(r.Stream)
	if err != nil {
		return "", true, err
	}
	if r.Opts {
		if msg := mixCheckOpts(b); msg != "" {
			return "", true, fmt.Errorf("%s (all options): %s", r.Word, msg)
		}
	}
	if msg := mixCheck(b); msg != "" {
		return "", true, fmt.Errorf("%s: %s", r.Word, msg)
	}
	return r.Word + ": ok", true, nil
}

func mixAlphabet() []mixOp {
	var a []mixOp
	for _, l := range []byte{1, 2} {
		a = append(a, mixOp{Kind: 1, Local: l}, mixOp{Kind: 2, Local: l}, mixOp{Kind: 3, Local: l})
	}
	for _, l := range []byte{1, 2} {
		for k := range mixDefNames {
			a = append(a, mixOp{Kind: 0, Local: l, Def: k})
		}
	}
	return a
}

func mixWordString(ops []mixOp) string {
	s := make([]string, len(ops))
	for i, o := range ops {
		s[i] = o.String()
	}
	return strings.Join(s, " ")
}

// mixFamily runs all words of length <= maxLen (each followed by a probe of both locals so that the last
// definition's effect is observed). Returns the number of streams decoded.
func mixFamily(w *vx.W, maxLen int) {
	alpha := mixAlphabet()
	ops := make([]mixOp, 0, 12)
	var word []int
	body := func() bool {
		for probe := 0; probe < 2; probe++ {
			stream, full, ok := mixStream(ops, probe == 1)
			if !ok {
				continue
			}
			w.Eval(1)
			w.Trace(1)
			w.Fam(fmt.Sprintf("mix-words-len%d", len(word)), 1)
			w.Distinct(vx.HashB(stream))
			if msg := mixCheck(stream); msg != "" {
				cp := append([]mixOp{}, full...)
				w.Violation("mix", fmt.Sprintf("word [%s]: %s", mixWordString(cp), msg), mixReplayT{Mix: true, Ops: cp, Word: mixWordString(cp), Stream: hex.EncodeToString(stream)})
			}
			// with every decode option and a logger that formats what it is given: the reference prediction holds
			// unchanged (logging or counting must not disturb decoding)
			if probe == 1 {
				w.Eval(1)
				w.Trace(1)
				w.Fam("mix-words-with-options", 1)
				if msg := mixCheckOpts(stream); msg != "" {
					cp := append([]mixOp{}, full...)
					w.Violation("mix-with-options", fmt.Sprintf("word [%s] decoded with all options: %s", mixWordString(cp), msg), mixReplayT{Mix: true, Ops: cp, Word: mixWordString(cp), Stream: hex.EncodeToString(stream), Opts: true})
				}
			}
			// twins (shorter words): the other byte order for every definition, and the other two header forms
			if probe == 1 && (len(word) < maxLen || (maxLen < 4 && len(word) == 4)) {
				base := ""
				for _, v := range []mixVariant{{}, {Flip: true}, {Hdr: 1}, {Flip: true, Hdr: 2}} {
					st, _, _ := mixStreamV(ops, true, v)
					res := safeDecode(bytes.NewReader(st))
					content := fmt.Sprintf("err=%v panic=%s %s", res.Err, res.Panic, dumpFileContent(res.File))
					if v == (mixVariant{}) {
						base = content
						continue
					}
					w.Eval(1)
					w.Trace(1)
					w.Fam("mix-twins", 1)
					msg := mixCheck(st)
					if msg == "" && content != base {
						msg = fmt.Sprintf("decodes differently from its twin (little/big-endian definitions, header form): %s vs %s", trunc(content, 250), trunc(base, 250))
					}
					if msg != "" {
						cp := append([]mixOp{}, full...)
						w.Violation("mix-twin", fmt.Sprintf("word [%s] with flipped byte order=%v header form %d: %s", mixWordString(cp), v.Flip, v.Hdr, msg), mixReplayT{Mix: true, Ops: cp, Word: mixWordString(cp), Stream: hex.EncodeToString(st)})
					}
				}
			}
		}
		return true
	}
	seqWords(len(alpha), maxLen, w.Mine, func(wd []int) bool {
		if len(wd) >= 4 && w.Expired("mix-words") {
			return false
		}
		word = wd
		ops = ops[:0]
		for _, a := range wd {
			ops = append(ops, alpha[a])
		}
		return body()
	})
	if maxLen >= 4 {
		return
	}
	// redefinition pairs (length-4 words the quick bound does not reach): a local type defined, used, redefined with
	// every other shape and used again, under each pair of record kinds — what a decoder keeps per local type (a
	// cached message, a cached field position, a cached byte order) must not outlive the redefinition
	var idx int64
	word = make([]int, 4)
	for a := range mixDefNames {
		for b := range mixDefNames {
			for k1 := 1; k1 <= 3; k1++ {
				for k2 := 1; k2 <= 3; k2++ {
					idx++
					if !w.Mine(idx) {
						continue
					}
					ops = append(ops[:0], mixOp{Kind: 0, Local: 1, Def: a}, mixOp{Kind: k1, Local: 1}, mixOp{Kind: 0, Local: 1, Def: b}, mixOp{Kind: k2, Local: 1})
					body()
				}
			}
		}
	}
}

func init() {
	const t = " Shared mix family: all words up to length 3 (quick) / 4 (thorough) over {define(l, one of 17 shapes), data(l), compressed data(l) with a position-dependent time offset, compressed data(l) whose offset carries the other local type in its low nibble} for two local types — both byte orders, timestamp first / in the middle / absent, zero-field and developer-field definitions, an unknown message, unknown fields in a known message, signed, array and local-time fields, a message the file type does not host, a second file_id, an unknown message with developer data, a message whose time field is not field 253, a local time that precedes its message's timestamp — each word also followed by a probe of every defined local type; the decoded File is compared message by message and field by field with a complete reference decoder (independent parser + value model + timestamp machine + reflection-derived router). Words shorter than the bound are also decoded in their twin forms (every definition in the other byte order; 12-byte header; 14-byte header with a zero CRC): same content as the original, and each judged by the reference decoder; every probed word once more with all decode options and a logger that formats its arguments. Quick tier also: all redefinition pairs define(l,a) x(l) define(l,b) y(l) over the 17x17 shapes and the 3x3 record kinds, with probes and twins."
	for _, id := range []string{"C02", "C03", "C12", "C13"} {
		vx.AppendRule(id, t)
	}
	for _, id := range []string{"C02", "C03", "C12", "C13"} {
		vx.AppendRule(id, " The same words as members of chains (all ordered pairs, triples of the short words) through DecodeChained: each File must equal the reference prediction for its member alone and the member decoded alone (also with all decode options), so neither the reference time nor the definition slots survive a file boundary.")
	}
	vx.AppendRule("C16", " Generic form: counters derived from the independent parser and content from the reference decoder, over the mix words (length <=2 quick / <=3 thorough), the shared streams and every device file of the corpus, under all 8 option sets.")
	vx.AppendRule("C10", " Chains of mix-family files: every ordered pair of words (length <=1 quick / <=2 thorough) and every triple of the short words through DecodeChained, each returned File against the reference decoder's prediction for that member alone; Decode of the chain must consume exactly the first member.")
}
