// Package props holds one explorer per property (C01..C20).
package props

import (
	"bytes"
	"encoding/binary"
	"fmt"
	"io"
	"reflect"
	"runtime/debug"
	"sort"
	"strings"
	"sync"
	"time"

	"github.com/tormoder/fit"

	"verif/fitmodel"
)

// ---- profile view (from the hook exports) ----

type profT struct {
	known    []uint16 // sorted known message numbers
	isKnown  map[uint16]bool
	fields   map[uint16]map[byte]fit.VerifField // by lookup slot
	byMesg   map[uint16][]fit.VerifField        // sorted by slot
	all      []fit.VerifField
	rowMesgs []uint16 // message numbers with at least one table entry
}

var (
	profOnce sync.Once
	profV    *profT
)

func prof() *profT {
	profOnce.Do(func() {
		p := &profT{isKnown: map[uint16]bool{}, fields: map[uint16]map[byte]fit.VerifField{}, byMesg: map[uint16][]fit.VerifField{}}
		for _, m := range fit.VerifKnownMesgNums() {
			p.known = append(p.known, uint16(m))
			p.isKnown[uint16(m)] = true
		}
		sort.Slice(p.known, func(i, j int) bool { return p.known[i] < p.known[j] })
		p.all = fit.VerifFields()
		for _, f := range p.all {
			m := uint16(f.Mesg)
			if p.fields[m] == nil {
				p.fields[m] = map[byte]fit.VerifField{}
				p.rowMesgs = append(p.rowMesgs, m)
			}
			p.fields[m][byte(f.Slot)] = f
			p.byMesg[m] = append(p.byMesg[m], f)
		}
		sort.Slice(p.rowMesgs, func(i, j int) bool { return p.rowMesgs[i] < p.rowMesgs[j] })
		profV = p
	})
	return profV
}

// ---- file types ----

type fileTypeInfo struct {
	Type     fit.FileType
	Name     string
	Accessor func(*fit.File) (interface{}, error)
}

var fileTypes = []fileTypeInfo{
	{fit.FileTypeActivity, "Activity", func(f *fit.File) (interface{}, error) { return f.Activity() }},
	{fit.FileTypeDevice, "Device", func(f *fit.File) (interface{}, error) { return f.Device() }},
	{fit.FileTypeSettings, "Settings", func(f *fit.File) (interface{}, error) { return f.Settings() }},
	{fit.FileTypeSport, "Sport", func(f *fit.File) (interface{}, error) { return f.Sport() }},
	{fit.FileTypeWorkout, "Workout", func(f *fit.File) (interface{}, error) { return f.Workout() }},
	{fit.FileTypeCourse, "Course", func(f *fit.File) (interface{}, error) { return f.Course() }},
	{fit.FileTypeSchedules, "Schedules", func(f *fit.File) (interface{}, error) { return f.Schedules() }},
	{fit.FileTypeWeight, "Weight", func(f *fit.File) (interface{}, error) { return f.Weight() }},
	{fit.FileTypeTotals, "Totals", func(f *fit.File) (interface{}, error) { return f.Totals() }},
	{fit.FileTypeGoals, "Goals", func(f *fit.File) (interface{}, error) { return f.Goals() }},
	{fit.FileTypeBloodPressure, "BloodPressure", func(f *fit.File) (interface{}, error) { return f.BloodPressure() }},
	{fit.FileTypeMonitoringA, "MonitoringA", func(f *fit.File) (interface{}, error) { return f.MonitoringA() }},
	{fit.FileTypeActivitySummary, "ActivitySummary", func(f *fit.File) (interface{}, error) { return f.ActivitySummary() }},
	{fit.FileTypeMonitoringDaily, "MonitoringDaily", func(f *fit.File) (interface{}, error) { return f.MonitoringDaily() }},
	{fit.FileTypeMonitoringB, "MonitoringB", func(f *fit.File) (interface{}, error) { return f.MonitoringB() }},
	{fit.FileTypeSegment, "Segment", func(f *fit.File) (interface{}, error) { return f.Segment() }},
	{fit.FileTypeSegmentList, "SegmentList", func(f *fit.File) (interface{}, error) { return f.SegmentList() }},
}

func fileTypeByByte(b byte) *fileTypeInfo {
	for i := range fileTypes {
		if byte(fileTypes[i].Type) == b {
			return &fileTypes[i]
		}
	}
	return nil
}

// container returns the typed container of f via the accessor matching its
// file_id type (nil Value if none / nil container).
func container(f *fit.File) reflect.Value {
	if f == nil {
		return reflect.Value{}
	}
	ft := fileTypeByByte(byte(f.Type()))
	if ft == nil {
		return reflect.Value{}
	}
	c, err := ft.Accessor(f)
	if err != nil || c == nil {
		return reflect.Value{}
	}
	v := reflect.ValueOf(c)
	if v.Kind() == reflect.Ptr && v.IsNil() {
		return reflect.Value{}
	}
	return v
}

// slotInfo describes one member of a container struct.
type slotInfo struct {
	Index   int
	Name    string
	IsSlice bool
	MsgType reflect.Type // the XMsg struct type
	Mesg    uint16
}

var (
	hostOnce sync.Once
	hostMap  map[byte][]slotInfo // by file type byte
)

// hosts returns, per file type, the container members derived by reflection
// from the public container *types* (independent of the add switches).
func hosts() map[byte][]slotInfo {
	hostOnce.Do(func() {
		hostMap = map[byte][]slotInfo{}
		for _, ft := range fileTypes {
			f, err := fit.NewFile(ft.Type, fit.NewHeader(fit.V20, true))
			if err != nil {
				continue
			}
			c := container(f)
			if !c.IsValid() {
				continue
			}
			t := c.Elem().Type()
			for i := 0; i < t.NumField(); i++ {
				sf := t.Field(i)
				si := slotInfo{Index: i, Name: sf.Name}
				ft2 := sf.Type
				if ft2.Kind() == reflect.Slice {
					si.IsSlice = true
					ft2 = ft2.Elem()
				}
				if ft2.Kind() != reflect.Ptr || ft2.Elem().Kind() != reflect.Struct {
					continue
				}
				si.MsgType = ft2.Elem()
				si.Mesg = uint16(fit.VerifGlobalMesgNum(si.MsgType))
				hostMap[byte(ft.Type)] = append(hostMap[byte(ft.Type)], si)
			}
		}
	})
	return hostMap
}

// hostedIn returns the file type bytes that hold message m, sorted.
func hostedIn(m uint16) []byte {
	var out []byte
	for ft, slots := range hosts() {
		for _, s := range slots {
			if s.Mesg == m {
				out = append(out, ft)
				break
			}
		}
	}
	sort.Slice(out, func(i, j int) bool { return out[i] < out[j] })
	return out
}

// messagesOf returns the messages of number m in the container of f, in order
// (pointer slots yield 0 or 1 message). file_id / file_creator /
// timestamp_correlation are taken from the File itself.
func messagesOf(f *fit.File, m uint16) []reflect.Value {
	if f == nil {
		return nil
	}
	switch m {
	case 0:
		return []reflect.Value{reflect.ValueOf(f.FileId)}
	case uint16(fit.MesgNumFileCreator):
		if f.FileCreator == nil {
			return nil
		}
		return []reflect.Value{reflect.ValueOf(*f.FileCreator)}
	case uint16(fit.MesgNumTimestampCorrelation):
		if f.TimestampCorrelation == nil {
			return nil
		}
		return []reflect.Value{reflect.ValueOf(*f.TimestampCorrelation)}
	}
	c := container(f)
	if !c.IsValid() {
		return nil
	}
	var out []reflect.Value
	for _, s := range hosts()[byte(f.Type())] {
		if s.Mesg != m {
			continue
		}
		fv := c.Elem().Field(s.Index)
		if s.IsSlice {
			for i := 0; i < fv.Len(); i++ {
				out = append(out, fv.Index(i).Elem())
			}
		} else if !fv.IsNil() {
			out = append(out, fv.Elem())
		}
	}
	return out
}

// dumpFile renders everything observable through the public API.
func dumpFile(f *fit.File) string {
	if f == nil {
		return "<nil file>"
	}
	var sb strings.Builder
	fmt.Fprintf(&sb, "Header:%s CRC:%d FileId:%s", fitmodel.DumpI(f.Header), f.CRC, fitmodel.DumpI(f.FileId))
	sb.WriteString(" FileCreator:" + fitmodel.DumpI(f.FileCreator))
	sb.WriteString(" TimestampCorrelation:" + fitmodel.DumpI(f.TimestampCorrelation))
	sb.WriteString(" UnknownMessages:" + fitmodel.DumpI(f.UnknownMessages))
	sb.WriteString(" UnknownFields:" + fitmodel.DumpI(f.UnknownFields))
	c := container(f)
	if c.IsValid() {
		sb.WriteString(" Container:" + fitmodel.Dump(c))
	} else {
		sb.WriteString(" Container:none")
	}
	return sb.String()
}

// dumpFileContent is dumpFile without Header/CRC/unknown lists (message content only).
func dumpFileContent(f *fit.File) string {
	if f == nil {
		return "<nil file>"
	}
	var sb strings.Builder
	sb.WriteString("FileId:" + fitmodel.DumpI(f.FileId))
	sb.WriteString(" FileCreator:" + fitmodel.DumpI(f.FileCreator))
	sb.WriteString(" TimestampCorrelation:" + fitmodel.DumpI(f.TimestampCorrelation))
	c := container(f)
	if c.IsValid() {
		sb.WriteString(" Container:" + fitmodel.Dump(c))
	} else {
		sb.WriteString(" Container:none")
	}
	return sb.String()
}

// ---- guarded calls ----

type callResult struct {
	File   *fit.File
	Files  []*fit.File
	Header fit.Header
	FileId fit.FileIdMsg
	Err    error
	Panic  string
	Stack  string
}

func guard(fn func()) (p string, stack string) {
	defer func() {
		if r := recover(); r != nil {
			p = fmt.Sprint(r)
			stack = string(debug.Stack())
		}
	}()
	fn()
	return
}

func safeDecode(r io.Reader, opts ...fit.DecodeOption) (res callResult) {
	res.Panic, res.Stack = guard(func() { res.File, res.Err = fit.Decode(r, opts...) })
	return
}

func safeDecodeChained(r io.Reader, opts ...fit.DecodeOption) (res callResult) {
	res.Panic, res.Stack = guard(func() { res.Files, res.Err = fit.DecodeChained(r, opts...) })
	return
}

func safeCheckIntegrity(r io.Reader, headerOnly bool) (res callResult) {
	res.Panic, res.Stack = guard(func() { res.Err = fit.CheckIntegrity(r, headerOnly) })
	return
}

func safeDecodeHeader(r io.Reader) (res callResult) {
	res.Panic, res.Stack = guard(func() { res.Header, res.Err = fit.DecodeHeader(r) })
	return
}

func safeDecodeHeaderAndFileID(r io.Reader) (res callResult) {
	res.Panic, res.Stack = guard(func() { res.Header, res.FileId, res.Err = fit.DecodeHeaderAndFileID(r) })
	return
}

func safeEncode(f *fit.File, big bool) (out []byte, err error, p string) {
	var buf bytes.Buffer
	var order binary.ByteOrder = binary.LittleEndian
	if big {
		order = binary.BigEndian
	}
	p, _ = guard(func() { err = fit.Encode(&buf, f, order) })
	return buf.Bytes(), err, p
}

// entry points by name, for the totality / fault checks
var entryNames = []string{"Decode", "DecodeChained", "CheckIntegrity", "CheckIntegrityHeaderOnly", "DecodeHeader", "DecodeHeaderAndFileID"}

// optionEntries: the decoding calls with decode options (the options register deferred work and change the record loop)
var optionEntries = []string{"Decode+options", "DecodeChained+options", "Decode+unknownFields", "Decode+unknownMessages", "Decode+logger"}

func callEntry(name string, r io.Reader) callResult {
	switch name {
	case "Decode":
		return safeDecode(r)
	case "DecodeChained":
		return safeDecodeChained(r)
	case "CheckIntegrity":
		return safeCheckIntegrity(r, false)
	case "CheckIntegrityHeaderOnly":
		return safeCheckIntegrity(r, true)
	case "DecodeHeader":
		return safeDecodeHeader(r)
	case "DecodeHeaderAndFileID":
		return safeDecodeHeaderAndFileID(r)
	case "Decode+options":
		return safeDecode(r, fit.WithLogger(&nullLogger{}), fit.WithUnknownFields(), fit.WithUnknownMessages())
	case "DecodeChained+options":
		return safeDecodeChained(r, fit.WithUnknownMessages(), fit.WithUnknownFields(), fit.WithLogger(&nullLogger{}))
	case "Decode+unknownFields":
		return safeDecode(r, fit.WithUnknownFields())
	case "Decode+unknownMessages":
		return safeDecode(r, fit.WithUnknownMessages())
	case "Decode+logger":
		return safeDecode(r, fit.WithLogger(&nullLogger{}))
	}
	panic("unknown entry " + name)
}

// ---- readers ----

// oneByteReader delivers one byte per Read.
type oneByteReader struct {
	b []byte
	i int
}

func (r *oneByteReader) Read(p []byte) (int, error) {
	if len(p) == 0 {
		return 0, nil
	}
	if r.i >= len(r.b) {
		return 0, io.EOF
	}
	p[0] = r.b[r.i]
	r.i++
	return 1, nil
}

// countingReader counts delivered bytes; chunk<=0 means as much as asked.
type countingReader struct {
	b     []byte
	i     int
	chunk int
	reads int
}

func (r *countingReader) Read(p []byte) (int, error) {
	r.reads++
	if len(p) == 0 {
		return 0, nil
	}
	if r.i >= len(r.b) {
		return 0, io.EOF
	}
	n := len(p)
	if r.chunk > 0 && n > r.chunk {
		n = r.chunk
	}
	if n > len(r.b)-r.i {
		n = len(r.b) - r.i
	}
	copy(p, r.b[r.i:r.i+n])
	r.i += n
	return n, nil
}

var _ = time.Second

func fitVerifTableLens() (int, int, int) { return fit.VerifTableLens() }
