package props

import (
	"bytes"
	"encoding/binary"
	"encoding/json"
	"fmt"
	"io"
	"os"
	"testing/iotest"
	"time"

	"github.com/tormoder/fit"

	"verif/fitmodel"
	"verif/vx"
)

// C04: corruption is detected; CRC verdicts are sound and agree across entry points.

type c04Replay struct {
	Kind   string `json:"kind"` // burst | header-crc | accepted-but-integrity-fails
	Stream string `json:"stream,omitempty"`
	Hex    string `json:"stream_hex"`
	Bit    int    `json:"start_bit,omitempty"`
	Pat    uint32 `json:"pattern,omitempty"`
	Len    int    `json:"pattern_len,omitempty"`
	API    string `json:"api,omitempty"`
}

func init() {
	vx.Register(&vx.Prop{
		ID:    "C04",
		Level: "fault_enumeration",
		Rule: "burst corruption: for each base file every start bit x every XOR pattern of length 1..16 whose first and last bit are set (2^15 patterns per position), skipping bursts that touch header byte 0 or bytes 4-7; both Decode and CheckIntegrity must fail (quick: exhaustive on small files with 12-byte, 14-byte and zero-CRC headers and an Encode output; thorough: more and longer files); files whose data size is 4095/4096/4097/8192/12288 bytes with single-bit flips and 16-bit all-ones bursts at every (quick: every third) byte. " +
			"Header CRC: all 65536 stored CRC values x header content variants through CheckIntegrity(headerOnly), DecodeHeader, Decode and Header.CheckIntegrity; accepted iff stored CRC is 0 or the reference CRC, identically for all APIs. Every corpus file and Encode output that Decode accepts must pass CheckIntegrity. " +
			"distinct = distinct corrupted inputs (stream, start bit, pattern) plus distinct (header variant, stored CRC) pairs",
		Assumptions: []string{"CRC-16 detects every burst of <=16 bits; the check demands only that *some* error is returned"},
		Run:         runC04,
		Sub:         func(args []string) { tzSub(args) },
		QuickBudget: 200,
		Replay: func(raw json.RawMessage) (string, error) {
			var r c04Replay
			json.Unmarshal(raw, &r)
			b := vx.UnHex(r.Hex)
			if r.Kind == "chunked" {
				mk := func() io.Reader {
					switch {
					case r.Bit == 0:
						return bytes.NewReader(b)
					case r.Bit == -2:
						return iotest.HalfReader(&plainReader{b: b})
					}
					return &countingReader{b: b, chunk: r.Bit}
				}
				_, perr := fitmodel.Parse(b)
				d, c := safeDecode(mk()), safeCheckIntegrity(mk(), false)
				out := fmt.Sprintf("reads of %d bytes: Decode err=%v, CheckIntegrity err=%v; the reference parser says %v", r.Bit, d.Err, c.Err, perr)
				if (perr == nil) != (d.Err == nil) || (perr == nil) != (c.Err == nil) {
					return out, fmt.Errorf("verdict differs from the reference: %s", out)
				}
				return out, nil
			}
			d := safeDecode(bytes.NewReader(b))
			c := safeCheckIntegrity(bytes.NewReader(b), false)
			o := callEntry("Decode+options", bytes.NewReader(b))
			out := fmt.Sprintf("Decode err=%v panic=%q; CheckIntegrity err=%v panic=%q; Decode with all options err=%v panic=%q", d.Err, d.Panic, c.Err, c.Panic, o.Err, o.Panic)
			if r.Kind == "burst" && (d.Err == nil || c.Err == nil || o.Err == nil || o.Panic != "") {
				return out, fmt.Errorf("corruption accepted: %s", out)
			}
			return out, nil
		},
	})
}

func xorBurst(dst, src []byte, bit int, pat uint32, plen int) {
	copy(dst, src)
	for k := 0; k < plen; k++ {
		if pat&(1<<uint(k)) != 0 {
			p := bit + k
			dst[p>>3] ^= 1 << uint(p&7)
		}
	}
}

func runC04(w *vx.W) {
	procsFamily(w, "C04", "integrity")
	thorough := !w.Quick()
	// ---- base files
	oneRec := func(h fitmodel.Header, big bool) []byte { return activityFile(h, 1, big, 5) }
	bases := []namedStream{
		single("min12", minimalFile(hdr12(), 4)),
		single("min14-zero-hdr-crc", minimalFile(hdr14zero(), 4)),
	}
	if thorough {
		bases = append(bases, single("min14", minimalFile(hdr14(), 4)), single("activity-1rec-hdr12-be", oneRec(hdr12(), true)))
	}
	// an Encode output (smallest File with one record), both orders
	for _, big := range []bool{false, true} {
		if big && !thorough {
			continue
		}
		f, err := fit.NewFile(fit.FileTypeActivity, fit.NewHeader(fit.V20, !big))
		if err == nil {
			a, _ := f.Activity()
			r := fit.NewRecordMsg()
			r.HeartRate = 77
			a.Records = append(a.Records, r)
			out, eerr, p := safeEncode(f, big)
			if eerr == nil && p == "" {
				bases = append(bases, single(fmt.Sprintf("encode-output-big=%v", big), out))
			} else {
				w.Violation("encode-failed", fmt.Sprintf("Encode of a one-record activity failed: %v %s", eerr, p), nil)
			}
		}
	}
	if thorough {
		bases = append(bases, sAct3, sAct3BE, sSet, single("activity-1rec-hdr14", oneRec(hdr14(), false)))
	}
	// every Encode output (both byte orders, both header forms, several Files) is accepted by Decode and CheckIntegrity
	if w.Shard == 0 {
		n := 0
		for _, gs := range genSlots() {
			specs := genSpecs(gs, false)
			for si, g := range specs {
				if si%7 != 0 && si != len(specs)-1 {
					continue
				}
				for c := 0; c < 4; c++ {
					g.HdrCRC, g.Big = c&1 == 0, c&2 != 0
					f, _, err := g.build()
					if err != nil {
						continue
					}
					out, eerr, pn := safeEncode(f, g.Big)
					if eerr != nil || pn != "" {
						continue // C05's subject
					}
					d := safeDecode(bytes.NewReader(out))
					ci := safeCheckIntegrity(bytes.NewReader(out), false)
					hi := safeCheckIntegrity(bytes.NewReader(out), true)
					w.Eval(3)
					n++
					if d.Err != nil || ci.Err != nil || hi.Err != nil || d.Panic != "" || ci.Panic != "" {
						w.Violation("encode-output-rejected", fmt.Sprintf("Encode output (%s file, %s, big-endian=%v, header CRC=%v) is rejected: Decode=%v CheckIntegrity=%v header-only=%v", fileTypeByByte(g.Slot.FT).Name, g.Desc, g.Big, g.HdrCRC, d.Err, ci.Err, hi.Err),
							c04Replay{Kind: "valid", Stream: "encode output", Hex: vx.Hex(out)})
					}
				}
			}
		}
		// Encode outputs whose data section exceeds 64 KiB and 128 KiB (the encoder checksums it in one piece)
		for _, nrec := range []int{5200, 11000} {
			for _, big := range []bool{false, true} {
				f, err := fit.NewFile(fit.FileTypeActivity, fit.NewHeader(fit.V20, !big))
				if err != nil {
					continue
				}
				a, _ := f.Activity()
				for i := 0; i < nrec; i++ {
					r := fit.NewRecordMsg()
					r.HeartRate = uint8(60 + i%100)
					r.Distance = uint32(i * 7)
					r.Timestamp = time.Unix(fitmodel.FitEpoch+1000000000+int64(i), 0).UTC()
					a.Records = append(a.Records, r)
				}
				out, eerr, pn := safeEncode(f, big)
				if eerr != nil || pn != "" {
					continue
				}
				d := safeDecode(bytes.NewReader(out))
				ci := safeCheckIntegrity(bytes.NewReader(out), false)
				w.Eval(2)
				n++
				if d.Err != nil || ci.Err != nil || d.Panic != "" || ci.Panic != "" {
					w.Violation("encode-output-rejected", fmt.Sprintf("Encode output of an activity with %d records (%d bytes, big-endian=%v) is rejected: Decode=%v CheckIntegrity=%v", nrec, len(out), big, d.Err, ci.Err),
						c04Replay{Kind: "valid", Stream: fmt.Sprintf("encode output, %d records", nrec), Hex: ""})
				} else if fitmodel.CRC(out) != 0 {
					w.Violation("encode-output-rejected", fmt.Sprintf("Encode output of an activity with %d records: the reference CRC over the whole file is not zero", nrec), c04Replay{Kind: "valid", Stream: "encode output", Hex: ""})
				}
			}
		}
		w.Fam("encode-outputs-checked", int64(n))
	}
	// verdicts must not depend on how the reader chunks the data: valid files and single-bit corruptions of them
	// through Decode, CheckIntegrity and CheckIntegrity(header only) under whole-buffer, 1-byte, 7-, 100-, 1023-,
	// 1024-, 4096-byte and halving readers
	{
		files := []namedStream{sAct3, sAct3BE, sSet, sBig, s4096, s8192, sDev}
		// records of an unknown message that are larger than the read buffer (10 KB and 65 KB): skipped bytes are
		// checksummed bytes
		for _, nf := range []int{40, 255} {
			d := fitmodel.Def{Local: 2, Global: 0xFF00}
			for i := 0; i < nf; i++ {
				d.Fields = append(d.Fields, fitmodel.FieldDef{Num: byte(i), Size: 255, Base: fitmodel.Byte})
			}
			body := make([]byte, d.DataLen())
			for i := range body {
				body[i] = byte(i*7 + 3)
			}
			recs := append(fitmodel.FileIdRecords(0, 4), recordDef(1, false).Bytes(), recordData(1, false, 1000000000, 60, 1), d.Bytes(), fitmodel.Data(2, body), recordData(1, false, 1000000001, 61, 2), fitmodel.Data(2, body))
			files = append(files, single(fmt.Sprintf("unknown-records-of-%d-bytes", len(body)), fitmodel.File(fitmodel.DefaultHeader, recs...)))
		}
		var k int64
		for _, s := range files {
			step := len(s.B)/40 + 1
			for pos := -1; pos < len(s.B); pos += step {
				k++
				if !w.Mine(k) {
					continue
				}
				b := append([]byte{}, s.B...)
				corrupted := pos >= 1 && !(pos >= 4 && pos <= 7) // byte 0 (header size) and the data size field change the framing, not the content
				if pos >= 0 && !corrupted {
					continue
				}
				if corrupted {
					b[pos] ^= 0x10
				}
				hdrCorrupt := corrupted && pos < int(s.B[0])
				for _, chunk := range []int{0, 1, 7, 100, 1023, 1024, 4096, -2} {
					mk := func() io.Reader {
						switch {
						case chunk == 0:
							return bytes.NewReader(b)
						case chunk == -2:
							return iotest.HalfReader(&plainReader{b: b})
						}
						return &countingReader{b: b, chunk: chunk}
					}
					d := safeDecode(mk())
					c := safeCheckIntegrity(mk(), false)
					h := safeCheckIntegrity(mk(), true)
					w.Eval(3)
					w.Fam("verdicts-under-read-chunking", 1)
					bad := ""
					switch {
					case d.Panic != "" || c.Panic != "" || h.Panic != "":
						bad = "panic " + d.Panic + c.Panic + h.Panic
					case !corrupted && (d.Err != nil || c.Err != nil || h.Err != nil):
						bad = fmt.Sprintf("valid file rejected: Decode=%v CheckIntegrity=%v header-only=%v", d.Err, c.Err, h.Err)
					case corrupted && (d.Err == nil || c.Err == nil):
						bad = fmt.Sprintf("corruption at byte %d accepted: Decode=%v CheckIntegrity=%v", pos, d.Err, c.Err)
					case corrupted && !hdrCorrupt && h.Err != nil:
						bad = fmt.Sprintf("header-only integrity check fails although only the data is corrupted: %v", h.Err)
					}
					if bad != "" {
						w.Violation("verdict-depends-on-chunking", fmt.Sprintf("%s, reads of %d bytes (0 = whole, -2 = halving): %s", s.Name, chunk, bad), c04Replay{Kind: "chunked", Stream: s.Name, Hex: vx.Hex(b), Bit: chunk})
						break
					}
				}
			}
		}
	}
	// every base file must be accepted and pass integrity
	for _, s := range bases {
		if w.Shard == 0 {
			d := safeDecode(bytes.NewReader(s.B))
			c := safeCheckIntegrity(bytes.NewReader(s.B), false)
			w.Eval(2)
			if d.Err != nil || c.Err != nil || d.Panic != "" || c.Panic != "" {
				w.Violation("valid-file-rejected/"+s.Name, fmt.Sprintf("%s: Decode=%v CheckIntegrity=%v", s.Name, d.Err, c.Err), c04Replay{Kind: "valid", Stream: s.Name, Hex: vx.Hex(s.B)})
			}
		}
	}
	// ---- bursts
	var idx int64
	for _, s := range bases {
		n := len(s.B)
		buf := make([]byte, n)
		rd := bytes.NewReader(nil)
		for bit := 0; bit < n*8; bit++ {
			idx++
			if !w.Mine(idx) {
				continue
			}
			if w.Expired("bursts") {
				break
			}
			for plen := 1; plen <= 16 && bit+plen <= n*8; plen++ {
				// bytes touched
				b0, b1 := bit>>3, (bit+plen-1)>>3
				if b0 == 0 || (b0 <= 7 && b1 >= 4) {
					continue
				}
				inner := 1
				if plen > 2 {
					inner = 1 << uint(plen-2)
				}
				for m := 0; m < inner; m++ {
					pat := uint32(1)
					if plen >= 2 {
						pat = 1 | uint32(m)<<1 | 1<<uint(plen-1)
					}
					xorBurst(buf, s.B, bit, pat, plen)
					rd.Reset(buf)
					var derr, cerr error
					pn, _ := guard(func() { _, derr = fit.Decode(rd) })
					rd.Reset(buf)
					pn2, _ := guard(func() { cerr = fit.CheckIntegrity(rd, false) })
					w.Eval(2)
					if pn != "" || pn2 != "" {
						w.Violation("panic-on-corruption", fmt.Sprintf("%s bit %d pattern %#x/%d: panic %s%s", s.Name, bit, pat, plen, pn, pn2), c04Replay{"burst", s.Name, vx.Hex(buf), bit, pat, plen, ""})
						continue
					}
					if derr == nil || cerr == nil {
						api := "Decode"
						if derr != nil {
							api = "CheckIntegrity"
						}
						w.Violation("corruption-accepted/"+api, fmt.Sprintf("%s: burst at bit %d (byte %d) pattern %#x length %d is accepted: Decode err=%v, CheckIntegrity err=%v", s.Name, bit, bit>>3, pat, plen, derr, cerr),
							c04Replay{"burst", s.Name, vx.Hex(buf), bit, pat, plen, api})
					}
					if plen <= 2 {
						// single- and double-bit errors once more with every decode option switched on
						rd.Reset(buf)
						var oerr error
						pn3, _ := guard(func() {
							_, oerr = fit.Decode(rd, fit.WithUnknownMessages(), fit.WithUnknownFields(), fit.WithLogger(&nullLogger{}))
						})
						w.Eval(1)
						if pn3 != "" || oerr == nil {
							w.Violation("corruption-accepted/Decode+options", fmt.Sprintf("%s: burst at bit %d pattern %#x length %d with all decode options: err=%v panic=%s", s.Name, bit, pat, plen, oerr, pn3),
								c04Replay{"burst", s.Name, vx.Hex(buf), bit, pat, plen, "Decode+options"})
						}
					}
				}
			}
			w.Fam("burst-positions", 1)
		}
		w.Fam("burst-files", 1)
	}
	w.Sample(map[string]interface{}{"base_file": bases[1].Name, "hex": vx.Hex(bases[1].B), "burst_example": "start bit 96, pattern 0x8001 (len 16)"})

	// ---- files whose data size is at / around a multiple of the decoder's 4096-byte buffer: single-bit flips at every
	// bit and 16-bit all-ones bursts at every byte (reduced pattern set, complete over positions)
	for _, target := range []int{4095, 4096, 4097, 8192, 12288} {
		// activity file: file_id (11 bytes) + record definition (15) + n records of 10 bytes + a filler record
		n := (target - 11 - 15) / 10
		recs := fitmodel.FileIdRecords(0, 4)
		recs = append(recs, recordDef(1, false).Bytes())
		for i := 0; i < n; i++ {
			recs = append(recs, recordData(1, false, 1000000000+uint32(i), byte(60+i%90), uint32(i)))
		}
		rest := target - 11 - 15 - 10*n
		if rest > 0 {
			// an unknown message soaks up the remainder: definition 6+3 bytes + data 1+k bytes
			if rest < 11 {
				recs = recs[:len(recs)-1]
				rest += 10
			}
			k := rest - 10
			d := fitmodel.Def{Local: 2, Global: 0xFF00, Fields: []fitmodel.FieldDef{{Num: 0, Size: byte(k), Base: fitmodel.Byte}}}
			recs = append(recs, d.Bytes(), fitmodel.Data(2, make([]byte, k)))
		}
		for _, h := range []fitmodel.Header{hdr12(), hdr14()} {
			file := fitmodel.File(h, recs...)
			if got := len(file) - int(file[0]) - 2; got != target {
				w.HarnessError("C04: built data size %d, wanted %d", got, target)
			}
			if w.Shard == 0 {
				d := safeDecode(bytes.NewReader(file))
				c := safeCheckIntegrity(bytes.NewReader(file), false)
				if d.Err != nil || c.Err != nil {
					w.Violation("valid-file-rejected/data-size", fmt.Sprintf("data size %d: Decode=%v CheckIntegrity=%v", target, d.Err, c.Err), c04Replay{Kind: "valid", Hex: ""})
				}
			}
			buf := make([]byte, len(file))
			rd := bytes.NewReader(nil)
			step := 1
			if !thorough {
				step = 3 // quick: every third byte (all bits of it); thorough: every byte
			}
			for off := int(file[0]); off < len(file); off += step {
				idx++
				if !w.Mine(idx) {
					continue
				}
				if off%512 == 0 && w.Expired("block-multiple files") {
					break
				}
				for pat := 0; pat < 9; pat++ {
					copy(buf, file)
					if pat < 8 {
						buf[off] ^= 1 << uint(pat)
					} else {
						buf[off] ^= 0xFF
						if off+1 < len(file) {
							buf[off+1] ^= 0xFF
						}
					}
					rd.Reset(buf)
					var derr, cerr error
					guard(func() { _, derr = fit.Decode(rd) })
					rd.Reset(buf)
					guard(func() { cerr = fit.CheckIntegrity(rd, false) })
					w.Eval(2)
					if derr == nil || cerr == nil {
						api := "Decode"
						if derr != nil {
							api = "CheckIntegrity"
						}
						w.Violation("corruption-accepted/"+api, fmt.Sprintf("file with data size %d (header %d): corruption at byte %d pattern %d accepted: Decode err=%v, CheckIntegrity err=%v", target, file[0], off, pat, derr, cerr),
							c04Replay{Kind: "burst", Stream: fmt.Sprintf("data-size-%d", target), Hex: "", Bit: off * 8, Pat: uint32(pat)})
					}
				}
			}
			w.Fam("block-multiple-files", 1)
		}
	}

	// ---- header CRC agreement across the four APIs
	body := fitmodel.Concat(fitmodel.FileIdRecords(0, 4)...)
	type variant struct {
		proto   byte
		profile uint16
		ds      uint32
	}
	var variants []variant
	for _, pr := range []byte{0x10, 0x20, 0x21} {
		for _, pv := range []uint16{0, 2115, 0xFFFF} {
			for _, ds := range []uint32{uint32(len(body)), 0, 0x01020304} {
				variants = append(variants, variant{pr, pv, ds})
			}
		}
	}
	for vi, v := range variants {
		h := make([]byte, 14)
		h[0], h[1] = 14, v.proto
		binary.LittleEndian.PutUint16(h[2:4], v.profile)
		binary.LittleEndian.PutUint32(h[4:8], v.ds)
		copy(h[8:12], ".FIT")
		ref := fitmodel.CRC(h[:12])
		full := append(append([]byte{}, h...), body...)
		full = append(full, 0, 0)
		for stored := 0; stored < 65536; stored++ {
			if !w.Mine(int64(stored + vi)) {
				continue
			}
			h[12], h[13] = byte(stored), byte(stored>>8)
			want := stored == 0 || uint16(stored) == ref
			verdicts := map[string]bool{}
			r1 := safeCheckIntegrity(bytes.NewReader(h), true)
			verdicts["CheckIntegrity(headerOnly)"] = r1.Err == nil && r1.Panic == ""
			r2 := safeDecodeHeader(bytes.NewReader(h))
			verdicts["DecodeHeader"] = r2.Err == nil && r2.Panic == ""
			hv := fit.Header{Size: 14, ProtocolVersion: v.proto, ProfileVersion: v.profile, DataSize: v.ds, CRC: uint16(stored)}
			copy(hv.DataType[:], ".FIT")
			var herr error
			pn, _ := guard(func() { herr = hv.CheckIntegrity() })
			verdicts["Header.CheckIntegrity"] = herr == nil && pn == ""
			w.Eval(3)
			if int(v.ds) == len(body) {
				full[12], full[13] = h[12], h[13]
				c := fitmodel.CRCFast(0, full[:len(full)-2])
				full[len(full)-2], full[len(full)-1] = byte(c), byte(c>>8)
				r4 := safeDecode(bytes.NewReader(full))
				verdicts["Decode"] = r4.Err == nil && r4.Panic == ""
				r5 := safeCheckIntegrity(bytes.NewReader(full), false)
				verdicts["CheckIntegrity(full)"] = r5.Err == nil && r5.Panic == ""
				w.Eval(2)
			}
			w.Distinct(uint64(vi)<<20 | uint64(stored) | 1<<40)
			for api, ok := range verdicts {
				if ok != want {
					key := "header-crc/" + api
					w.Violation(key, fmt.Sprintf("header %x with stored CRC %#04x (reference %#04x): %s accepts=%v, expected accepts=%v", h[:12], stored, ref, api, ok, want),
						c04Replay{Kind: "header-crc", Hex: vx.Hex(full), API: api})
				}
			}
		}
		w.Fam("header-variants", 1)
	}
	// 12-byte headers carry no CRC: Header.CheckIntegrity accepts regardless of the CRC field
	if w.Shard == 0 {
		hv := fit.NewHeader(fit.V20, false)
		hv.CRC = 0x1234
		if err := hv.CheckIntegrity(); err != nil {
			w.Violation("header-crc/12-byte", "12-byte header rejected by Header.CheckIntegrity: "+err.Error(), nil)
		}
		w.Eval(1)
	}

	// ---- every corpus file that Decode accepts passes CheckIntegrity
	for i, p := range corpusFiles() {
		if !w.Mine(int64(i)) {
			continue
		}
		b, err := os.ReadFile(p)
		if err != nil {
			continue
		}
		d := safeDecode(bytes.NewReader(b))
		c := safeCheckIntegrity(bytes.NewReader(b), false)
		w.Eval(2)
		w.Fam("corpus-files", 1)
		if d.Err == nil && d.Panic == "" && (c.Err != nil || c.Panic != "") {
			w.Violation("accepted-but-integrity-fails", fmt.Sprintf("%s: Decode accepts but CheckIntegrity says %v", p, c.Err), c04Replay{Kind: "accepted-but-integrity-fails", Stream: p, Hex: ""})
		}
		if c.Err == nil && d.Err != nil {
			// integrity ok but decode fails is allowed (unsupported content); note it
			w.Note("integrity ok but Decode fails for " + p + ": " + d.Err.Error())
		}
	}
}
