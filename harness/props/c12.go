package props

import (
	"bytes"
	"encoding/hex"
	"encoding/json"
	"fmt"
	"reflect"
	"strings"
	"time"

	"github.com/tormoder/fit"

	"verif/fitmodel"
	"verif/vx"
)

// C12: timestamps follow the FIT time rules, including compressed headers.

const c12T = 1000000000 // 0x3B9ACA00, low five bits zero

type c12Op struct {
	Kind string `json:"kind"` // E explicit, C compressed, X compressed+explicit, N compressed on a message without timestamp field, U compressed unknown message, L local only, B explicit+local, S other date_time field
	V    uint32 `json:"v,omitempty"`
	V2   uint32 `json:"v2,omitempty"`
	Off  byte   `json:"off,omitempty"`
}

func (o c12Op) String() string {
	switch o.Kind {
	case "E":
		return fmt.Sprintf("E(%#x)", o.V)
	case "C", "N", "U", "Z":
		return fmt.Sprintf("%s(+%d)", o.Kind, o.Off)
	case "X":
		return fmt.Sprintf("X(+%d,%#x)", o.Off, o.V)
	case "L":
		return fmt.Sprintf("L(%#x)", o.V)
	case "B":
		return fmt.Sprintf("B(ts=%#x,local=%#x)", o.V, o.V2)
	}
	return fmt.Sprintf("S(%#x)", o.V)
}

type c12Exp struct {
	tsDemand bool
	ts       time.Time // expected Timestamp (zero => invalid base time)
	hasLocal bool
	local    time.Time
	id       uint16
	altLocal time.Time // prediction of the known-defect model (local time becoming the reference)
	altTs    time.Time
	localAny bool // the reference is a system time (below 0x10000000): the property does not say what offset results
}

type c12Model struct {
	has bool
	ref uint32
	// defect model K6: a local timestamp seen without (UTC) reference becomes the reference
	khas  bool
	kref  uint32
	klast uint32
}

var fitBase = time.Unix(fitmodel.FitEpoch, 0).UTC()

func fitTime(s uint32) time.Time { return time.Unix(fitmodel.FitEpoch+int64(s), 0).UTC() }

func advance(ref uint32, off byte) uint32 {
	return ref + uint32((int32(off)-int32(ref&0x1F))&0x1F)
}

func localTime(has bool, ref, l uint32) time.Time {
	if !has {
		return fitTime(l).In(time.FixedZone("FITLOCAL", 0))
	}
	off := int(int64(l) - int64(ref))
	return fitTime(ref).In(time.FixedZone("FITLOCAL", off))
}

// c12Stream builds the stream and the expectations for a word (monitoring_b file).
func c12Stream(ops []c12Op, big bool) ([]byte, []c12Exp, *c12Exp, string) {
	o := binaryOrder(big)
	const mon = 55
	defE := fitmodel.Def{Local: 1, Big: big, Global: mon, Fields: []fitmodel.FieldDef{{Num: 253, Size: 4, Base: fitmodel.Uint32}, {Num: 1, Size: 2, Base: fitmodel.Uint16}}}
	defC := fitmodel.Def{Local: 2, Big: big, Global: mon, Fields: []fitmodel.FieldDef{{Num: 1, Size: 2, Base: fitmodel.Uint16}}}
	defN := fitmodel.Def{Local: 3, Big: big, Global: 49, Fields: []fitmodel.FieldDef{{Num: 0, Size: 2, Base: fitmodel.Uint16}}}
	defU := fitmodel.Def{Local: 0, Big: big, Global: 0xFF00, Fields: []fitmodel.FieldDef{{Num: 1, Size: 2, Base: fitmodel.Uint16}}}
	defZ := fitmodel.Def{Local: 0, Big: big, Global: mon}
	defL := fitmodel.Def{Local: 4, Big: big, Global: mon, Fields: []fitmodel.FieldDef{{Num: 11, Size: 4, Base: fitmodel.Uint32}, {Num: 1, Size: 2, Base: fitmodel.Uint16}}}
	defB := fitmodel.Def{Local: 5, Big: big, Global: mon, Fields: []fitmodel.FieldDef{{Num: 253, Size: 4, Base: fitmodel.Uint32}, {Num: 11, Size: 4, Base: fitmodel.Uint32}, {Num: 1, Size: 2, Base: fitmodel.Uint16}}}
	recs := fitmodel.FileIdRecords(0, byte(fit.FileTypeMonitoringB))
	// local 0 is re-defined for the unknown message after the file_id record
	recs = append(recs, defE.Bytes(), defC.Bytes(), defN.Bytes(), defU.Bytes(), defL.Bytes(), defB.Bytes())
	var m c12Model
	var exps []c12Exp
	var fc *c12Exp
	overflow := false
	u16 := func(v uint16) []byte { return fitmodel.PutUint(o, 2, uint64(v)) }
	u32 := func(v uint32) []byte { return fitmodel.PutUint(o, 4, uint64(v)) }
	explicit := func(v uint32, e *c12Exp) {
		e.tsDemand = true
		if v == 0xFFFFFFFF {
			e.ts, e.altTs = fitBase, fitBase
			return
		}
		e.ts, e.altTs = fitTime(v), fitTime(v)
		m.has, m.ref = true, v
		m.khas, m.kref, m.klast = true, v, v&0x1F
	}
	compressed := func(off byte, e *c12Exp) {
		if m.has {
			if n := advance(m.ref, off); n < m.ref {
				// 32-bit second counter wraps (year 2126): outside the model, no demands from here on
				overflow = true
			}
			m.ref = advance(m.ref, off)
			if e != nil {
				e.tsDemand, e.ts = true, fitTime(m.ref)
			}
		} else if e != nil {
			e.tsDemand = false // no preceding timestamp: the property is silent
		}
		if m.khas {
			m.kref += uint32((int32(off) - int32(m.klast)) & 0x1F)
			m.klast = uint32(off)
			if e != nil {
				e.altTs = fitTime(m.kref)
			}
		} else if e != nil {
			e.altTs = fitBase
		}
	}
	local := func(l uint32, e *c12Exp) {
		e.hasLocal = true
		if l == 0xFFFFFFFF {
			e.local, e.altLocal = fitBase, fitBase
			return
		}
		e.local = localTime(m.has && m.ref >= 0x10000000, m.ref, l)
		e.localAny = m.has && m.ref < 0x10000000
		kHas := m.khas && m.kref >= 0x10000000
		e.altLocal = localTime(kHas, m.kref, l)
		if !kHas {
			m.khas, m.kref = true, l
		}
	}
	for i, op := range ops {
		id := uint16(i + 1)
		e := c12Exp{id: id, ts: fitBase, altTs: fitBase, tsDemand: true}
		switch op.Kind {
		case "E":
			recs = append(recs, fitmodel.Data(1, fitmodel.Concat(u32(op.V), u16(id))))
			explicit(op.V, &e)
			exps = append(exps, e)
		case "C":
			recs = append(recs, fitmodel.Compressed(2, op.Off, u16(id)))
			compressed(op.Off, &e)
			exps = append(exps, e)
		case "X":
			recs = append(recs, fitmodel.Compressed(1, op.Off, fitmodel.Concat(u32(op.V), u16(id))))
			compressed(op.Off, nil)
			explicit(op.V, &e)
			exps = append(exps, e)
		case "Z":
			// zero-field definition of monitoring on local 0 (re-defined right here), compressed record = header only
			recs = append(recs, defZ.Bytes(), fitmodel.Compressed(0, op.Off, nil))
			e.id = 0xFFFF
			compressed(op.Off, &e)
			exps = append(exps, e)
		case "N":
			recs = append(recs, fitmodel.Compressed(3, op.Off, u16(id)))
			compressed(op.Off, nil)
			fc = &c12Exp{id: id}
		case "U":
			recs = append(recs, defU.Bytes(), fitmodel.Compressed(0, op.Off, u16(id)))
			compressed(op.Off, nil)
		case "L":
			recs = append(recs, fitmodel.Data(4, fitmodel.Concat(u32(op.V), u16(id))))
			local(op.V, &e)
			exps = append(exps, e)
		case "B":
			recs = append(recs, fitmodel.Data(5, fitmodel.Concat(u32(op.V), u32(op.V2), u16(id))))
			explicit(op.V, &e)
			local(op.V2, &e)
			exps = append(exps, e)
		}
		if overflow {
			return nil, nil, nil, "overflow"
		}
	}
	return fitmodel.File(fitmodel.DefaultHeader, recs...), exps, fc, ""
}

func tdump(t time.Time) string { return fitmodel.DumpI(t) }

// c12Check decodes and compares; returns (violation, knownDefectMatched).
func c12Check(ops []c12Op, big bool) (stream []byte, msg string, known bool) {
	stream, exps, fc, why := c12Stream(ops, big)
	if why != "" {
		return nil, "", false
	}
	res := safeDecode(bytes.NewReader(stream))
	if res.Panic != "" {
		return stream, "Decode panics: " + res.Panic, false
	}
	if res.Err != nil {
		return stream, "Decode fails: " + res.Err.Error(), false
	}
	got := messagesOf(res.File, 55)
	if len(got) != len(exps) {
		return stream, fmt.Sprintf("%d monitoring messages decoded, expected %d", len(got), len(exps)), false
	}
	allAlt := true
	first := ""
	for i, e := range exps {
		g := got[i]
		if uint16(g.FieldByName("Calories").Uint()) != e.id {
			return stream, fmt.Sprintf("message #%d: identity field %d, expected %d", i, g.FieldByName("Calories").Uint(), e.id), false
		}
		gts := tdump(g.FieldByName("Timestamp").Interface().(time.Time))
		if e.tsDemand && gts != tdump(e.ts) {
			if first == "" {
				first = fmt.Sprintf("message #%d (%s): Timestamp %s, model %s", i, ops2(ops), gts, tdump(e.ts))
			}
			if gts != tdump(e.altTs) {
				allAlt = false
			}
		}
		glt := tdump(g.FieldByName("LocalTimestamp").Interface().(time.Time))
		wantL := tdump(fitBase)
		altL := wantL
		if e.hasLocal {
			wantL, altL = tdump(e.local), tdump(e.altLocal)
		}
		if glt != wantL && !e.localAny {
			if first == "" {
				first = fmt.Sprintf("message #%d (%s): LocalTimestamp %s, model %s", i, ops2(ops), glt, wantL)
			}
			if glt != altL {
				allAlt = false
			}
		}
	}
	if fc != nil {
		if res.File.FileCreator == nil || res.File.FileCreator.SoftwareVersion != fc.id {
			return stream, "file_creator record (message without timestamp field, compressed header) lost or altered", false
		}
	}
	if first != "" {
		return stream, first, allAlt
	}
	return stream, "", false
}

func ops2(ops []c12Op) string {
	s := make([]string, len(ops))
	for i, o := range ops {
		s[i] = o.String()
	}
	return strings.Join(s, " ")
}

type c12Replay struct {
	Ops  []c12Op `json:"ops"`
	Big  bool    `json:"big_endian"`
	Word string  `json:"word"`
	Hex  string  `json:"stream_hex"`
}

func init() {
	vx.Register(&vx.Prop{
		ID:    "C12",
		Level: "model_checking",
		Rule: "timestamp machine (reference or none; 5-bit offset = reference mod 32) explored on the real decoder: all words of length <=4 (quick) / <=5 (thorough) over {explicit timestamp in 10 values incl. invalid, 2^32-2, 0x10000000 and two below it (system time); compressed record with offsets {0,1,15,16,30,31}; compressed record carrying an explicit timestamp; compressed record of a message without timestamp field; compressed record of an unknown message; compressed record under a zero-field definition; local timestamp without/with explicit timestamp in the same message} in a monitoring_b file, both byte orders; all 32x32 offset pairs after each of 6 references; runs of 70 compressed records (4 stride patterns); a non-253 date_time field that must not re-base (activity file). " +
			"Oracle: the property's timestamp rules; states = distinct model states (has reference, reference value) reached; transitions = records applied; traces = streams decoded",
		Assumptions: []string{"reference value 0 is outside the alphabet; a local timestamp decoded while the reference is below 0x10000000 (system time) carries no demand (the property is silent)", "a compressed record with no preceding timestamp carries no timestamp demand"},
		Run:         runC12,
		Sub:         func(args []string) { tzSub(args) },
		Replay: func(raw json.RawMessage) (string, error) {
			if s, ok, err := mixReplay(raw); ok {
				return s, err
			}
			if s, ok, err := mixChainReplay(raw); ok {
				return s, err
			}
			var r c12Replay
			json.Unmarshal(raw, &r)
			_, msg, known := c12Check(r.Ops, r.Big)
			if msg != "" {
				return "", fmt.Errorf("%s (known-defect model matches: %v)", msg, known)
			}
			return r.Word + ": ok", nil
		},
	})
}

func runC12(w *vx.W) {
	mixLen := 3
	if !w.Quick() {
		mixLen = 4
	}
	mixFamily(w, mixLen)
	mixLongRuns(w, []int{1, 3})
	c10MixChains(w) // the same words as members of a chain: nothing may cross a file boundary
	c12LocalSweep(w)
	tzFamily(w, "C12")
	T := uint32(c12T)
	var alpha []c12Op
	for _, v := range []uint32{T, T + 1, T + 31, T + 32, T | 31, 0xFFFFFFFE, 0xFFFFFFFF, 0x10000000, 1000, 0x0FFFFFF0} {
		alpha = append(alpha, c12Op{Kind: "E", V: v})
	}
	for _, o := range []byte{0, 1, 15, 16, 30, 31} {
		alpha = append(alpha, c12Op{Kind: "C", Off: o})
	}
	alpha = append(alpha,
		c12Op{Kind: "X", Off: 7, V: T + 100},
		c12Op{Kind: "N", Off: 20},
		c12Op{Kind: "U", Off: 9},
		c12Op{Kind: "Z", Off: 13},
		c12Op{Kind: "L", V: T + 3600},
		c12Op{Kind: "L", V: T - 7200 + 5},
		c12Op{Kind: "B", V: T + 64, V2: T + 64 + 7200},
		c12Op{Kind: "B", V: T + 65, V2: T + 65 - 3600*11},
	)
	maxLen := 4
	if !w.Quick() {
		maxLen = 5
	}
	states := map[uint64]struct{}{}
	run := func(ops []c12Op, fam string) {
		for _, big := range []bool{false, true} {
			stream, msg, known := c12Check(ops, big)
			if stream == nil {
				w.Fam("skipped-32bit-overflow", 1)
				continue
			}
			w.Eval(1)
			w.Trace(1)
			w.Transition(int64(len(ops)))
			w.Fam(fam, 1)
			w.Distinct(vx.HashB(stream))
			if msg != "" {
				cp := append([]c12Op{}, ops...)
				rep := c12Replay{cp, big, ops2(cp), vx.Hex(stream)}
				if known {
					w.Known("local-time-becomes-reference", fmt.Sprintf("[%s] big=%v: %s", ops2(cp), big, msg), rep)
				} else {
					w.Violation("timestamp", fmt.Sprintf("[%s] big=%v: %s", ops2(cp), big, msg), rep)
				}
			}
		}
		// model states along the word
		var m c12Model
		for _, op := range ops {
			switch op.Kind {
			case "E", "X", "B":
				if op.Kind == "X" && m.has {
					m.ref = advance(m.ref, op.Off)
				}
				if op.V != 0xFFFFFFFF {
					m.has, m.ref = true, op.V
				}
			case "C", "N", "U", "Z":
				if m.has {
					m.ref = advance(m.ref, op.Off)
				}
			}
			h := uint64(m.ref)
			if m.has {
				h |= 1 << 40
			}
			states[h] = struct{}{}
		}
	}
	ops := make([]c12Op, 0, 8)
	seqWords(len(alpha), maxLen, w.Mine, func(word []int) bool {
		if len(word) >= 4 && w.Expired("words") {
			return false
		}
		ops = ops[:0]
		for _, a := range word {
			ops = append(ops, alpha[a])
		}
		run(ops, fmt.Sprintf("words-len%d", len(word)))
		return true
	})
	// all 32x32 offset pairs after each reference
	var k int64
	for _, ref := range []uint32{T, T + 1, T + 17, T | 31, 0xFFFFFFE0, 0x10000000} {
		for o1 := 0; o1 < 32; o1++ {
			for o2 := 0; o2 < 32; o2++ {
				k++
				if !w.Mine(k) {
					continue
				}
				run([]c12Op{{Kind: "E", V: ref}, {Kind: "C", Off: byte(o1)}, {Kind: "C", Off: byte(o2)}, {Kind: "L", V: ref + 3600}}, "offset-pairs")
			}
		}
	}
	// long runs: multiple rollovers
	for si, stride := range []int{1, 31, 17, 0} {
		if !w.Mine(int64(si)) {
			continue
		}
		word := []c12Op{{Kind: "E", V: T + 5}}
		off := 5
		for i := 0; i < 70; i++ {
			off = (off + stride) % 32
			word = append(word, c12Op{Kind: "C", Off: byte(off)})
			if i == 40 {
				word = append(word, c12Op{Kind: "E", V: T + 5000})
				off = int((T + 5000) & 31)
			}
		}
		run(word, "long-runs")
	}
	// non-253 date_time must not re-base: activity file, session.start_time then compressed record
	if w.Shard == 0 {
		for _, big := range []bool{false, true} {
			o := binaryOrder(big)
			sdef := fitmodel.Def{Local: 1, Big: big, Global: 18, Fields: []fitmodel.FieldDef{{Num: 2, Size: 4, Base: fitmodel.Uint32}}}
			rdefE := fitmodel.Def{Local: 2, Big: big, Global: 20, Fields: []fitmodel.FieldDef{{Num: 253, Size: 4, Base: fitmodel.Uint32}, {Num: 3, Size: 1, Base: fitmodel.Uint8}}}
			rdefC := fitmodel.Def{Local: 3, Big: big, Global: 20, Fields: []fitmodel.FieldDef{{Num: 3, Size: 1, Base: fitmodel.Uint8}}}
			recs := fitmodel.FileIdRecords(0, 4)
			recs = append(recs, sdef.Bytes(), rdefE.Bytes(), rdefC.Bytes(),
				fitmodel.Data(2, append(fitmodel.PutUint(o, 4, uint64(T+10)), 1)),
				fitmodel.Data(1, fitmodel.PutUint(o, 4, uint64(T+99999))),
				fitmodel.Compressed(3, 12, []byte{2}))
			s := fitmodel.File(fitmodel.DefaultHeader, recs...)
			res := safeDecode(bytes.NewReader(s))
			w.Eval(1)
			w.Trace(1)
			w.Fam("non-253-date_time", 1)
			bad := ""
			if res.Err != nil || res.Panic != "" {
				bad = fmt.Sprintf("decode failed: %v %s", res.Err, res.Panic)
			} else {
				r := messagesOf(res.File, 20)
				ss := messagesOf(res.File, 18)
				if len(r) != 2 || len(ss) != 1 {
					bad = "wrong message counts"
				} else {
					if tdump(r[1].FieldByName("Timestamp").Interface().(time.Time)) != tdump(fitTime(advance(T+10, 12))) {
						bad = "compressed record after a session start_time got " + tdump(r[1].FieldByName("Timestamp").Interface().(time.Time)) + ", expected reference T+10 advanced to offset 12"
					}
					if tdump(ss[0].FieldByName("StartTime").Interface().(time.Time)) != tdump(fitTime(T+99999)) {
						bad = "session start_time wrong"
					}
				}
			}
			if bad != "" {
				w.Violation("non-253-rebase", bad, c12Replay{Hex: vx.Hex(s), Big: big, Word: "E(T+10) S(T+99999) C(+12) in an activity file"})
			}
		}
		ex := []c12Op{{Kind: "E", V: T + 31}, {Kind: "C", Off: 1}, {Kind: "L", V: T + 3600}}
		s, _, _, _ := c12Stream(ex, false)
		w.Sample(map[string]interface{}{"word": ops2(ex), "stream_hex": vx.Hex(s), "expected": "second record T+33 (rollover), local time offset +3567s"})
	}
	for h := range states {
		w.State(h)
	}
	_ = reflect.TypeOf
}

// ---- zone-offset sweep: a local timestamp at every whole-second distance from the UTC reference between -15 h and
// +15 h (every offset a real time zone can have, and every one between), 500 per file, both byte orders.
// Used by C12 (the decoded local time must read l on the wall clock in a zone l-ref away from UTC) and by C01
// (no panic).

const sweepLo, sweepHi, sweepPer = -54000, 54000, 500

func localSweepFile(start int, big bool) ([]byte, []int) {
	const T = 1000000000
	d := fitmodel.Def{Local: 1, Big: big, Global: 55, Fields: []fitmodel.FieldDef{{Num: 253, Size: 4, Base: fitmodel.Uint32}, {Num: 11, Size: 4, Base: fitmodel.Uint32}}}
	o := d.Order()
	recs := append(fitmodel.FileIdRecords(0, 32), d.Bytes())
	var offs []int
	for off := start; off < start+sweepPer && off <= sweepHi; off++ {
		ref := uint32(T + (off-sweepLo)%977)
		recs = append(recs, fitmodel.Data(1, fitmodel.Concat(fitmodel.PutUint(o, 4, uint64(ref)), fitmodel.PutUint(o, 4, uint64(int64(ref)+int64(off))))))
		offs = append(offs, off)
	}
	return fitmodel.File(fitmodel.DefaultHeader, recs...), offs
}

// localSweepCheck decodes one sweep file; returns the panic text (C01's concern) and the first value mismatch (C12's).
func localSweepCheck(start int, big bool) (stream []byte, panicText, mismatch string) {
	const T = 1000000000
	stream, offs := localSweepFile(start, big)
	res := safeDecode(bytes.NewReader(stream))
	if res.Panic != "" {
		return stream, res.Panic, ""
	}
	if res.Err != nil {
		return stream, "", "Decode rejects the stream: " + res.Err.Error()
	}
	ms := messagesOf(res.File, 55)
	if len(ms) != len(offs) {
		return stream, "", fmt.Sprintf("%d monitoring messages decoded, %d written", len(ms), len(offs))
	}
	for i, off := range offs {
		ref := uint32(T + (off-sweepLo)%977)
		l := uint32(int64(ref) + int64(off))
		got := ms[i].FieldByName("LocalTimestamp").Interface().(time.Time)
		want := localTime(true, ref, l)
		if tdump(got) != tdump(want) {
			return stream, "", fmt.Sprintf("local timestamp %d s away from its reference (big-endian=%v): decoded %s, model %s", off, big, tdump(got), tdump(want))
		}
		if ts := ms[i].FieldByName("Timestamp").Interface().(time.Time); !ts.Equal(fitTime(ref)) {
			return stream, "", fmt.Sprintf("timestamp next to a local timestamp %d s away: decoded %v, model %v", off, ts, fitTime(ref))
		}
	}
	return stream, "", ""
}

func c12LocalSweep(w *vx.W) {
	var idx int64
	for start := sweepLo; start <= sweepHi; start += sweepPer {
		for _, big := range []bool{false, true} {
			idx++
			if !w.Mine(idx) {
				continue
			}
			stream, pn, mm := localSweepCheck(start, big)
			w.Eval(sweepPer)
			w.Trace(1)
			w.Fam("zone-offset-sweep", sweepPer)
			if pn != "" {
				mm = "panic: " + pn
			}
			if mm != "" {
				w.Violation("zone-offset-sweep", mm, mixReplayT{Mix: true, Word: fmt.Sprintf("zone offsets %d.. (big-endian=%v)", start, big), Stream: hex.EncodeToString(stream)})
			}
		}
	}
}
