package props

import (
	"bytes"
	"encoding/json"
	"fmt"
	"io"
	"reflect"
	"runtime"
	"strings"

	"github.com/tormoder/fit"

	"verif/fitmodel"
	"verif/vx"
)

// C18: component fields expand per profile, with per-file accumulation.

func entryByName(m uint16, name string) fit.VerifField {
	mt := fit.VerifMesgType(fit.MesgNum(m))
	for _, e := range prof().byMesg[m] {
		if mt.Field(e.Sindex).Name == name {
			return e
		}
	}
	panic(fmt.Sprintf("no field %s in message %d", name, m))
}

type c18Field struct {
	Name string `json:"name"`
	Hex  string `json:"bytes_hex"` // wire bytes in little-endian logical order (reversed per element for big-endian defs)
	b    []byte
}

func fU(name string, size int, v uint64) c18Field {
	b := fitmodel.PutUint(binaryOrder(false), size, v)
	return c18Field{Name: name, Hex: vx.Hex(b), b: b}
}
func fB(name string, b ...byte) c18Field { return c18Field{Name: name, Hex: vx.Hex(b), b: b} }

type c18Msg struct {
	Mesg   uint16     `json:"mesg"`
	Fields []c18Field `json:"fields"`
}

// wire returns def+data for the message on `local` and the model's pre-expansion message.
func (m c18Msg) wire(local byte, big bool, ft byte, compressed bool) ([]byte, reflect.Value) {
	var fds []fitmodel.FieldDef
	var payload []byte
	want := newWant(m.Mesg, ft)
	for _, f := range m.Fields {
		e := entryByName(m.Mesg, f.Name)
		b := f.b
		if b == nil {
			b = vx.UnHex(f.Hex)
		}
		bs := fitmodel.BaseSize(e.Base)
		wb := append([]byte{}, b...)
		if big && bs > 1 {
			for i := 0; i+bs <= len(wb); i += bs {
				for a, z := i, i+bs-1; a < z; a, z = a+1, z-1 {
					wb[a], wb[z] = wb[z], wb[a]
				}
			}
		}
		fd := fitmodel.FieldDef{Num: e.Num, Size: byte(len(wb)), Base: e.Base}
		if !modelSet(want, e, fd, big, wb) {
			panic("c18: field outside the compat set: " + f.Name)
		}
		fds = append(fds, fd)
		payload = append(payload, wb...)
	}
	d := fitmodel.Def{Local: local, Big: big, Global: m.Mesg, Fields: fds}
	if compressed {
		return fitmodel.Concat(d.Bytes(), fitmodel.Compressed(local, 0, payload)), want
	}
	return fitmodel.Concat(d.Bytes(), fitmodel.Data(local, payload)), want
}

// ---- the reference expansion (property C18's wording), and the defect models ----

type accum struct{ acc, last uint32 }

func (a *accum) add(v, mask uint32) uint32 {
	a.acc += (v - a.last) & mask
	a.last = v
	return a.acc
}

type c18Accs struct{ dist, cyc, pow accum }

// c18Pred holds, per accumulated destination, the predictions of the reference
// and of the known-defect models.
type c18Pred struct {
	field   string
	correct uint32
	// defect models
	perFileLossy uint32 // K1 only (per-file accumulator, high nibble of the distance half lost)
	globalExact  uint32 // K3 only (package-level accumulator, correct 12 bits)
	globalLossy  uint32 // K1+K3 (what the code does today)
	maskZero     bool   // K2: accumulator created with mask 0 => always 0
}

func u(v reflect.Value, name string) uint64 { return v.FieldByName(name).Uint() }
func setU(v reflect.Value, name string, x uint64) {
	v.FieldByName(name).SetUint(x)
}

// expand applies the component rules to msg (pre-expansion model value) and
// returns predictions for accumulated destinations. perFile: the reference
// accumulators of the current file; global*: defect-model accumulators.
func c18Expand(msg reflect.Value, perFile, perFileLossy, globalExact, globalLossy *c18Accs) []c18Pred {
	var preds []c18Pred
	copy16 := func(src, dst string) {
		if s := u(msg, src); s != 0xFFFF {
			setU(msg, dst, s)
		}
	}
	switch msg.Type().Name() {
	case "RecordMsg":
		copy16("Altitude", "EnhancedAltitude")
		copy16("Speed", "EnhancedSpeed")
		csd := msg.FieldByName("CompressedSpeedDistance").Bytes()
		valid := false
		if len(csd) == 3 {
			for _, b := range csd {
				if b != 0xFF {
					valid = true
				}
			}
		}
		if valid {
			setU(msg, "Speed", uint64(csd[0])|uint64(csd[1]&0x0F)<<8)
			d12 := uint32(csd[1]>>4) | uint32(csd[2])<<4
			lossy := uint32(csd[1]>>4) | uint32(byte(csd[2]<<4))
			p := c18Pred{field: "Distance"}
			p.correct = perFile.dist.add(d12, 0xFFF)
			p.perFileLossy = perFileLossy.dist.add(lossy, 0xFFF)
			p.globalExact = globalExact.dist.add(d12, 0xFFF)
			p.globalLossy = globalLossy.dist.add(lossy, 0xFFF)
			preds = append(preds, p)
		}
		if c := u(msg, "Cycles"); c != 0xFF {
			p := c18Pred{field: "TotalCycles", maskZero: true}
			p.correct = perFile.cyc.add(uint32(c), 0xFF)
			preds = append(preds, p)
		}
		if c := u(msg, "CompressedAccumulatedPower"); c != 0xFFFF {
			p := c18Pred{field: "AccumulatedPower", maskZero: true}
			p.correct = perFile.pow.add(uint32(c), 0xFFFF)
			preds = append(preds, p)
		}
	case "LapMsg", "SessionMsg":
		copy16("AvgSpeed", "EnhancedAvgSpeed")
		copy16("MaxSpeed", "EnhancedMaxSpeed")
		copy16("AvgAltitude", "EnhancedAvgAltitude")
		copy16("MaxAltitude", "EnhancedMaxAltitude")
		copy16("MinAltitude", "EnhancedMinAltitude")
	case "SegmentLapMsg":
		copy16("AvgAltitude", "EnhancedAvgAltitude")
		copy16("MaxAltitude", "EnhancedMaxAltitude")
		copy16("MinAltitude", "EnhancedMinAltitude")
	case "EventMsg":
		if s := u(msg, "Data16"); s != 0xFFFF {
			setU(msg, "Data", s)
		}
		if d := u(msg, "Data"); d != 0xFFFFFFFF {
			switch fit.Event(u(msg, "Event")) {
			case fit.EventSportPoint:
				setU(msg, "Score", d&0xFFFF)
				setU(msg, "OpponentScore", d>>16&0xFFFF)
			case fit.EventFrontGearChange, fit.EventRearGearChange:
				setU(msg, "RearGearNum", d&0xFF)
				setU(msg, "RearGear", d>>8&0xFF)
				setU(msg, "FrontGearNum", d>>16&0xFF)
				setU(msg, "FrontGear", d>>24&0xFF)
			}
		}
	}
	return preds
}

type c18Replay struct {
	Desc  string     `json:"desc"`
	Files [][]c18Msg `json:"files"`
	FT    byte       `json:"file_type"`
	Big   bool       `json:"big_endian"`
	Mode  string     `json:"mode"` // separate | chained
	Hex   []string   `json:"streams_hex"`
}

// process-wide shadow of the package-level accumulators (defect models K3 / K1+K3)
var c18GlobalExact, c18GlobalLossy c18Accs

// c18Case decodes a history of files (separately or chained) and compares every
// message with the reference expansion. Returns violations (key -> message) and known matches.
// c18SameLocal: every message of the case is written on local type 1 (each definition replaces the previous one) with a
// compressed-timestamp header, so that whatever a decoder keeps per local type across a redefinition shows as a source
// or destination the stream does not carry (the header's own effect, the Timestamp field, is C12's and is not compared).
var c18SameLocal bool

// c18NoVariant: the case is not repeated in the same-local form (long runs)
var c18NoVariant bool

func c18Case(ft byte, big bool, files [][]c18Msg, chained bool) (viol map[string]string, known map[string]string, streams [][]byte) {
	viol, known = map[string]string{}, map[string]string{}
	type expMsg struct {
		mesg  uint16
		want  reflect.Value
		preds []c18Pred
	}
	exps := make([][]expMsg, len(files))
	for fi, msgs := range files {
		var perFile, perFileLossy c18Accs
		parts := fitmodel.FileIdRecords(0, ft)
		for i, m := range msgs {
			local := byte(1 + i%15)
			if c18SameLocal {
				local = 1
			}
			rec, want := m.wire(local, big, ft, c18SameLocal)
			parts = append(parts, rec)
			if slotHosted(ft, m.Mesg) {
				preds := c18Expand(want, &perFile, &perFileLossy, &c18GlobalExact, &c18GlobalLossy)
				exps[fi] = append(exps[fi], expMsg{m.Mesg, want, preds})
			}
		}
		streams = append(streams, fitmodel.File(fitmodel.DefaultHeader, parts...))
	}
	var decoded []*fit.File
	if chained {
		res := safeDecodeChained(bytes.NewReader(fitmodel.Concat(streams...)))
		if res.Panic != "" || res.Err != nil || len(res.Files) != len(files) {
			viol["decode"] = fmt.Sprintf("DecodeChained: err=%v panic=%q files=%d", res.Err, res.Panic, len(res.Files))
			return
		}
		decoded = res.Files
	} else {
		for _, s := range streams {
			res := safeDecode(bytes.NewReader(s))
			if res.Panic != "" || res.Err != nil {
				viol["decode"] = fmt.Sprintf("Decode: err=%v panic=%q", res.Err, res.Panic)
				return
			}
			decoded = append(decoded, res.File)
		}
	}
	for fi, f := range decoded {
		// walk the container in stream order per message type
		cursor := map[uint16]int{}
		single := map[uint16]bool{}
		gotBy := map[uint16][]reflect.Value{}
		lastOf := map[uint16]int{}
		for i, ex := range exps[fi] {
			lastOf[ex.mesg] = i
		}
		for exi, ex := range exps[fi] {
			got, seenM := gotBy[ex.mesg]
			if !seenM {
				got = messagesOf(f, ex.mesg)
				gotBy[ex.mesg] = got
			}
			if !slotIsSlice(ft, ex.mesg) {
				single[ex.mesg] = true
			}
			var g reflect.Value
			if single[ex.mesg] {
				// pointer slot: only the last message of this type is visible
				isLast := lastOf[ex.mesg] == exi
				if !isLast {
					continue
				}
				if len(got) != 1 {
					viol["count"] = fmt.Sprintf("file %d: expected one %v, found %d", fi, fit.MesgNum(ex.mesg), len(got))
					continue
				}
				g = got[0]
			} else {
				i := cursor[ex.mesg]
				cursor[ex.mesg]++
				if i >= len(got) {
					viol["count"] = fmt.Sprintf("file %d: %v #%d missing", fi, fit.MesgNum(ex.mesg), i)
					continue
				}
				g = got[i]
			}
			ignore := map[string]bool{}
			if c18SameLocal {
				ignore["Timestamp"] = true
			}
			for _, p := range ex.preds {
				ignore[p.field] = true
				obs := uint32(g.FieldByName(p.field).Uint())
				if obs == p.correct {
					continue
				}
				where := fmt.Sprintf("file %d %v.%s: decoded %d, reference %d", fi, fit.MesgNum(ex.mesg), p.field, obs, p.correct)
				switch {
				case p.maskZero && obs == 0:
					known["accumulator-mask-zero/"+p.field] = where + " (accumulator created with mask 0)"
				case p.field == "Distance" && obs == p.globalLossy:
					if p.globalLossy != p.globalExact {
						known["distance-high-nibble"] = where + fmt.Sprintf(" (12-bit distance half loses bits 8-11: prediction %d)", p.globalLossy)
					}
					if p.globalLossy != p.perFileLossy {
						known["accumulators-package-level/Distance"] = where + fmt.Sprintf(" (accumulator continues across files/calls: prediction %d)", p.globalLossy)
					}
				default:
					viol["accumulated/"+p.field] = where + fmt.Sprintf(" (defect models predict lossy-global=%d exact-global=%d lossy-per-file=%d)", p.globalLossy, p.globalExact, p.perFileLossy)
				}
			}
			if d := diffMsg(g, ex.want, ignore); d != "" {
				key := "expansion/" + g.Type().Name()
				if g.Type().Name() == "SegmentLapMsg" && ft == byte(fit.FileTypeSegment) {
					key = "segment-file-segment_lap-not-expanded"
				}
				viol[key] = fmt.Sprintf("file %d %v: %s", fi, fit.MesgNum(ex.mesg), d)
			}
		}
	}
	return
}

func slotHosted(ft byte, m uint16) bool {
	for _, s := range hosts()[ft] {
		if s.Mesg == m {
			return true
		}
	}
	return false
}

func init() {
	vx.Register(&vx.Prop{
		ID:    "C18",
		Level: "model_checking",
		Rule: "reference expansion model (bit slices as the property words them; accumulators 12/8/16 bits, zero at the start of each file) against the real decoder: (A) every component source of record / lap / session / segment_lap / event x boundary bit patterns (incl. invalid) x every file type holding the message x both byte orders; (B) all words of length <=3 (quick) / <=4 (thorough) over 9 record variants (7 carrying compressed_speed_distance, cycles and compressed_accumulated_power values that force 12/8/16-bit rollovers, one without any source, one with compressed_speed_distance only), also with a further file_id record between two records; (D) sources transmitted together with an explicit destination value, both field orders; (C) histories of 1-3 files decoded one after another in the same process and the same files chained in one stream. " +
			"Mismatches are attributed to a listed finding only if the corresponding defect model (lost high nibble; mask-0 accumulator; package-level accumulator shadowed across the whole worker history) reproduces the decoded value exactly. states = distinct reference accumulator states; transitions = records; traces = decodes compared",
		Assumptions: []string{"no scale/offset conversion between source and destination is demanded (the property speaks of bit slices)", "EnhancedSpeed is not demanded when Speed itself was derived from compressed_speed_distance (that is C07's K8)"},
		Run:         runC18,
		Workers:     8,
		Replay: func(raw json.RawMessage) (string, error) {
			var r c18Replay
			json.Unmarshal(raw, &r)
			c18SameLocal = r.Mode == "same-local-compressed"
			viol, known, _ := c18Case(r.FT, r.Big, r.Files, r.Mode == "chained")
			c18SameLocal = false
			if len(viol) > 0 {
				return "", fmt.Errorf("%v", viol)
			}
			return fmt.Sprintf("no unexplained mismatch; known-defect matches: %v", known), nil
		},
	})
}

func runC18(w *vx.W) {
	// (the collector family decodes accumulating records outside the shadow bookkeeping, so it runs last)
	defer c18GCBetweenReads(w)
	states := map[uint64]struct{}{}
	var do func(desc string, ft byte, big bool, files [][]c18Msg, chained bool, fam string)
	do = func(desc string, ft byte, big bool, files [][]c18Msg, chained bool, fam string) {
		if !chained && !c18SameLocal && !c18NoVariant && len(files) == 1 && len(files[0]) >= 2 {
			// the same case once more on one local type with compressed-timestamp headers (afterwards, so that the
			// plain form is reported first)
			defer func() {
				c18SameLocal = true
				do(desc+" [all on local type 1, compressed-timestamp headers]", ft, big, files, false, fam+"/same-local-compressed")
				c18SameLocal = false
			}()
		}
		viol, known, streams := c18Case(ft, big, files, chained)
		w.Eval(1)
		w.Trace(1)
		n := 0
		for _, f := range files {
			n += len(f)
		}
		w.Transition(int64(n))
		w.Fam(fam, 1)
		w.Distinct(vx.Hash(fmt.Sprint(desc, ft, big, chained)))
		mode := "separate"
		if chained {
			mode = "chained"
		}
		if c18SameLocal {
			mode = "same-local-compressed"
		}
		var hx []string
		for _, s := range streams {
			hx = append(hx, vx.Hex(s))
		}
		rep := c18Replay{desc, files, ft, big, mode, hx}
		for k, v := range viol {
			w.Violation(k, desc+": "+v, rep)
		}
		for k, v := range known {
			w.Known(k, desc+": "+v, rep)
		}
	}
	pat16 := []uint64{0, 1, 0x7FFF, 0x8000, 0x1234, 0xFFFE, 0xFFFF}
	containersOf := func(m uint16) []byte { return hostedIn(m) }
	var k int64
	mine := func() bool { k++; return w.Mine(k) }

	// (A) single sources
	type src struct {
		mesg uint16
		name string
	}
	var srcs16 []src
	for _, n := range []string{"Altitude", "Speed"} {
		srcs16 = append(srcs16, src{20, n})
	}
	for _, m := range []uint16{19, 18} {
		for _, n := range []string{"AvgSpeed", "MaxSpeed", "AvgAltitude", "MaxAltitude", "MinAltitude"} {
			srcs16 = append(srcs16, src{m, n})
		}
	}
	for _, n := range []string{"AvgAltitude", "MaxAltitude", "MinAltitude"} {
		srcs16 = append(srcs16, src{142, n})
	}
	for _, s := range srcs16 {
		for _, ft := range containersOf(s.mesg) {
			for _, v := range pat16 {
				for _, big := range []bool{false, true} {
					if !mine() {
						continue
					}
					do(fmt.Sprintf("%v.%s=%#x", fit.MesgNum(s.mesg), s.name, v), ft, big, [][]c18Msg{{{s.mesg, []c18Field{fU(s.name, 2, v)}}}}, false, "A:16-bit-sources")
				}
			}
		}
	}
	// all five lap/session sources together, distinct values
	for _, m := range []uint16{19, 18} {
		for _, ft := range containersOf(m) {
			for _, big := range []bool{false, true} {
				if !mine() {
					continue
				}
				do(fmt.Sprintf("%v all sources", fit.MesgNum(m)), ft, big, [][]c18Msg{{{m, []c18Field{fU("AvgSpeed", 2, 0x1111), fU("MaxSpeed", 2, 0x2222), fU("AvgAltitude", 2, 0x3333), fU("MaxAltitude", 2, 0xFFFF), fU("MinAltitude", 2, 0x5555)}}}}, false, "A:16-bit-sources")
			}
		}
	}
	// event
	for _, ft := range containersOf(21) {
		for _, ev := range []uint64{uint64(fit.EventSportPoint), uint64(fit.EventFrontGearChange), uint64(fit.EventRearGearChange), uint64(fit.EventTimer), 0xFF} {
			for _, d := range []uint64{0, 0x01020304, 0x80FF7F00, 0xFFFFFFFE, 0xFFFFFFFF} {
				for _, big := range []bool{false, true} {
					if !mine() {
						continue
					}
					do(fmt.Sprintf("event=%d data=%#x", ev, d), ft, big, [][]c18Msg{{{21, []c18Field{fU("Event", 1, ev), fU("Data", 4, d)}}}}, false, "A:event")
				}
			}
			for _, d16 := range []uint64{0, 0x0102, 0xFFFE, 0xFFFF} {
				for _, big := range []bool{false, true} {
					if !mine() {
						continue
					}
					do(fmt.Sprintf("event=%d data16=%#x", ev, d16), ft, big, [][]c18Msg{{{21, []c18Field{fU("Event", 1, ev), fU("Data16", 2, d16)}}}}, false, "A:event")
				}
			}
		}
	}
	// record: compressed_speed_distance nibble walk, cycles, compressed_accumulated_power (single record)
	for _, ft := range containersOf(20) {
		for _, b0 := range []byte{0x00, 0xFF, 0xA5} {
			for _, b1 := range []byte{0x00, 0x0F, 0xF0, 0xFF, 0x5A} {
				for _, b2 := range []byte{0x00, 0x0F, 0xF0, 0xFF, 0x12} {
					for _, big := range []bool{false, true} {
						if !mine() {
							continue
						}
						do(fmt.Sprintf("record csd=%02x%02x%02x", b0, b1, b2), ft, big, [][]c18Msg{{{20, []c18Field{fB("CompressedSpeedDistance", b0, b1, b2)}}}}, false, "A:record-csd")
					}
				}
			}
		}
		for _, c := range []uint64{0, 1, 0x7F, 0x80, 0xFE, 0xFF} {
			if !mine() {
				continue
			}
			do(fmt.Sprintf("record cycles=%#x", c), ft, false, [][]c18Msg{{{20, []c18Field{fU("Cycles", 1, c)}}}}, false, "A:record-accumulated")
		}
		for _, c := range pat16 {
			for _, big := range []bool{false, true} {
				if !mine() {
					continue
				}
				do(fmt.Sprintf("record cap=%#x", c), ft, big, [][]c18Msg{{{20, []c18Field{fU("CompressedAccumulatedPower", 2, c)}}}}, false, "A:record-accumulated")
			}
		}
	}

	// (D) a source together with an explicitly transmitted destination that holds another value, in both field
	// orders: a valid source wins (the destination receives the bit slice), an invalid source leaves the
	// transmitted destination alone
	type sd struct {
		mesg     uint16
		src      c18Field
		dst      c18Field
		srcValid bool
	}
	var sds []sd
	for _, v := range []uint64{0x01F4, 0xFFFF} {
		sds = append(sds,
			sd{20, fU("Altitude", 2, v), fU("EnhancedAltitude", 4, 0x00012345), v != 0xFFFF},
			sd{20, fU("Speed", 2, v), fU("EnhancedSpeed", 4, 0x00023456), v != 0xFFFF})
		for _, m := range []uint16{19, 18} {
			sds = append(sds,
				sd{m, fU("AvgSpeed", 2, v), fU("EnhancedAvgSpeed", 4, 0x00034567), v != 0xFFFF},
				sd{m, fU("MaxAltitude", 2, v), fU("EnhancedMaxAltitude", 4, 0x00045678), v != 0xFFFF})
		}
		sds = append(sds, sd{142, fU("MinAltitude", 2, v), fU("EnhancedMinAltitude", 4, 0x00056789), v != 0xFFFF})
		sds = append(sds, sd{21, fU("Data16", 2, v), fU("Data", 4, 0x0A0B0C0D), v != 0xFFFF})
	}
	sds = append(sds,
		sd{20, fB("CompressedSpeedDistance", 0xF4, 0x31, 0x02), fU("Speed", 2, 0x1388), true},
		sd{20, fB("CompressedSpeedDistance", 0xFF, 0xFF, 0xFF), fU("Speed", 2, 0x1388), false})
	for _, x := range sds {
		for _, ft := range containersOf(x.mesg) {
			for order := 0; order < 2; order++ {
				for _, big := range []bool{false, true} {
					if !mine() {
						continue
					}
					fs := []c18Field{x.src, x.dst}
					if order == 1 {
						fs = []c18Field{x.dst, x.src}
					}
					do(fmt.Sprintf("%v %s (valid=%v) with %s also transmitted, order %d", fit.MesgNum(x.mesg), x.src.Name, x.srcValid, x.dst.Name, order), ft, big, [][]c18Msg{{{x.mesg, fs}}}, false, "D:source-and-transmitted-destination")
				}
			}
		}
	}

	// (B) words over record variants (activity file)
	type rv struct {
		d12 uint32
		cyc uint64
		cap uint64
		// only: 0 = all three sources; 1 = no source at all (heart rate only); 2 = compressed_speed_distance only —
		// a record that leaves a source out must not show what an earlier record carried
		only int
	}
	variants := []rv{{0x001, 1, 1, 0}, {0x0FF, 0x80, 0x8000, 0}, {0x100, 0xFE, 0xFFFE, 0}, {0xFFF, 0, 0, 0}, {0x800, 0x7F, 0x1234, 0}, {0x000, 2, 0x00FF, 0}, {0xABC, 0xFF, 0xFFFF, 0},
		{0, 0, 0, 1}, {0x234, 0, 0, 2}}
	mk := func(v rv, i int) c18Msg {
		// speed half = 0x123 + i, distance half = d12
		sp := uint32(0x123+i) & 0xFFF
		b0 := byte(sp)
		b1 := byte(sp>>8) | byte(v.d12&0xF)<<4
		b2 := byte(v.d12 >> 4)
		switch v.only {
		case 1:
			return c18Msg{20, []c18Field{fU("HeartRate", 1, uint64(i+1))}}
		case 2:
			return c18Msg{20, []c18Field{fU("HeartRate", 1, uint64(i+1)), fB("CompressedSpeedDistance", b0, b1, b2)}}
		}
		return c18Msg{20, []c18Field{fB("CompressedSpeedDistance", b0, b1, b2), fU("Cycles", 1, v.cyc), fU("CompressedAccumulatedPower", 2, v.cap), fU("HeartRate", 1, uint64(i+1))}}
	}
	maxLen := 3
	if !w.Quick() {
		maxLen = 4
	}
	seqWords(len(variants), maxLen, func(i int64) bool { return w.Mine(i) }, func(word []int) bool {
		msgs := make([]c18Msg, len(word))
		var acc c18Accs
		for i, a := range word {
			msgs[i] = mk(variants[a], i)
			if variants[a].only != 1 {
				acc.dist.add(variants[a].d12, 0xFFF)
			}
			if variants[a].only == 0 {
				acc.cyc.add(uint32(variants[a].cyc), 0xFF)
			}
			states[vx.Hash(fmt.Sprint(acc))] = struct{}{}
		}
		do(fmt.Sprintf("records %v", word), 4, len(word)%2 == 0, [][]c18Msg{msgs}, false, "B:record-words")
		// the same word with a further file_id record (same type) between two records: the running sums belong to
		// the file, not to the stretch since the last file_id
		if len(word) >= 2 && len(word) <= 3 {
			for gap := 1; gap < len(word); gap++ {
				with := append(append(append([]c18Msg{}, msgs[:gap]...), c18Msg{0, []c18Field{fU("Type", 1, 4)}}), msgs[gap:]...)
				do(fmt.Sprintf("records %v with a further file_id after #%d", word, gap), 4, len(word)%2 == 0, [][]c18Msg{with}, false, "B:record-words-with-further-file_id")
			}
		}
		return true
	})

	// (E) long record runs: the accumulators and whatever the decoder keeps per file after thousands of records
	{
		ns := []int{256, 257, 1365, 1366, 4097, 70000}
		if !w.Quick() {
			ns = append(ns, 255, 1023, 1024, 1025, 2731, 4095, 4096, 8193, 65535, 65536, 65537, 131073)
		}
		for _, n := range ns {
			for _, big := range []bool{false, true} {
				if !mine() {
					continue
				}
				msgs := make([]c18Msg, n)
				for i := range msgs {
					msgs[i] = mk(variants[(i*3+i/7)%7], i%200)
				}
				c18NoVariant = true
				do(fmt.Sprintf("long run of %d records", n), 4, big, [][]c18Msg{msgs}, false, "E:long-record-runs")
				c18NoVariant = false
			}
		}
	}
	// (C) histories of 1..3 files (each a word of <=2 records), separately and chained
	fileWords := [][]int{{0}, {1}, {3}, {0, 2}, {2, 4}, {4, 4}}
	var hist func(prefix [][]int, depth int)
	hist = func(prefix [][]int, depth int) {
		if len(prefix) > 0 {
			for _, chained := range []bool{false, true} {
				if !mine() {
					continue
				}
				files := make([][]c18Msg, len(prefix))
				for fi, fw := range prefix {
					for i, a := range fw {
						files[fi] = append(files[fi], mk(variants[a], i))
					}
				}
				do(fmt.Sprintf("history %v chained=%v", prefix, chained), 4, false, files, chained, "C:file-histories")
			}
		}
		if depth == 0 {
			return
		}
		for _, fw := range fileWords {
			hist(append(append([][]int{}, prefix...), fw), depth-1)
		}
	}
	hist(nil, 3)
	// course file history (second container of record)
	if mine() {
		do("course history", byte(fit.FileTypeCourse), true, [][]c18Msg{{mk(variants[1], 0)}, {mk(variants[2], 0), mk(variants[0], 1)}}, false, "C:file-histories")
	}
	for h := range states {
		w.State(h)
	}
	if w.Shard == 0 {
		m := mk(variants[1], 0)
		rec, _ := m.wire(1, false, 4, false)
		w.Sample(map[string]interface{}{"record_fields": m.Fields, "wire_hex": vx.Hex(rec), "reference": "Speed=0x123, Distance+=0x0FF (12-bit), TotalCycles+=0x80 (8-bit), AccumulatedPower+=0x8000 (16-bit)"})
	}
	_ = strings.Join
}

// gcReader hands out 16 bytes per Read and forces two garbage collections before each: state parked in a sync.Pool,
// weak references or finalizers does not survive this.
type gcReader struct {
	b []byte
	i int
}

func (r *gcReader) Read(p []byte) (int, error) {
	runtime.GC()
	runtime.GC()
	if r.i >= len(r.b) {
		return 0, io.EOF
	}
	n := len(p)
	if n > 16 {
		n = 16
	}
	n = copy(p[:n], r.b[r.i:])
	r.i += n
	return n, nil
}

// c18GCBetweenReads: the running sums of one file must not depend on when the collector runs. Compared are the
// record-to-record distance deltas (they do not depend on what earlier decodes left in the accumulators).
func c18GCBetweenReads(w *vx.W) {
	if w.Shard != 0 {
		return
	}
	recs := fitmodel.FileIdRecords(0, 4)
	d := fitmodel.Def{Local: 1, Global: 20, Fields: []fitmodel.FieldDef{{Num: 8, Size: 3, Base: fitmodel.Byte}, {Num: 3, Size: 1, Base: fitmodel.Uint8}}}
	recs = append(recs, d.Bytes())
	raw := uint32(5)
	for i := 0; i < 60; i++ {
		raw = (raw + 37 + uint32(i%5)*11) & 0xFF // below 256: the listed nibble defect cannot interfere; wraps at 8 bits are not 12-bit rollovers
		if i%9 == 8 {
			raw = uint32(i) & 0x3F // a decrease: a 12-bit rollover for the accumulator
		}
		b1 := byte(raw&0xF) << 4
		b2 := byte(raw >> 4)
		recs = append(recs, fitmodel.Data(1, []byte{0x10, b1 | 0x01, b2, byte(60 + i)}))
	}
	stream := fitmodel.File(fitmodel.DefaultHeader, recs...)
	deltas := func(f *fit.File) []int64 {
		var out []int64
		ms := messagesOf(f, 20)
		for i := 1; i < len(ms); i++ {
			out = append(out, int64(ms[i].FieldByName("Distance").Uint())-int64(ms[i-1].FieldByName("Distance").Uint()))
		}
		return out
	}
	quiet := safeDecode(bytes.NewReader(stream))
	gc := safeDecode(&gcReader{b: stream})
	w.Eval(2)
	w.Trace(2)
	w.Fam("gc-between-reads", 1)
	if quiet.Err != nil || gc.Err != nil || gc.Panic != "" {
		w.Violation("gc-between-reads", fmt.Sprintf("decode fails: quiet=%v with collections=%v %s", quiet.Err, gc.Err, gc.Panic), c18Replay{Desc: "gc-between-reads", Hex: []string{vx.Hex(stream)}})
		return
	}
	if a, b := fmt.Sprint(deltas(quiet.File)), fmt.Sprint(deltas(gc.File)); a != b {
		w.Violation("gc-between-reads", fmt.Sprintf("record-to-record distance deltas differ when the garbage collector runs between reads: %s vs undisturbed %s", trunc(b, 200), trunc(a, 200)), c18Replay{Desc: "gc-between-reads", Hex: []string{vx.Hex(stream)}})
	}
}
