package props

import (
	"bytes"
	"encoding/json"
	"fmt"
	"go/ast"
	"go/constant"
	"go/importer"
	"go/parser"
	"go/token"
	"go/types"
	"os"
	"os/exec"
	"path/filepath"
	"sort"
	"strings"

	"verif/vx"
)

// C20: every profile constant prints its profile name; string tables match the types.

type c20Type struct {
	Name   string
	Bits   int
	Consts []c20Const
	HasStr bool
}

type c20Const struct {
	Name string
	Val  uint64
}

// c20Parse type-checks types.go alone and extracts named integer types and their constants.
func c20Parse() ([]c20Type, error) {
	fset := token.NewFileSet()
	f, err := parser.ParseFile(fset, filepath.Join(repoRoot, "types.go"), nil, 0)
	if err != nil {
		return nil, err
	}
	// the types are those declared in types.go; their constants are collected from every file of the package (a
	// constant of a generated type declared elsewhere must print its name too)
	inTypesGo := map[string]bool{}
	for _, d := range f.Decls {
		if gd, ok := d.(*ast.GenDecl); ok && gd.Tok == token.TYPE {
			for _, sp := range gd.Specs {
				inTypesGo[sp.(*ast.TypeSpec).Name.Name] = true
			}
		}
	}
	files := []*ast.File{f}
	ents, _ := os.ReadDir(repoRoot)
	for _, e := range ents {
		n := e.Name()
		if e.IsDir() || !strings.HasSuffix(n, ".go") || strings.HasSuffix(n, "_test.go") || n == "types.go" {
			continue
		}
		src, err := os.ReadFile(filepath.Join(repoRoot, n))
		if err != nil || bytes.Contains(src, []byte("//go:build")) {
			continue
		}
		if pf, err := parser.ParseFile(fset, filepath.Join(repoRoot, n), src, 0); err == nil {
			files = append(files, pf)
		}
	}
	conf := types.Config{Importer: importer.Default(), Error: func(error) {}}
	pkg, _ := conf.Check("fit", fset, files, nil)
	if pkg == nil {
		return nil, fmt.Errorf("type check of the package failed")
	}
	byName := map[string]*c20Type{}
	scope := pkg.Scope()
	for _, n := range scope.Names() {
		if !inTypesGo[n] {
			continue
		}
		if tn, ok := scope.Lookup(n).(*types.TypeName); ok {
			if b, ok := tn.Type().Underlying().(*types.Basic); ok && b.Info()&types.IsInteger != 0 {
				bits := map[types.BasicKind]int{types.Uint8: 8, types.Int8: 8, types.Uint16: 16, types.Int16: 16, types.Uint32: 32, types.Int32: 32, types.Uint64: 64, types.Int64: 64}[b.Kind()]
				byName[n] = &c20Type{Name: n, Bits: bits}
			}
		}
	}
	for _, n := range scope.Names() {
		if c, ok := scope.Lookup(n).(*types.Const); ok {
			if named, ok := c.Type().(*types.Named); ok {
				if t := byName[named.Obj().Name()]; t != nil {
					v, exact := constant.Uint64Val(constant.ToInt(c.Val()))
					if !exact {
						continue
					}
					t.Consts = append(t.Consts, c20Const{n, v})
				}
			}
		}
	}
	// String methods present in types_string.go
	f2, err := parser.ParseFile(fset, filepath.Join(repoRoot, "types_string.go"), nil, 0)
	if err == nil {
		for _, d := range f2.Decls {
			if fd, ok := d.(*ast.FuncDecl); ok && fd.Name.Name == "String" && fd.Recv != nil && len(fd.Recv.List) == 1 {
				if id, ok := fd.Recv.List[0].Type.(*ast.Ident); ok {
					if t := byName[id.Name]; t != nil {
						t.HasStr = true
					}
				}
			}
		}
	}
	var out []c20Type
	for _, t := range byName {
		sort.Slice(t.Consts, func(i, j int) bool { return t.Consts[i].Name < t.Consts[j].Name })
		out = append(out, *t)
	}
	sort.Slice(out, func(i, j int) bool { return out[i].Name < out[j].Name })
	return out, nil
}

const c20RunnerTmpl = `package main

import (
	"encoding/json"
	"fmt"
	"os"
	"runtime"
	"strconv"
	"strings"
	"sync"
	"sync/atomic"
	"time"

	"github.com/tormoder/fit"
)

var full32 int
var partial []string
var deadline = func() time.Time {
	d := 45 * time.Minute
	if len(os.Args) > 2 {
		if x, err := time.ParseDuration(os.Args[2]); err == nil {
			d = x
		}
	}
	return time.Now().Add(d)
}()

type cst struct {
	Name string
	Val  uint64
}
type typ struct {
	Name   string
	Bits   int
	Str    func(v uint64) string
	Consts []cst
}

var typs = []typ{
%s}

type viol struct{ Type string; Val uint64; Got, Want string }

func main() {
	var evals, distinct int64
	var viols []viol
	nviol := 0
	for _, t := range typs {
		names := map[uint64][]string{}
		for _, c := range t.Consts {
			names[c.Val] = append(names[c.Val], strings.TrimPrefix(c.Name, t.Name))
		}
		check := func(v uint64) {
			got := t.Str(v)
			evals++
			ok := false
			want := ""
			if ns, has := names[v]; has {
				want = strings.Join(ns, "|")
				for _, n := range ns {
					if got == n {
						ok = true
					}
				}
				distinct++
			} else {
				want = fmt.Sprintf("%%s(%%d)", t.Name, v)
				ok = got == want
			}
			if !ok {
				nviol++
				if len(viols) < 20 {
					viols = append(viols, viol{t.Name, v, got, want})
				}
			}
		}
		switch {
		case t.Bits <= 16:
			for v := uint64(0); v < 1<<uint(t.Bits); v++ {
				check(v)
			}
		case t.Bits == 32 && len(os.Args) > 1 && os.Args[1] == "full32" && !time.Now().After(deadline):
			// thorough tier: all 2^32 values, in parallel ranges (String methods are pure functions of the value)
			t0 := time.Now()
			var cut int32
			nw := runtime.NumCPU()
			var wg sync.WaitGroup
			var mu sync.Mutex
			for k := 0; k < nw; k++ {
				wg.Add(1)
				go func(k int) {
					defer wg.Done()
					lo, hi := uint64(k)<<32/uint64(nw), uint64(k+1)<<32/uint64(nw)
					var ev, di int64
					buf := make([]byte, 0, 64)
					for v := lo; v < hi; v++ {
						if v&0xFFFFF == 0 && time.Now().After(deadline) {
							atomic.StoreInt32(&cut, 1)
							break
						}
						got := t.Str(v)
						ev++
						ok := false
						want := ""
						if ns, has := names[v]; has {
							di++
							want = strings.Join(ns, "|")
							for _, n := range ns {
								if got == n {
									ok = true
								}
							}
						} else {
							buf = append(buf[:0], t.Name...)
							buf = append(buf, '(')
							buf = strconv.AppendUint(buf, v, 10)
							buf = append(buf, ')')
							ok = got == string(buf)
							if !ok {
								want = string(buf)
							}
						}
						if !ok {
							mu.Lock()
							nviol++
							if len(viols) < 20 {
								viols = append(viols, viol{t.Name, v, got, want})
							}
							mu.Unlock()
						}
					}
					mu.Lock()
					evals += ev
					distinct += di
					mu.Unlock()
				}(k)
			}
			wg.Wait()
			if cut == 0 {
				full32++
				fmt.Fprintf(os.Stderr, "%s: all 2^32 values in %v\n", t.Name, time.Since(t0).Round(time.Second))
			} else {
				partial = append(partial, t.Name)
			}
			fallthrough
		default:
			seen := map[uint64]bool{}
			max := uint64(1)<<uint(t.Bits) - 1
			for _, c := range t.Consts {
				for _, v := range []uint64{c.Val, c.Val + 1, c.Val - 1} {
					v &= max
					if !seen[v] {
						seen[v] = true
						check(v)
					}
				}
			}
			extra := []uint64{0, 1, max, max - 1, max >> 1, 0x10000, 0x12345678 & max}
			for k := uint(0); k < uint(t.Bits); k++ {
				extra = append(extra, uint64(1)<<k, (uint64(1)<<k)+1, (uint64(1)<<k)-1, uint64(3)<<k&max)
			}
			// every value below 2^16 and the values that share their low 16 bits with a constant
			for v := uint64(0); v < 1<<16; v++ {
				extra = append(extra, v)
			}
			for _, c := range t.Consts {
				extra = append(extra, c.Val|1<<16, c.Val|1<<31&max, c.Val+1<<16)
			}
			for _, v := range extra {
				v &= max
				if !seen[v] {
					seen[v] = true
					check(v)
				}
			}
		}
	}
	json.NewEncoder(os.Stdout).Encode(map[string]interface{}{"evals": evals, "distinct": distinct, "nviol": nviol, "viols": viols, "types": len(typs), "full32": full32, "partial": partial})
}
`

const c20RegenMain = `package main

import (
	"fmt"
	"os"
	"strings"

	"github.com/tormoder/fit/cmd/fitgen/internal/fitstringer"
)

func main() {
	out, err := fitstringer.Generate(strings.Split(os.Args[1], ","), os.Args[2])
	if err != nil {
		fmt.Fprintln(os.Stderr, err)
		os.Exit(1)
	}
	os.Stdout.Write(out)
}
`

func goEnv() []string {
	return append(os.Environ(), "GOFLAGS=-mod=mod", "GOPROXY=off", "GOSUMDB=off", "GOTOOLCHAIN=local", "CGO_ENABLED=0")
}

func init() {
	vx.Register(&vx.Prop{
		ID:      "C20",
		Level:   "exploration",
		Workers: 1,
		Rule: "every integer type declared in types.go (extracted with go/types) and every constant of it declared anywhere in the package: a generated program calls String() on all 256 values of 8-bit types, all 65536 values of 16-bit types, and for wider types on every constant and its neighbours, every value below 2^16, every power of two and its neighbours, and values sharing their low 16 bits with a constant (thorough tier: all 2^32 values of every 32-bit type); expected = constant name without the type prefix (any of the names sharing the value), otherwise Type(n). " +
			"Regeneration: the repository's fitstringer is run (through a driver placed by build overlay) on the sorted type list of types.go and its output compared byte-for-byte with the checked-in types_string.go, also when the generator runs under GOMAXPROCS = 1, 2, 3, 5, 6, 7, 12. Synthetic types: the stringer on hypothetical types with runs of 513 and 4100 constants (names above 8 KiB / 64 KiB), 700 runs, 32-bit values around 2^16 and 2^31 and an 8-bit type with 255 constants (FIT keeps the top value of every type as its invalid value): generated, compiled, every constant and neighbour printed. Through the command: fitgen run on bundled workbooks (quick: 2, thorough: 5) into an empty directory and into directories that already hold the same types.go with string tables of another SDK version / cut in half, only stale tables, or another version's complete output — the tables left must be those of the fresh run. distinct = values that are named constants",
		Assumptions: []string{"Bool (types_man.go) is hand-written and outside the statement"},
		Run:         runC20,
	})
}

func runC20(w *vx.W) {
	ts, err := c20Parse()
	if err != nil {
		w.HarnessError("parsing types.go: %v", err)
	}
	scratch, err := os.MkdirTemp(os.Getenv("VX_SCRATCH"), "c20-")
	if err != nil {
		w.HarnessError("%v", err)
	}
	defer os.RemoveAll(scratch)
	// ---- generated runner
	var sb strings.Builder
	nconst := 0
	for _, t := range ts {
		if !t.HasStr {
			w.Violation("no-string-method/"+t.Name, fmt.Sprintf("type %s (declared in types.go with %d constants) has no String method in types_string.go", t.Name, len(t.Consts)), nil)
			continue
		}
		fmt.Fprintf(&sb, "\t{%q, %d, func(v uint64) string { return fit.%s(v).String() }, []cst{", t.Name, t.Bits, t.Name)
		for _, c := range t.Consts {
			fmt.Fprintf(&sb, "{%q, %d},", c.Name, c.Val)
			nconst++
		}
		sb.WriteString("}},\n")
	}
	os.WriteFile(filepath.Join(scratch, "main.go"), []byte(fmt.Sprintf(c20RunnerTmpl, sb.String())), 0o644)
	os.WriteFile(filepath.Join(scratch, "go.mod"), []byte("module c20run\n\ngo 1.23\n\nrequire github.com/tormoder/fit v0.0.0\n\nreplace github.com/tormoder/fit => "+repoRoot+"\n"), 0o644)
	if b, err := os.ReadFile(filepath.Join(repoRoot, "go.sum")); err == nil {
		os.WriteFile(filepath.Join(scratch, "go.sum"), b, 0o644)
	}
	build := exec.Command("go", "build", "-o", "runner", ".")
	build.Dir = scratch
	build.Env = goEnv()
	if out, err := build.CombinedOutput(); err != nil {
		w.HarnessError("building the generated String() runner failed: %v\n%s", err, trunc(string(out), 3000))
	}
	var rargs []string
	if !w.Quick() {
		budget := os.Getenv("VX_C20_FULL32_BUDGET")
		if budget == "" {
			budget = "45m"
		}
		rargs = append(rargs, "full32", budget)
	}
	out, err := exec.Command(filepath.Join(scratch, "runner"), rargs...).Output()
	if err != nil {
		w.Violation("runner-crash", fmt.Sprintf("calling String() on the enumerated values crashed: %v", err), nil)
	} else {
		var res struct {
			Evals, Distinct int64
			Nviol           int
			Viols           []struct {
				Type      string
				Val       uint64
				Got, Want string
			}
			Types   int
			Full32  int
			Partial []string
		}
		if err := json.Unmarshal(out, &res); err != nil {
			w.HarnessError("runner output: %v", err)
		}
		w.Eval(res.Evals)
		for i := int64(0); i < res.Distinct; i++ {
			w.Distinct(uint64(i))
		}
		w.Fam("types", int64(res.Types))
		w.Fam("constants", int64(nconst))
		w.Fam("32-bit-types-all-2^32-values", int64(res.Full32))
		if len(res.Partial) > 0 {
			w.Cap("time budget reached while enumerating all 2^32 values of " + strings.Join(res.Partial, ", ") + " (and the 32-bit types after them): those keep the boundary families only")
		}
		for _, v := range res.Viols {
			w.Violation("string/"+v.Type, fmt.Sprintf("%s(%d).String() = %q, expected %q (%d mismatching values in total)", v.Type, v.Val, v.Got, v.Want, res.Nviol), map[string]interface{}{"type": v.Type, "value": v.Val})
		}
	}
	if len(ts) > 3 {
		w.Sample(map[string]interface{}{"type": ts[3].Name, "bits": ts[3].Bits, "constants": ts[3].Consts})
	}
	// ---- regeneration
	var names []string
	for _, t := range ts {
		names = append(names, t.Name)
	}
	drvDir := filepath.Join(repoRoot, "cmd", "fitgen", "internal", "verifregen")
	drvSrc := filepath.Join(scratch, "regen_main.go")
	os.WriteFile(drvSrc, []byte(c20RegenMain), 0o644)
	ov, _ := json.Marshal(map[string]interface{}{"Replace": map[string]string{filepath.Join(drvDir, "main.go"): drvSrc}})
	ovPath := filepath.Join(scratch, "overlay.json")
	os.WriteFile(ovPath, ov, 0o644)
	regenBin := filepath.Join(scratch, "regen")
	b2 := exec.Command("go", "build", "-overlay", ovPath, "-o", regenBin, "github.com/tormoder/fit/cmd/fitgen/internal/verifregen")
	b2.Dir = repoRoot
	b2.Env = goEnv()
	if out, err := b2.CombinedOutput(); err != nil {
		w.HarnessError("building the regeneration driver failed: %v\n%s", err, trunc(string(out), 3000))
	}
	rg := exec.Command(regenBin, strings.Join(names, ","), "types.go")
	rg.Dir = repoRoot
	rg.Env = goEnv()
	var stderr bytes.Buffer
	rg.Stderr = &stderr
	gen, err := rg.Output()
	w.Eval(1)
	w.Fam("regeneration", 1)
	if err != nil {
		w.Violation("regeneration-failed", fmt.Sprintf("fitstringer.Generate fails on the checked-in types.go: %v %s", err, trunc(stderr.String(), 500)), nil)
		return
	}
	// the generator's output must not depend on the number of processors it runs on
	for _, g := range []string{"1", "2", "3", "5", "6", "7", "12"} {
		rg2 := exec.Command(regenBin, strings.Join(names, ","), "types.go")
		rg2.Dir = repoRoot
		rg2.Env = append(goEnv(), "GOMAXPROCS="+g)
		gen2, err2 := rg2.Output()
		w.Eval(1)
		w.Fam("regeneration-under-processor-counts", 1)
		if err2 != nil || !bytes.Equal(gen2, gen) {
			w.Violation("regeneration-depends-on-processor-count", fmt.Sprintf("fitstringer.Generate under GOMAXPROCS=%s: err=%v, %d bytes; with the default processor count %d bytes", g, err2, len(gen2), len(gen)), nil)
			break
		}
	}
	have, _ := os.ReadFile(filepath.Join(repoRoot, "types_string.go"))
	w.Extra("regenerated_bytes", len(gen))
	if !bytes.Equal(gen, have) {
		i := 0
		for i < len(gen) && i < len(have) && gen[i] == have[i] {
			i++
		}
		line := 1 + bytes.Count(have[:min(i, len(have))], []byte("\n"))
		w.Violation("string-tables-stale", fmt.Sprintf("types_string.go differs from what fitstringer generates from types.go (first difference at byte %d, line %d; checked-in %d bytes, regenerated %d bytes)", i, line, len(have), len(gen)), nil)
	}
	c20ThroughCommand(w, scratch)
	c20SyntheticTypes(w, scratch, regenBin)
}

// c20SyntheticTypes: the repository's stringer on hypothetical profile types far larger than today's — a run of 513
// and of 4100 consecutive constants whose names total more than 8 KiB and more than 64 KiB, a type with 700 runs, a
// 32-bit type with constants around 2^16 and 2^31, an 8-bit type with 255 constants (FIT reserves the top value of a
// type as invalid, so no profile type is full) — generated, compiled and every constant (and its neighbours)
// printed: the name without the type prefix, Type(n) otherwise.
func c20SyntheticTypes(w *vx.W, scratch, regenBin string) {
	dir := filepath.Join(scratch, "synthetic")
	os.MkdirAll(dir, 0o755)
	type ty struct {
		name, base string
		vals       []uint64
	}
	var tys []ty
	seq := func(n int, start, step uint64) []uint64 {
		v := make([]uint64, n)
		for i := range v {
			v[i] = start + uint64(i)*step
		}
		return v
	}
	tys = append(tys, ty{"Longrun", "uint16", seq(513, 0, 1)}, ty{"Hugerun", "uint16", seq(4100, 3, 1)}, ty{"Manyruns", "uint16", seq(700, 1, 3)},
		ty{"Wide", "uint32", append(seq(300, 65400, 1), seq(40, 1<<31-20, 1)...)}, ty{"Tiny", "uint8", seq(255, 0, 1)})
	var src, chk strings.Builder
	src.WriteString("package main\n\n")
	chk.WriteString("package main\n\nimport (\n\t\"fmt\"\n\t\"os\"\n)\n\nfunc main() {\n\tbad := 0\n\tcheck := func(got, want string) {\n\t\tif got != want {\n\t\t\tif bad < 5 {\n\t\t\t\tfmt.Printf(\"String() = %q, expected %q\\n\", got, want)\n\t\t\t}\n\t\t\tbad++\n\t\t}\n\t}\n")
	var names []string
	total := 0
	for _, t := range tys {
		names = append(names, t.name)
		fmt.Fprintf(&src, "type %s %s\n\nconst (\n", t.name, t.base)
		is := map[uint64]bool{}
		for i, v := range t.vals {
			n := fmt.Sprintf("Value%05dOfTheSyntheticType", i)
			fmt.Fprintf(&src, "\t%s%s %s = %d\n", t.name, n, t.name, v)
			fmt.Fprintf(&chk, "\tcheck(%s(%d).String(), %q)\n", t.name, v, n)
			is[v] = true
			total++
		}
		src.WriteString(")\n\n")
		for _, v := range t.vals {
			for _, u := range []uint64{v - 1, v + 1} {
				if !is[u] && !(t.base == "uint8" && u > 255) && !(t.base == "uint16" && u > 65535) && u < 1<<32 {
					fmt.Fprintf(&chk, "\tcheck(%s(%d).String(), \"%s(%d)\")\n", t.name, u, t.name, u)
					is[u] = true // once
				}
			}
		}
	}
	chk.WriteString("\tif bad > 0 {\n\t\tfmt.Printf(\"%d mismatches\\n\", bad)\n\t\tos.Exit(1)\n\t}\n}\n")
	os.WriteFile(filepath.Join(dir, "types.go"), []byte(src.String()), 0o644)
	os.WriteFile(filepath.Join(dir, "check.go"), []byte(chk.String()), 0o644)
	os.WriteFile(filepath.Join(dir, "go.mod"), []byte("module synthetic\n\ngo 1.21\n"), 0o644)
	rg := exec.Command(regenBin, strings.Join(names, ","), "types.go")
	rg.Dir = dir
	rg.Env = goEnv()
	var stderr bytes.Buffer
	rg.Stderr = &stderr
	gen, err := rg.Output()
	w.Eval(int64(total))
	w.Fam("synthetic-large-types", int64(total))
	if err != nil {
		w.Violation("synthetic/generation-fails", fmt.Sprintf("fitstringer.Generate fails on types with 256 ... 4100 constants: %v %s", err, trunc(stderr.String(), 400)), nil)
		return
	}
	os.WriteFile(filepath.Join(dir, "types_string.go"), gen, 0o644)
	run := exec.Command("go", "run", ".")
	run.Dir = dir
	run.Env = goEnv()
	if out, err := run.CombinedOutput(); err != nil {
		w.Violation("synthetic/wrong-or-uncompilable-tables", fmt.Sprintf("string tables generated for types with 256 ... 4100 constants (names totalling more than 8 KiB / 64 KiB in one run): %v: %s", err, trunc(string(out), 600)), nil)
	}
}

// c20ThroughCommand: the tables the fitgen *command* leaves next to the types it generates. The output directory is an
// environment answer: empty; holding the very types.go the run will write together with string tables that belong to
// another SDK version, or cut in half (an interrupted earlier run); holding only stale tables. In every case the
// finished run must leave the tables of the fresh run (differential oracle: no expected text is written by hand).
func c20ThroughCommand(w *vx.W, scratch string) {
	fitgen := filepath.Join(scratch, "fitgen")
	b := exec.Command("go", "build", "-o", fitgen, "./cmd/fitgen")
	b.Dir = repoRoot
	b.Env = goEnv()
	if out, err := b.CombinedOutput(); err != nil {
		w.HarnessError("building fitgen failed: %v\n%s", err, trunc(string(out), 2000))
	}
	tdDir := filepath.Join(repoRoot, "cmd", "fitgen", "internal", "profile", "testdata")
	n := 0
	run := func(ver string, files map[string][]byte) (string, error) {
		n++
		out := filepath.Join(scratch, fmt.Sprintf("gen%d", n))
		os.MkdirAll(out, 0o755)
		for name, data := range files {
			os.WriteFile(filepath.Join(out, name), data, 0o644)
		}
		cmd := exec.Command(fitgen, "-sdk", ver, filepath.Join(tdDir, ver+".xlsx"), out)
		cmd.Dir = repoRoot
		cmd.Env = goEnv()
		if o, err := cmd.CombinedOutput(); err != nil {
			return out, fmt.Errorf("%v: %s", err, trunc(string(o), 400))
		}
		return out, nil
	}
	read := func(dir, name string) []byte { b, _ := os.ReadFile(filepath.Join(dir, name)); return b }
	vers := []string{"21.40", "20.14"}
	if !w.Quick() {
		vers = []string{"21.40", "20.14", "16.20", "20.27", "20.43"}
	}
	fresh := map[string]string{}
	for _, v := range vers {
		d, err := run(v, nil)
		w.Eval(1)
		if err != nil {
			w.Violation("command-fails", fmt.Sprintf("fitgen -sdk %s into an empty directory: %v", v, err), nil)
			return
		}
		fresh[v] = d
	}
	for i, v := range vers {
		other := vers[(i+1)%len(vers)]
		want := read(fresh[v], "types_string.go")
		cases := []struct {
			name  string
			files map[string][]byte
		}{
			{"the same types.go and the string tables of SDK " + other, map[string][]byte{"types.go": read(fresh[v], "types.go"), "types_string.go": read(fresh[other], "types_string.go")}},
			{"the same types.go, messages.go, profile.go and string tables cut in half", map[string][]byte{"types.go": read(fresh[v], "types.go"), "messages.go": read(fresh[v], "messages.go"), "profile.go": read(fresh[v], "profile.go"), "types_string.go": want[:len(want)/2]}},
			{"only the string tables of SDK " + other, map[string][]byte{"types_string.go": read(fresh[other], "types_string.go")}},
			{"the complete output of SDK " + other, map[string][]byte{"types.go": read(fresh[other], "types.go"), "messages.go": read(fresh[other], "messages.go"), "profile.go": read(fresh[other], "profile.go"), "types_string.go": read(fresh[other], "types_string.go")}},
		}
		for _, c := range cases {
			d, err := run(v, c.files)
			w.Eval(1)
			w.Fam("tables-left-by-the-command", 1)
			if err != nil {
				w.Violation("command-fails", fmt.Sprintf("fitgen -sdk %s into a directory holding %s: %v", v, c.name, err), nil)
			} else if got := read(d, "types_string.go"); !bytes.Equal(got, want) {
				w.Violation("command-leaves-stale-tables", fmt.Sprintf("fitgen -sdk %s into a directory holding %s: types_string.go (%d bytes) differs from the tables of a run into an empty directory (%d bytes), i.e. it does not match the types.go next to it", v, c.name, len(got), len(want)), nil)
			} else if !bytes.Equal(read(d, "types.go"), read(fresh[v], "types.go")) {
				w.Violation("command-leaves-stale-tables", fmt.Sprintf("fitgen -sdk %s into a directory holding %s: types.go differs from a run into an empty directory", v, c.name), nil)
			}
			os.RemoveAll(d)
		}
	}
}
