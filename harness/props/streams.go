package props

import (
	"encoding/binary"
	"sync"

	"verif/fitmodel"
)

// Shared valid streams (built by the reference builder) for C04 C08 C09 C10 C11.

type namedStream struct {
	Name    string
	B       []byte
	Members [][]byte // chain members (len 1 for single files)
}

// memberInfo keeps the record structure of a built file (for the cut/fault oracles).
type memberInfo struct {
	H    fitmodel.Header
	Recs [][]byte
}

var memberInfos = map[string]memberInfo{} // keyed by string(file bytes)

func buildFile(h fitmodel.Header, recs ...[]byte) []byte {
	b := fitmodel.File(h, recs...)
	memberInfos[string(b)] = memberInfo{h, recs}
	return b
}

func hdr12() fitmodel.Header {
	return fitmodel.Header{Size: 12, Proto: 0x10, Profile: 2115, DataType: ".FIT"}
}
func hdr14() fitmodel.Header { return fitmodel.DefaultHeader }
func hdr14zero() fitmodel.Header {
	h := fitmodel.DefaultHeader
	h.CRCMode = 1
	return h
}

func recordDef(local byte, big bool) fitmodel.Def {
	return fitmodel.Def{Local: local, Big: big, Global: 20, Fields: []fitmodel.FieldDef{
		{Num: 253, Size: 4, Base: fitmodel.Uint32}, {Num: 3, Size: 1, Base: fitmodel.Uint8}, {Num: 5, Size: 4, Base: fitmodel.Uint32}}}
}

func recordData(local byte, big bool, ts uint32, hr byte, dist uint32) []byte {
	var o binary.ByteOrder = binary.LittleEndian
	if big {
		o = binary.BigEndian
	}
	p := make([]byte, 9)
	o.PutUint32(p[0:4], ts)
	p[4] = hr
	o.PutUint32(p[5:9], dist)
	return fitmodel.Data(local, p)
}

func minimalFile(h fitmodel.Header, ftype byte) []byte {
	return buildFile(h, fitmodel.FileIdRecords(0, ftype)...)
}

func activityFile(h fitmodel.Header, nrec int, big bool, seed uint32) []byte {
	recs := fitmodel.FileIdRecords(0, 4)
	recs = append(recs, recordDef(1, big).Bytes())
	for i := 0; i < nrec; i++ {
		recs = append(recs, recordData(1, big, 1000000000+seed+uint32(i), byte(60+i%100), uint32(i)*100+seed))
	}
	return buildFile(h, recs...)
}

// settingsFile: file_id(settings=2) + user_profile with two fields + hrm_profile.
func settingsFile(h fitmodel.Header) []byte {
	recs := fitmodel.FileIdRecords(0, 2)
	up := fitmodel.Def{Local: 1, Global: 3, Fields: []fitmodel.FieldDef{{Num: 1, Size: 1, Base: fitmodel.Enum}, {Num: 2, Size: 1, Base: fitmodel.Uint8}, {Num: 4, Size: 2, Base: fitmodel.Uint16}}}
	recs = append(recs, up.Bytes(), fitmodel.Data(1, []byte{1, 33, 0x20, 0x03}), fitmodel.Data(1, []byte{0, 44, 0x10, 0x02}))
	return buildFile(h, recs...)
}

// monitoringStateful: a monitoring_b file whose first records use compressed-timestamp headers and a local
// timestamp *before* any explicit timestamp: decoded alone they get no timestamp / zero offset; any decoder
// state leaking in from an earlier file changes them.
func monitoringStateful(h fitmodel.Header) []byte {
	const mon = 55
	defC := fitmodel.Def{Local: 2, Global: mon, Fields: []fitmodel.FieldDef{{Num: 1, Size: 2, Base: fitmodel.Uint16}}}
	defL := fitmodel.Def{Local: 4, Global: mon, Fields: []fitmodel.FieldDef{{Num: 11, Size: 4, Base: fitmodel.Uint32}, {Num: 1, Size: 2, Base: fitmodel.Uint16}}}
	defE := fitmodel.Def{Local: 1, Global: mon, Fields: []fitmodel.FieldDef{{Num: 253, Size: 4, Base: fitmodel.Uint32}, {Num: 1, Size: 2, Base: fitmodel.Uint16}}}
	u32 := func(v uint32) []byte { return fitmodel.PutUint(binary.LittleEndian, 4, uint64(v)) }
	recs := fitmodel.FileIdRecords(0, 32)
	recs = append(recs, defC.Bytes(), defL.Bytes(), defE.Bytes(),
		fitmodel.Compressed(2, 3, []byte{1, 0}),
		fitmodel.Data(4, append(u32(1000007200), 2, 0)),
		fitmodel.Data(1, append(u32(1000000040), 3, 0)),
		fitmodel.Compressed(2, 2, []byte{4, 0}))
	return buildFile(h, recs...)
}

// zeroSizeFile: records whose last field has size 0, and records that consist of the header byte only.
func zeroSizeFile(h fitmodel.Header) []byte {
	recs := fitmodel.FileIdRecords(0, 4)
	d1 := fitmodel.Def{Local: 1, Global: 20, Fields: []fitmodel.FieldDef{{Num: 3, Size: 1, Base: fitmodel.Uint8}, {Num: 200, Size: 0, Base: fitmodel.String}}}
	d2 := fitmodel.Def{Local: 2, Global: 20}
	d3 := fitmodel.Def{Local: 3, Global: 20, Fields: []fitmodel.FieldDef{{Num: 201, Size: 0, Base: fitmodel.String}}}
	recs = append(recs, d1.Bytes(), fitmodel.Data(1, []byte{61}), d2.Bytes(), fitmodel.Data(2, nil), fitmodel.Data(1, []byte{62}), d3.Bytes(), fitmodel.Data(3, nil), fitmodel.Data(2, nil))
	return buildFile(h, recs...)
}

// sizedActivity: an activity file whose data area is exactly `target` bytes (records of 10 bytes + one filler record).
func sizedActivity(h fitmodel.Header, target int) []byte {
	n := (target - 11 - 15) / 10
	recs := fitmodel.FileIdRecords(0, 4)
	recs = append(recs, recordDef(1, false).Bytes())
	for i := 0; i < n; i++ {
		recs = append(recs, recordData(1, false, 1000000000+uint32(i), byte(60+i%90), uint32(i)))
	}
	rest := target - 11 - 15 - 10*n
	if rest > 0 {
		if rest < 11 {
			recs = recs[:len(recs)-1]
			rest += 10
		}
		k := rest - 10
		d := fitmodel.Def{Local: 2, Global: 0x0114, Fields: []fitmodel.FieldDef{{Num: 0, Size: byte(k), Base: fitmodel.Byte}}}
		recs = append(recs, d.Bytes(), fitmodel.Data(2, make([]byte, k)))
	}
	return buildFile(h, recs...)
}

// devFieldFile: records with developer fields of 8 and 3 bytes (and a developer-only definition).
func devFieldFile(h fitmodel.Header) []byte {
	recs := fitmodel.FileIdRecords(0, 4)
	d1 := fitmodel.Def{Local: 1, Global: 20, Fields: []fitmodel.FieldDef{{Num: 3, Size: 1, Base: fitmodel.Uint8}}, DevFlag: true, Dev: []fitmodel.DevDef{{Num: 0, Size: 8, Idx: 0}, {Num: 1, Size: 3, Idx: 0}}}
	d2 := fitmodel.Def{Local: 2, Global: 20, DevFlag: true, Dev: []fitmodel.DevDef{{Num: 0, Size: 5, Idx: 1}}}
	recs = append(recs, d1.Bytes(), fitmodel.Data(1, []byte{71, 1, 2, 3, 4, 5, 6, 7, 8, 9, 10, 11}), d2.Bytes(), fitmodel.Data(2, []byte{1, 2, 3, 4, 5}), fitmodel.Data(1, []byte{72, 8, 7, 6, 5, 4, 3, 2, 1, 0, 9, 8}))
	return buildFile(h, recs...)
}

// crcTuned: an activity file whose trailing CRC has a zero high byte, a zero low byte or is 0x0000 altogether (a
// distance value is searched for), so that a decoder that substitutes stale or zero bytes for CRC bytes it never
// read would accept a cut file.
func crcTuned(h fitmodel.Header, mask uint16) []byte {
	for v := uint32(0); v < 1<<20; v++ {
		recs := fitmodel.FileIdRecords(0, 4)
		recs = append(recs, recordDef(1, false).Bytes(), recordData(1, false, 1000000000, 61, 17), recordData(1, false, 1000000001, 62, v))
		b := fitmodel.File(h, recs...)
		crc := uint16(b[len(b)-2]) | uint16(b[len(b)-1])<<8
		if crc&mask == 0 {
			return buildFile(h, recs...)
		}
	}
	panic("crcTuned: no value found")
}

// longFieldsFile: device_info records whose product_name is a 200-byte string, so that long fields straddle the
// decoder's 4096-byte buffer boundary.
// stringLast: the long field is the last one of the record (a record is complete as soon as it is read) or is
// followed by a short field.
func longFieldsFile(h fitmodel.Header, n int, stringLast bool) []byte {
	d := fitmodel.Def{Local: 1, Global: 23, Fields: []fitmodel.FieldDef{{Num: 253, Size: 4, Base: fitmodel.Uint32}, {Num: 27, Size: 200, Base: fitmodel.String}, {Num: 2, Size: 2, Base: fitmodel.Uint16}}}
	if stringLast {
		d.Fields[1], d.Fields[2] = d.Fields[2], d.Fields[1]
	}
	recs := append(fitmodel.FileIdRecords(0, 4), d.Bytes())
	for i := 0; i < n; i++ {
		name := make([]byte, 200)
		for j := 0; j < 198; j++ {
			name[j] = byte('a' + (i+j)%26)
		}
		parts := [][]byte{fitmodel.PutUint(binary.LittleEndian, 4, uint64(1000000000+i)), name, fitmodel.PutUint(binary.LittleEndian, 2, uint64(100+i))}
		if stringLast {
			parts[1], parts[2] = parts[2], parts[1]
		}
		recs = append(recs, fitmodel.Data(1, fitmodel.Concat(parts...)))
	}
	return buildFile(h, recs...)
}

// unknownTailFile: every record (file_id included) ends in a field the profile does not list.
func unknownTailFile(h fitmodel.Header) []byte {
	fid := fitmodel.Def{Local: 0, Global: 0, Fields: []fitmodel.FieldDef{{Num: 0, Size: 1, Base: fitmodel.Enum}, {Num: 200, Size: 3, Base: fitmodel.Byte}}}
	rec := fitmodel.Def{Local: 1, Big: true, Global: 20, Fields: []fitmodel.FieldDef{{Num: 253, Size: 4, Base: fitmodel.Uint32}, {Num: 3, Size: 1, Base: fitmodel.Uint8}, {Num: 201, Size: 4, Base: fitmodel.Uint32}}}
	recs := [][]byte{fid.Bytes(), fitmodel.Data(0, []byte{4, 9, 8, 7}), rec.Bytes()}
	for i := 0; i < 3; i++ {
		recs = append(recs, fitmodel.Data(1, fitmodel.Concat(fitmodel.PutUint(binary.BigEndian, 4, uint64(1000000000+i)), []byte{byte(70 + i)}, []byte{1, 2, 3, byte(i)})))
	}
	return buildFile(h, recs...)
}

func chain(name string, members ...[]byte) namedStream {
	return namedStream{Name: name, B: fitmodel.Concat(members...), Members: members}
}

func single(name string, b []byte) namedStream {
	return namedStream{Name: name, B: b, Members: [][]byte{b}}
}

var (
	sMin12       = single("min12", minimalFile(hdr12(), 4))
	sMin14       = single("min14", minimalFile(hdr14(), 4))
	sMin14z      = single("min14-zero-hdr-crc", minimalFile(hdr14zero(), 2))
	sAct3        = single("activity-3rec", activityFile(hdr14(), 3, false, 0))
	sAct3BE      = single("activity-3rec-be-hdr12", activityFile(hdr12(), 3, true, 7))
	sSet         = single("settings", settingsFile(hdr14()))
	sBig         = single("activity-700rec", activityFile(hdr14(), 700, false, 3))
	sChain2      = chain("chain(min12,activity-3rec)", sMin12.B, sAct3.B)
	sChain2b     = chain("chain(activity-3rec,settings)", sAct3.B, sSet.B)
	sChain3      = chain("chain(min14,activity-3rec-be,min12)", sMin14.B, sAct3BE.B, sMin12.B)
	sChainBig    = chain("chain(activity-700rec,min14)", sBig.B, sMin14.B)
	s4096        = single("activity-datasize-4096", sizedActivity(hdr12(), 4096))
	s8192        = single("activity-datasize-8192", sizedActivity(hdr14(), 8192))
	sDev         = single("developer-fields", devFieldFile(hdr14()))
	sChainDev    = chain("chain(developer-fields,activity-3rec)", devFieldFile(hdr12()), sAct3.B)
	sMonState    = single("monitoring-stateful", monitoringStateful(hdr14()))
	sZero        = single("zero-size-fields", zeroSizeFile(hdr12()))
	sChainState  = chain("chain(activity-3rec,monitoring-stateful)", sAct3.B, sMonState.B)
	sChainState3 = chain("chain(monitoring-stateful,activity-3rec-be,monitoring-stateful)", sMonState.B, sAct3BE.B, sMonState.B)
	sChainZero   = chain("chain(zero-size-fields,min12)", sZero.B, sMin12.B)
	sUnkTail     = single("records-ending-in-unlisted-fields", unknownTailFile(hdr14()))
	sLongFields  = single("device_info-200-byte-strings-x28", longFieldsFile(hdr14(), 28, false))
	sLongFieldsL = single("device_info-200-byte-strings-last-x28", longFieldsFile(hdr12(), 28, true))
)

// The CRC-tuned streams are searched for, so they are built on first use (not at package initialisation, which
// every fresh helper process of C08/C09/C14 would pay for).
var (
	crcOnce                              sync.Once
	sCRChi0, sCRClo0, sCRC00, sChainCRC0 namedStream
)

func crcStreams() (hi0, lo0, zero, chain0 namedStream) {
	crcOnce.Do(func() {
		sCRChi0 = single("activity-crc-high-byte-zero", crcTuned(hdr14(), 0xFF00))
		sCRClo0 = single("activity-crc-low-byte-zero", crcTuned(hdr12(), 0x00FF))
		sCRC00 = single("activity-crc-0000", crcTuned(hdr14(), 0xFFFF))
		sChainCRC0 = chain("chain(activity-crc-0000,activity-crc-high-byte-zero)", sCRC00.B, sCRChi0.B)
	})
	return sCRChi0, sCRClo0, sCRC00, sChainCRC0
}
