package props

import (
	"bytes"
	"fmt"

	"verif/vx"
)

// Long runs: the word families bound the *depth* of a stream at 3-5 records; state that goes wrong only after many
// repetitions of an ordinary step (a counter in a narrow type, a cache with a capacity, a buffer refilled many times, a
// periodic maintenance step) is reached by repeating a short unit of the mix family N times, for N on both sides of the
// powers of two such limits sit at. The reference decoder judges every message of the long stream.

type longRun struct {
	Kind int `json:"kind"`
	A    int `json:"shape_a"`
	B    int `json:"shape_b"`
	N    int `json:"repetitions"`
}

var longRunKinds = []string{
	"def(l1,a) then N x data(l1)",
	"def(l2,rec-le-ts-first) data(l2) def(l1,a) then N x cdata(l1)",
	"N x [def(l1,a) data(l1)]",
	"def(l1,a) def(l2,b) then N x [data(l1) cdata(l2)]",
	"N x [def(l1,a) data(l1) def(l1,b) xdata(l1)]",
	"N x [def(l1,a) def(l2,b)] then data(l1) data(l2)",
	"def(l2,b) data(l2) then N x [def(l1,a) data(l1)] then data(l2)",
}

func (l longRun) String() string {
	return fmt.Sprintf("%s with a=%s b=%s N=%d", longRunKinds[l.Kind], mixDefName(l.A), mixDefName(l.B), l.N)
}

func (l longRun) ops() []mixOp {
	var ops []mixOp
	da, db := mixOp{Kind: 0, Local: 1, Def: l.A}, mixOp{Kind: 0, Local: 2, Def: l.B}
	switch l.Kind {
	case 0:
		ops = append(ops, da)
		for i := 0; i < l.N; i++ {
			ops = append(ops, mixOp{Kind: 1, Local: 1})
		}
	case 1:
		// the time reference comes from a record on another local type, so that shapes without a timestamp field of
		// their own run on the compressed clock alone
		ops = append(ops, mixOp{Kind: 0, Local: 2, Def: 0}, mixOp{Kind: 1, Local: 2}, da)
		for i := 0; i < l.N; i++ {
			ops = append(ops, mixOp{Kind: 2, Local: 1})
		}
	case 2:
		for i := 0; i < l.N; i++ {
			ops = append(ops, da, mixOp{Kind: 1, Local: 1})
		}
	case 3:
		ops = append(ops, da, db)
		for i := 0; i < l.N; i++ {
			ops = append(ops, mixOp{Kind: 1, Local: 1}, mixOp{Kind: 2, Local: 2})
		}
	case 4:
		for i := 0; i < l.N; i++ {
			ops = append(ops, da, mixOp{Kind: 1, Local: 1}, mixOp{Kind: 0, Local: 1, Def: l.B}, mixOp{Kind: 3, Local: 1})
		}
	case 5:
		for i := 0; i < l.N; i++ {
			ops = append(ops, da, db)
		}
		ops = append(ops, mixOp{Kind: 1, Local: 1}, mixOp{Kind: 1, Local: 2})
	case 6:
		ops = append(ops, db, mixOp{Kind: 1, Local: 2})
		for i := 0; i < l.N; i++ {
			ops = append(ops, da, mixOp{Kind: 1, Local: 1})
		}
		ops = append(ops, mixOp{Kind: 1, Local: 2})
	}
	return ops
}

func (l longRun) check() string {
	stream, _, ok := mixStream(l.ops(), true)
	if !ok {
		return ""
	}
	if msg := mixCheck(stream); msg != "" {
		return msg
	}
	// with every decode option and a logger that formats its arguments (thousands of log lines, counters in the
	// thousands): the same prediction
	if msg := mixCheckOpts(stream); msg != "" {
		return "with all decode options: " + msg
	}
	return ""
}

// mixLongRunsTotality: the same long streams for the totality property (C01) and the table property (C15): no panic,
// through Decode, DecodeChained and Decode with all options; no verdict on the content here.
func mixLongRunsTotality(w *vx.W, fam string, report func(l longRun, entry, panicText string, stream []byte)) {
	var idx int64
	for _, k := range []int{2, 5, 6} {
		for _, a := range []int{0, 1, 3, 5, 14, 100} {
			for _, b := range []int{2, 7} {
				if k == 2 && b != 2 {
					continue
				}
				for _, n := range []int{513, 4097} {
					idx++
					if !w.Mine(idx) {
						continue
					}
					l := longRun{k, a, b, n}
					stream, _, ok := mixStream(l.ops(), true)
					if !ok {
						continue
					}
					w.Eval(3)
					w.Fam(fam, 1)
					if res := safeDecode(bytes.NewReader(stream)); res.Panic != "" {
						report(l, "Decode", res.Panic, stream)
					}
					if res := safeDecodeChained(bytes.NewReader(stream)); res.Panic != "" {
						report(l, "DecodeChained", res.Panic, stream)
					}
					if res := callEntry("Decode+options", bytes.NewReader(stream)); res.Panic != "" {
						report(l, "Decode+options", res.Panic, stream)
					}
				}
			}
		}
	}
}

// mixLongRuns: kinds selects the unit forms (indices into longRunKinds).
func mixLongRuns(w *vx.W, kinds []int) {
	ns := []int{255, 256, 257, 4097, 65537}
	if !w.Quick() {
		ns = []int{255, 256, 257, 1023, 1024, 1025, 4095, 4096, 4097, 16385, 65535, 65536, 65537, 131073}
	}
	shapesA := []int{0, 1, 5, 6, 13, 14, 3, 100}
	shapesB := []int{2, 7}
	var idx int64
	for _, k := range kinds {
		for _, a := range shapesA {
			for _, b := range shapesB {
				if k <= 2 && b != shapesB[0] {
					continue // the unit has no second shape
				}
				for _, n := range ns {
					if w.Quick() && n == 65537 && a != 0 && a != 13 {
						continue // quick tier: the longest runs for two shapes (one with, one without a timestamp)
					}
					idx++
					if !w.Mine(idx) {
						continue
					}
					if w.Expired("long runs") {
						return
					}
					l := longRun{k, a, b, n}
					w.Eval(1)
					w.Trace(1)
					w.Fam("long-runs", 1)
					w.Distinct(vx.Hash(l.String()))
					if msg := l.check(); msg != "" {
						w.Violation("long-run", fmt.Sprintf("%s: %s", l, msg), mixReplayT{Mix: true, Word: l.String(), Long: &l})
					}
				}
			}
		}
	}
}

func init() {
	for _, id := range []string{"C02", "C03", "C12", "C13"} {
		vx.AppendRule(id, " Long runs: a short unit of the mix family repeated N times (N = 255, 256, 257, 4097, 65537; thorough also 1023-1025, 4095, 4096, 16385, 65535, 65536, 131073) — one definition and N records; N compressed-timestamp records after a reference; N redefinitions each followed by a record; N alternations of a normal record on one local type and a compressed one on another; N redefinitions between two shapes; N definition pairs before the first record; a definition on a second local type that stays live across N redefinitions of the first — over 8 x 2 shapes (one of them an unknown message whose field numbers collide with record fields under other types) (quick tier: the 65537-fold runs for two of them), every message of the long stream judged by the reference decoder.")
	}
}
