package props

import (
	"bytes"
	"encoding/json"
	"fmt"
	"reflect"
	"time"

	"github.com/tormoder/fit"

	"verif/fitmodel"
	"verif/vx"
)

// C06: Encode then Decode returns the values that were put in.

func init() {
	vx.Register(&vx.Prop{
		ID:    "C06",
		Level: "exploration",
		Rule: "the in-domain File family of C05 (17 file types x every member x {no field, every single field x boundary values, all fields (two value sets), union-definition mixes}, both byte orders, headers with/without CRC), plus every ordered pair of fields per message in the thorough tier local timestamps with a UTC reference at three zone offsets, and Files with every member populated at once; each File is encoded and decoded back. " +
			"Oracle: decode succeeds, same file type, same per-member message counts and order, field-for-field equality with the property's relaxations (arrays up to trailing invalid padding, local timestamps by wall-clock reading, component destinations per the C18 reference expansion, unset = invalid). distinct = distinct encoded streams",
		Assumptions: []string{"accumulated destinations (distance, total_cycles, accumulated_power) are excluded when their source is set: they are C18's listed findings"},
		Run:         runC06,
		Sub:         func(args []string) { tzSub(args) },
		Replay: func(raw json.RawMessage) (string, error) {
			var r c05Replay
			json.Unmarshal(raw, &r)
			g, ok := specFromJSON(r.Spec)
			if !ok {
				return "", fmt.Errorf("slot not found")
			}
			_, msg, _ := c06Check(g)
			if msg != "" {
				return "", fmt.Errorf("%s", msg)
			}
			return "ok", nil
		},
	})
}

// eqField compares one decoded field with the value put in, under the relaxations.
func eqField(got, put reflect.Value, e fit.VerifField) bool {
	switch {
	case e.Kind == kindLocal && !e.Array:
		g, p := got.Interface().(time.Time), put.Interface().(time.Time)
		_, go_ := g.Zone()
		_, po := p.Zone()
		if invalidValueOK(put, e) {
			return invalidValueOK(got, e)
		}
		return g.Unix()+int64(go_) == p.Unix()+int64(po) && g.Nanosecond() == 0
	case e.Array && e.Base != fitmodel.String:
		// decoded array is padded to the profile length with invalid elements
		// (a nil array is the empty array: under a union definition it comes back as pure padding)
		if got.Len() < put.Len() {
			return false
		}
		for i := 0; i < put.Len(); i++ {
			if fitmodel.Dump(got.Index(i)) != fitmodel.Dump(put.Index(i)) {
				return false
			}
		}
		inv := fitmodel.BaseInvalidBits(e.Base)
		for i := put.Len(); i < got.Len(); i++ {
			el := got.Index(i)
			var bits uint64
			switch el.Kind() {
			case reflect.Int8, reflect.Int16, reflect.Int32, reflect.Int64:
				bits = uint64(el.Int()) & (uint64(1)<<(8*uint(fitmodel.BaseSize(e.Base))) - 1)
			default:
				bits = el.Uint()
			}
			if bits != inv {
				return false
			}
		}
		return true
	}
	return fitmodel.Dump(got) == fitmodel.Dump(put)
}

func c06Compare(got, put reflect.Value) string {
	m := uint16(fit.VerifGlobalMesgNum(put.Type()))
	// component rule: the reference expansion applied to what was put in
	want := reflect.New(put.Type()).Elem()
	want.Set(put)
	// the wire always carries the profile length: a shorter compressed_speed_distance is
	// padded with invalid bytes and (not being all-invalid) is then expanded like any other
	if csd := want.FieldByName("CompressedSpeedDistance"); csd.IsValid() && !csd.IsNil() && csd.Len() < 3 {
		b := append([]byte{}, csd.Bytes()...)
		for len(b) < 3 {
			b = append(b, 0xFF)
		}
		padded := reflect.ValueOf(b)
		csd.Set(padded)
	}
	var a1, a2, a3, a4 c18Accs
	preds := c18Expand(want, &a1, &a2, &a3, &a4)
	ignore := map[string]bool{}
	for _, p := range preds {
		ignore[p.field] = true
	}
	if put.Type().Name() == "RecordMsg" && srcPresent(want, "CompressedSpeedDistance") {
		ignore["EnhancedSpeed"] = true
	}
	for _, e := range prof().byMesg[m] {
		name := put.Type().Field(e.Sindex).Name
		if ignore[name] {
			continue
		}
		if !eqField(got.Field(e.Sindex), want.Field(e.Sindex), e) {
			return fmt.Sprintf("field %s: put %s (expected after component rule %s), decoded %s", name, trunc(fitmodel.Dump(put.Field(e.Sindex)), 100), trunc(fitmodel.Dump(want.Field(e.Sindex)), 100), trunc(fitmodel.Dump(got.Field(e.Sindex)), 100))
		}
	}
	return ""
}

func c06Check(g genSpec) ([]byte, string, string) {
	f, msgs, err := g.build()
	if err != nil {
		return nil, "", "skip"
	}
	// "the values that were put in": a second, identical File that Encode never sees is the reference, so that an
	// Encode which writes into the File it is given cannot make the two sides agree
	fidPut := reflect.ValueOf(f.FileId)
	gref := g
	gref.AfterFailed = 0
	if f2, msgs2, err2 := gref.build(); err2 == nil && len(msgs2) == len(msgs) {
		fidPut, msgs = reflect.ValueOf(f2.FileId), msgs2
	}
	out, eerr, pn := safeEncode(f, g.Big)
	if pn != "" || eerr != nil {
		return out, fmt.Sprintf("Encode fails on an in-domain File: %v %s", eerr, pn), "encode"
	}
	res := safeDecode(bytes.NewReader(out))
	if res.Panic != "" || res.Err != nil {
		return out, fmt.Sprintf("Decode of Encode's output fails: %v %s", res.Err, res.Panic), "decode"
	}
	d := res.File
	if d.Type() != f.Type() {
		return out, fmt.Sprintf("file type %v decoded as %v", f.Type(), d.Type()), "type"
	}
	if msg := c06Compare(reflect.ValueOf(d.FileId), fidPut); msg != "" {
		return out, "file_id: " + msg, "value"
	}
	var got []reflect.Value
	switch g.Slot.Common {
	case "FileId":
		return out, "", ""
	case "FileCreator", "TimestampCorrelation":
		got = messagesOf(d, g.Slot.Mesg)
	default:
		c := container(d)
		if !c.IsValid() {
			return out, "decoded File has no container", "type"
		}
		// every member: counts (other members must stay empty)
		for _, s := range hosts()[g.Slot.FT] {
			fv := c.Elem().Field(s.Index)
			n := 0
			if s.IsSlice {
				n = fv.Len()
			} else if !fv.IsNil() {
				n = 1
			}
			want := 0
			if s.Index == g.Slot.Slot.Index {
				want = len(msgs)
			}
			if n != want {
				return out, fmt.Sprintf("member %s holds %d message(s) after the round trip, %d were put in", s.Name, n, want), "count"
			}
		}
		fv := c.Elem().Field(g.Slot.Slot.Index)
		if g.Slot.Slot.IsSlice {
			for i := 0; i < fv.Len(); i++ {
				got = append(got, fv.Index(i).Elem())
			}
		} else if !fv.IsNil() {
			got = append(got, fv.Elem())
		}
	}
	if len(got) != len(msgs) {
		return out, fmt.Sprintf("%d messages decoded, %d put in", len(got), len(msgs)), "count"
	}
	for i := range msgs {
		if !got[i].IsValid() {
			return out, fmt.Sprintf("message #%d of %d is a nil pointer in the decoded File", i, len(msgs)), "value"
		}
		if msg := c06Compare(got[i], msgs[i]); msg != "" {
			return out, fmt.Sprintf("message #%d: %s", i, msg), "value"
		}
	}
	return out, "", ""
}

func runC06(w *vx.W) {
	tzFamily(w, "C06")
	procsFamily(w, "C06", "encode")
	thorough := !w.Quick()
	var k int64
	handle := func(g genSpec, fam string) {
		k++
		if !w.Mine(k) {
			return
		}
		if k%4 == 0 {
			// the File's own output fields hold stale values, as after a Decode or an earlier Encode of another size
			g.Stale = true
			g.Desc += ", stale Header.CRC/DataSize/CRC"
		}
		if k%7 == 0 {
			// two Encode calls that fail right before: nothing of them may reach the next output
			g.AfterFailed = 1 + int(k/7)%3
			g.Desc += ", after two failed Encode calls"
			w.Fam("after-a-failed-encode", 1)
		}
		out, msg, class := c06Check(g)
		if class == "skip" {
			return
		}
		w.Eval(1)
		w.Fam(fam, 1)
		w.Distinct(vx.HashB(out))
		if msg != "" {
			w.Violation(class, fmt.Sprintf("%s file, %s%s (%v), %s, big=%v hdrcrc=%v: %s", fileTypeByByte(g.Slot.FT).Name, g.Slot.Common, g.Slot.Slot.Name, fit.MesgNum(g.Slot.Mesg), g.Desc, g.Big, g.HdrCRC, msg), c05Replay{g.json(), vx.Hex(out)})
		}
		if k == 777 {
			w.Sample(map[string]interface{}{"spec": g.json(), "encoded_hex": vx.Hex(out)})
		}
	}
	for _, gs := range genSlots() {
		for _, g := range genSpecs(gs, true) {
			handle(g, "family")
		}
		if thorough {
			for _, g := range pairSpecs(gs) {
				if w.Expired("field pairs") {
					break
				}
				handle(g, "field-pairs")
			}
		}
	}
	// long message slices with a field in one message only
	for _, g := range longSliceSpecs(thorough) {
		handle(g, "long-message-slices")
	}
	// valid strings that end in, start with or consist of U+FFFD (the replacement character is text like any other)
	for _, gs := range genSlots() {
		for _, e := range prof().byMesg[gs.Mesg] {
			if e.Base != fitmodel.String || e.Array {
				continue
			}
			for vi := 20; vi <= 22; vi++ {
				for c := 0; c < 2; c++ {
					handle(genSpec{Slot: gs, Msgs: [][]genFieldSet{{{e.Slot, vi}}}, HdrCRC: c == 0, Big: c == 1, Desc: fmt.Sprintf("field %d string with U+FFFD #%d", e.Num, vi)}, "strings-with-U+FFFD")
				}
			}
		}
	}
	// local timestamps together with a UTC timestamp in the same message, three zone offsets
	for _, gs := range genSlots() {
		var tsSlot, localSlot = -1, -1
		for _, e := range prof().byMesg[gs.Mesg] {
			if e.Kind == kindLocal && !e.Array {
				localSlot = e.Slot
			}
			if e.Kind == kindUTC && e.Num == 253 {
				tsSlot = e.Slot
			}
		}
		if localSlot < 0 || tsSlot < 0 {
			continue
		}
		for vi := 1; vi <= 3; vi++ {
			for c := 0; c < 4; c++ {
				handle(genSpec{Slot: gs, Msgs: [][]genFieldSet{{{tsSlot, 1}, {localSlot, vi}}}, HdrCRC: c&1 == 0, Big: c&2 != 0, Desc: fmt.Sprintf("timestamp + local timestamp value#%d", vi)}, "local-with-reference")
			}
		}
		// a real daylight-saving zone shared by several local timestamps of one File, on both sides of a transition
		if genDSTZone() != nil && gs.Slot.IsSlice {
			n := len(genDSTInstants)
			for a := 0; a < n; a++ {
				for b := 0; b < n; b++ {
					for c := 0; c < 2; c++ {
						handle(genSpec{Slot: gs, Msgs: [][]genFieldSet{{{localSlot, 200 + a}}, {{localSlot, 200 + b}}, {{tsSlot, 1}, {localSlot, 200 + (a+b)%n}}}, HdrCRC: c == 0, Big: c == 1, Desc: fmt.Sprintf("local timestamps in a daylight-saving zone, instants #%d #%d", a, b)}, "local-dst-zone")
					}
				}
			}
		} else if genDSTZone() == nil && w.Shard == 0 {
			w.Note("no zone database in this environment: the daylight-saving family of local timestamps is skipped")
		}
		// zone offsets that are not whole minutes or hours, in the same message and with the reference in an earlier message
		for i := range genLocalOffsets {
			for c := 0; c < 4; c++ {
				handle(genSpec{Slot: gs, Msgs: [][]genFieldSet{{{tsSlot, 1}, {localSlot, 100 + i}}}, HdrCRC: c&1 == 0, Big: c&2 != 0, Desc: fmt.Sprintf("timestamp + local timestamp %+d s away", genLocalOffsets[i])}, "local-with-reference")
				if gs.Slot.IsSlice {
					handle(genSpec{Slot: gs, Msgs: [][]genFieldSet{{{tsSlot, 1}}, {{localSlot, 100 + i}}, {{tsSlot, 1}, {localSlot, 100 + (i+5)%len(genLocalOffsets)}}}, HdrCRC: c&1 == 0, Big: c&2 != 0, Desc: fmt.Sprintf("timestamp; then local timestamp %+d s away; then both", genLocalOffsets[i])}, "local-with-reference")
				}
			}
		}
	}
	// Files with every member populated at once
	for _, t := range fileTypes {
		for variant := 0; variant < 4; variant++ {
			for c := 0; c < 4; c++ {
				k++
				if !w.Mine(k) {
					continue
				}
				f, exp := multiFile(byte(t.Type), variant, c&1 == 0)
				if f == nil {
					continue
				}
				out, eerr, pn := safeEncode(f, c&2 != 0)
				if eerr != nil || pn != "" {
					continue // C05's subject
				}
				res := safeDecode(bytes.NewReader(out))
				w.Eval(1)
				w.Fam("multi-member-files", 1)
				w.Distinct(vx.HashB(out))
				desc := fmt.Sprintf("%s file with every member populated (variant %d), big=%v hdrcrc=%v", t.Name, variant, c&2 != 0, c&1 == 0)
				rep := map[string]interface{}{"file_type": t.Type, "variant": variant, "encoded_hex": vx.Hex(out)}
				if res.Err != nil || res.Panic != "" {
					w.Violation("decode", fmt.Sprintf("%s: Decode of Encode's output fails: %v %s", desc, res.Err, res.Panic), rep)
					continue
				}
				for m, ms := range exp {
					got := messagesOf(res.File, m)
					if len(got) != len(ms) {
						w.Violation("count", fmt.Sprintf("%s: %v: %d messages decoded, %d put in", desc, fit.MesgNum(m), len(got), len(ms)), rep)
						break
					}
					bad := false
					for i := range ms {
						if msg := c06Compare(got[i], ms[i]); msg != "" {
							w.Violation("value", fmt.Sprintf("%s: %v #%d: %s", desc, fit.MesgNum(m), i, msg), rep)
							bad = true
							break
						}
					}
					if bad {
						break
					}
				}
			}
		}
	}
	if w.Shard == 0 {
		g := genSpecs(genSlots()[7], false)[4]
		out, _, _ := c06Check(g)
		w.Sample(map[string]interface{}{"spec": g.json(), "encoded_hex": vx.Hex(out)})
	}
}
