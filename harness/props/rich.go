package props

import (
	"reflect"

	"github.com/tormoder/fit"

	"verif/fitmodel"
)

// richRecord builds definition + data for message m with (nearly) every scalar field set to a small distinct value
// derived from seed (arrays get two elements), and the model's expectation. Strings are left out;
// the payload is capped at 250 bytes.
func richRecord(m uint16, local byte, seed int, big bool, ft byte) ([]byte, reflect.Value) {
	p := prof()
	want := newWant(m, ft)
	var fds []fitmodel.FieldDef
	var payload []byte
	o := binaryOrder(big)
	for k, e := range p.byMesg[m] {
		if e.Base == fitmodel.String || (m == 0 && e.Num == 0) {
			continue
		}
		bs := fitmodel.BaseSize(e.Base)
		if e.Array {
			// arrays: two elements (three bytes for byte arrays, so that compressed_speed_distance is complete)
			if e.Kind != kindNative || (m == 20 && e.Num == 8) {
				continue // compressed_speed_distance feeds the package-level accumulator (listed finding): kept out of these streams
			}
			n := 2
			if e.Base == fitmodel.Byte {
				n = 3
			}
			if len(payload)+n*bs > 250 {
				break
			}
			var b []byte
			for j := 0; j < n; j++ {
				b = append(b, fitmodel.PutUint(o, bs, uint64((seed*5+k+j)%100+3))...)
			}
			fd := fitmodel.FieldDef{Num: e.Num, Size: byte(len(b)), Base: e.Base}
			if modelSet(want, e, fd, big, b) {
				fds = append(fds, fd)
				payload = append(payload, b...)
			}
			continue
		}
		if len(payload)+bs > 250 {
			break
		}
		var v uint64
		switch e.Kind {
		case kindUTC, kindLocal:
			v = uint64(1000000000 + seed*100 + k)
		case kindLat, kindLng:
			v = uint64(1000 + seed*10 + k)
		default:
			v = uint64((seed*7+k)%120 + 2)
		}
		b := fitmodel.PutUint(o, bs, v)
		fd := fitmodel.FieldDef{Num: e.Num, Size: byte(bs), Base: e.Base}
		if e.Kind == kindLocal {
			continue // local time depends on the reference of the stream: left to C12
		}
		if !modelSet(want, e, fd, big, b) {
			continue
		}
		fds = append(fds, fd)
		payload = append(payload, b...)
	}
	d := fitmodel.Def{Local: local, Big: big, Global: m, Fields: fds}
	return fitmodel.Concat(d.Bytes(), fitmodel.Data(local, payload)), want
}

// richStream: a file of type ft in which every member receives `per` rich messages (round-robin over the members,
// then once more in reverse order). Returns the stream and the expected messages per member index.
func richStream(ft byte, seed int, per int) ([]byte, map[int][]reflect.Value) {
	slots := hosts()[ft]
	parts := fitmodel.FileIdRecords(0, ft)
	exp := map[int][]reflect.Value{}
	n := 0
	emit := func(sl slotInfo) {
		rec, want := richRecord(sl.Mesg, byte(1+n%15), seed+n, n%2 == 1, ft)
		n++
		parts = append(parts, rec)
		if sl.IsSlice {
			exp[sl.Index] = append(exp[sl.Index], want)
		} else {
			exp[sl.Index] = []reflect.Value{want}
		}
	}
	for r := 0; r < per; r++ {
		for _, sl := range slots {
			emit(sl)
		}
	}
	for i := len(slots) - 1; i >= 0; i-- {
		emit(slots[i])
	}
	return fitmodel.File(fitmodel.DefaultHeader, parts...), exp
}

// richCompare checks a decoded file against richStream's expectation.
func richCompare(f *fit.File, ft byte, exp map[int][]reflect.Value) string {
	c := container(f)
	if !c.IsValid() {
		return "no container"
	}
	for _, sl := range hosts()[ft] {
		fv := c.Elem().Field(sl.Index)
		var got []reflect.Value
		if sl.IsSlice {
			for i := 0; i < fv.Len(); i++ {
				got = append(got, fv.Index(i).Elem())
			}
		} else if !fv.IsNil() {
			got = append(got, fv.Elem())
		}
		want := exp[sl.Index]
		if len(got) != len(want) {
			return "member " + sl.Name + ": " + itoa(len(got)) + " messages, " + itoa(len(want)) + " expected"
		}
		for i := range got {
			if d := diffMsg(got[i], want[i], compIgnore(got[i])); d != "" {
				return "member " + sl.Name + "[" + itoa(i) + "]: " + d
			}
		}
	}
	return ""
}

func itoa(i int) string {
	if i == 0 {
		return "0"
	}
	neg := i < 0
	if neg {
		i = -i
	}
	var b []byte
	for i > 0 {
		b = append([]byte{byte('0' + i%10)}, b...)
		i /= 10
	}
	if neg {
		b = append([]byte{'-'}, b...)
	}
	return string(b)
}
