//go:build vinstr

package props

import (
	"github.com/tormoder/fit"
	"github.com/tormoder/fit/dyncrc16"
)

// Built with the vinstr overlay: package fit / dyncrc16 call verifPoint(id) before every statement that touches a
// mutable package-level variable.
const c09Instrumented = true

func c09InstallPointHook(f func(id int)) {
	fit.VerifPoint = f
	dyncrc16.VerifPoint = f
}
