package props

import (
	"bytes"
	"os"
	"testing"
)

func TestRefDecodeAgreesOnKnownStreams(t *testing.T) {
	type item struct {
		name string
		b    []byte
	}
	var items []item
	for _, s := range []namedStream{sMin12, sMin14, sMin14z, sAct3, sAct3BE, sSet, sBig, s4096, s8192, sDev, sMonState, sZero} {
		items = append(items, item{s.Name, s.B})
	}
	for _, fti := range fileTypes {
		ft := byte(fti.Type)
		b, _ := richStream(ft, 3, 1)
		items = append(items, item{"rich", b})
	}
	for _, p := range corpusFiles() {
		b, err := os.ReadFile(p)
		if err == nil {
			items = append(items, item{p, b})
		}
	}
	agree, skipped, rejected := 0, 0, 0
	for _, it := range items {
		rf, err := refDecode(it.b)
		if err != nil {
			skipped++
			t.Logf("skip %s: %v", it.name, err)
			continue
		}
		res := safeDecode(bytes.NewReader(it.b))
		if res.Panic != "" {
			t.Errorf("%s: panic %s", it.name, res.Panic)
			continue
		}
		if res.Err != nil {
			rejected++
			t.Logf("%s: decode error %v (mayReject=%v expectError=%v)", it.name, res.Err, rf.mayReject, rf.expectError)
			continue
		}
		if d := refCompare(res.File, rf); d != "" {
			t.Errorf("%s: %s", it.name, d)
			continue
		}
		agree++
	}
	t.Logf("agree=%d skipped=%d rejected=%d of %d", agree, skipped, rejected, len(items))
}

func TestMixWords(t *testing.T) {
	alpha := mixAlphabet()
	n, bad := 0, 0
	seqWords(len(alpha), 3, func(int64) bool { return true }, func(word []int) bool {
		var ops []mixOp
		for _, a := range word {
			ops = append(ops, alpha[a])
		}
		for probe := 0; probe < 2; probe++ {
			stream, full, ok := mixStream(ops, probe == 1)
			if !ok {
				continue
			}
			n++
			if msg := mixCheck(stream); msg != "" {
				bad++
				if bad < 15 {
					t.Errorf("[%s]: %s", mixWordString(full), msg)
				}
			}
		}
		return true
	})
	t.Logf("streams=%d bad=%d", n, bad)
}
