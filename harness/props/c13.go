package props

import (
	"bytes"
	"encoding/json"
	"fmt"
	"reflect"
	"strings"

	"github.com/tormoder/fit"

	"verif/fitmodel"
	"verif/vx"
)

// C13: local message types — the latest definition wins and slots are independent.

// seqWords enumerates all words over {0..alpha-1} of length 1..maxLen,
// shortest first, calling fn for the words whose index is mine.
func seqWords(alpha, maxLen int, mine func(i int64) bool, fn func(word []int) bool) {
	var idx int64
	for n := 1; n <= maxLen; n++ {
		word := make([]int, n)
		for {
			idx++
			if mine(idx) {
				if !fn(word) {
					return
				}
			}
			// increment
			i := n - 1
			for i >= 0 {
				word[i]++
				if word[i] < alpha {
					break
				}
				word[i] = 0
				i--
			}
			if i < 0 {
				break
			}
		}
	}
}

type c13Op struct {
	Kind    int // 0 define, 1 data, 2 compressed data
	Local   byte
	Variant int // for define
}

func (o c13Op) String() string {
	switch o.Kind {
	case 0:
		return fmt.Sprintf("def(l%d,%c)", o.Local, "ABCDEFG"[o.Variant])
	case 1:
		return fmt.Sprintf("data(l%d)", o.Local)
	}
	return fmt.Sprintf("cdata(l%d)", o.Local)
}

// variants: A record little-endian, B record big-endian (other fields/sizes/order), C device_info, D unknown message,
// E = the file_id definition (prefix only), F record with an empty field list
func c13Def(v int, local byte) fitmodel.Def {
	switch v {
	case 0:
		return fitmodel.Def{Local: local, Global: 20, Fields: []fitmodel.FieldDef{{Num: 3, Size: 1, Base: fitmodel.Uint8}, {Num: 7, Size: 2, Base: fitmodel.Uint16}, {Num: 0, Size: 4, Base: fitmodel.Sint32}, {Num: 9, Size: 2, Base: fitmodel.Sint16}}}
	case 1:
		return fitmodel.Def{Local: local, Big: true, Global: 20, Fields: []fitmodel.FieldDef{{Num: 7, Size: 2, Base: fitmodel.Uint16}, {Num: 5, Size: 4, Base: fitmodel.Uint32}, {Num: 1, Size: 4, Base: fitmodel.Sint32}, {Num: 4, Size: 1, Base: fitmodel.Uint8}, {Num: 0, Size: 4, Base: fitmodel.Sint32}, {Num: 3, Size: 1, Base: fitmodel.Uint8}}}
	case 2:
		return fitmodel.Def{Local: local, Global: 23, Fields: []fitmodel.FieldDef{{Num: 3, Size: 4, Base: fitmodel.Uint32z}, {Num: 2, Size: 2, Base: fitmodel.Uint16}}}
	case 4: // file_id definition (prefix only)
		return fitmodel.FileIdDef(local, false)
	case 5: // record with an empty field list (a data record then is just its header)
		return fitmodel.Def{Local: local, Global: 20}
	case 6: // exactly the field list of variant A, but big-endian
		d := c13Def(0, local)
		d.Big = true
		return d
	}
	return fitmodel.Def{Local: local, Global: 0x0114, Fields: []fitmodel.FieldDef{{Num: 3, Size: 3, Base: fitmodel.Byte}, {Num: 7, Size: 2, Base: fitmodel.Uint16}}} // 0x0114: an unknown number whose low byte is record (20), with record's field numbers
}

// c13Payload: distinct bytes derived from the op position so that identity and order are visible.
func c13Payload(d fitmodel.Def, pos int) []byte {
	n := d.DataLen()
	p := make([]byte, n)
	for i := range p {
		p[i] = byte(1 + (pos*7+i*3)%60) // small bytes: any 4 of them form a valid latitude in either byte order
	}
	if d.Global == 0 && n >= 1 {
		p[0] = 4 // a further file_id keeps type activity
	}
	return p
}

type c13Model struct {
	slots [16]int // -1 undefined, else variant
	out   map[uint16][]reflect.Value
	fail  bool
}

func c13Expected(d fitmodel.Def, payload []byte) (uint16, reflect.Value, bool) {
	p := prof()
	if !p.isKnown[d.Global] {
		return d.Global, reflect.Value{}, false
	}
	want := newWant(d.Global, 4)
	off := 0
	for _, fd := range d.Fields {
		e, ok := p.fields[d.Global][fd.Num]
		if ok {
			if !modelSet(want, e, fd, d.Big, payload[off:off+int(fd.Size)]) {
				panic("c13: definition outside the compat set")
			}
		}
		off += int(fd.Size)
	}
	return d.Global, want, true
}

// c13Run builds the stream for (prefix variant, ops), runs the model, decodes and compares.
func c13Run(prefix int, ops []c13Op) (stream []byte, msg string) {
	var m c13Model
	for i := range m.slots {
		m.slots[i] = -1
	}
	m.out = map[uint16][]reflect.Value{}
	var recs [][]byte
	// prefix: where and how the file_id record is written
	fl := byte(0)
	if prefix == 1 || prefix == 3 {
		fl = 2
	}
	recs = append(recs, fitmodel.FileIdDef(fl, false).Bytes())
	if prefix >= 2 {
		recs = append(recs, fitmodel.Compressed(fl, byte(5*prefix), []byte{4})) // compressed-timestamp header on the file_id record
	} else {
		recs = append(recs, fitmodel.Data(fl, []byte{4}))
	}
	m.slots[fl] = 4
	completed := 0
	for i, o := range ops {
		switch o.Kind {
		case 0:
			d := c13Def(o.Variant, o.Local)
			recs = append(recs, d.Bytes())
			if !m.fail {
				m.slots[o.Local] = o.Variant
			}
		default:
			v := m.slots[o.Local]
			if v < 0 {
				// undefined slot: record header only (the model expects an error right here)
				if o.Kind == 1 {
					recs = append(recs, []byte{o.Local})
				} else {
					recs = append(recs, []byte{0x80 | o.Local<<5})
				}
				m.fail = true
				continue
			}
			d := c13Def(v, o.Local)
			pl := c13Payload(d, i)
			if o.Kind == 1 {
				recs = append(recs, fitmodel.Data(o.Local, pl))
			} else {
				off := byte(9) // even positions: a constant offset, so that identical header bytes recur across a redefinition
				if i%2 == 1 {
					off = byte(i * 3)
				}
				recs = append(recs, fitmodel.Compressed(o.Local, off, pl))
			}
			if !m.fail {
				if g, want, ok := c13Expected(d, pl); ok {
					if g == 0 {
						// a later file_id record replaces File.FileId (same type)
						m.out[0] = []reflect.Value{want}
					} else {
						m.out[g] = append(m.out[g], want)
					}
				}
				completed++
			}
		}
	}
	stream = fitmodel.File(fitmodel.DefaultHeader, recs...)
	res := safeDecode(bytes.NewReader(stream))
	if res.Panic != "" {
		return stream, "Decode panics: " + res.Panic
	}
	if m.fail {
		if res.Err == nil {
			return stream, "data record for an undefined local type was accepted"
		}
		if !strings.Contains(res.Err.Error(), "missing data definition") {
			// any error is acceptable for the property; keep the class for the evidence only
		}
	} else if res.Err != nil {
		return stream, "Decode fails on a well-formed stream: " + res.Err.Error()
	}
	if res.File == nil {
		return stream, "no File returned"
	}
	for _, g := range []uint16{20, 23} {
		got := messagesOf(res.File, g)
		want := m.out[g]
		if len(got) != len(want) {
			return stream, fmt.Sprintf("%v: %d messages decoded, model expects %d", fit.MesgNum(g), len(got), len(want))
		}
		for i := range got {
			if d := diffMsg(got[i], want[i], compIgnore(got[i])); d != "" {
				return stream, fmt.Sprintf("%v #%d: %s", fit.MesgNum(g), i, d)
			}
		}
	}
	if w0, ok := m.out[0]; ok {
		if d := diffMsg(reflect.ValueOf(res.File.FileId), w0[0], nil); d != "" {
			return stream, "file_id: " + d
		}
	}
	return stream, ""
}

type c13Replay struct {
	Prefix int     `json:"prefix_variant"`
	Ops    []c13Op `json:"ops"`
	Word   string  `json:"word"`
	Hex    string  `json:"stream_hex"`
}

func c13Alphabet(locals []byte) []c13Op {
	var a []c13Op
	for _, l := range locals {
		a = append(a, c13Op{Kind: 1, Local: l})
	}
	for _, l := range locals {
		if l <= 3 {
			a = append(a, c13Op{Kind: 2, Local: l})
		}
	}
	for _, l := range locals {
		for _, v := range []int{0, 1, 2, 3, 5, 6} {
			a = append(a, c13Op{Kind: 0, Local: l, Variant: v})
		}
	}
	return a
}

func wordString(ops []c13Op) string {
	s := make([]string, len(ops))
	for i, o := range ops {
		s[i] = o.String()
	}
	return strings.Join(s, " ")
}

func init() {
	vx.Register(&vx.Prop{
		ID:    "C13",
		Level: "model_checking",
		Rule: "slot machine model (16 local types, each undefined or holding one of 6 definition variants: record little-endian, the same field list big-endian, record big-endian with other fields/sizes/order, device_info, an unknown message, record with an empty field list) explored two ways on the real decoder: (1) all words of length <=4 (quick) / <=5 (thorough) over {data(l), compressed data(l<=3), define(l,v)} for locals {0,1,3,4,15}, x 4 ways of writing the file_id record (local 0 / local 2, normal / compressed header); (2) breadth-first search over all reachable model slot states with a shortest witness each, every one-step extension followed by a probe of every defined slot (and one undefined slot), replayed on a fresh decoder; plus all 16 locals x variants at depth 2, plus long runs (one slot stays defined while other slots are redefined 20-3000 times with 2-255 fields), plus jumbo records (255 ... 130 050 bytes of regular and developer fields, unknown and known message) on a neighbouring slot between records of a live one. " +
			"Oracle: each data record decodes under the latest definition of its slot (values via the C02 model), other slots unaffected, undefined slot => error with the earlier records kept. states/transitions = model states and extensions; traces = streams decoded",
		Assumptions: []string{"streams carry no timestamp fields, so compressed headers do not alter content (timestamps are C12's subject)"},
		Run:         runC13,
		Replay: func(raw json.RawMessage) (string, error) {
			if s, ok, err := mixReplay(raw); ok {
				return s, err
			}
			if s, ok, err := mixChainReplay(raw); ok {
				return s, err
			}
			var r c13Replay
			json.Unmarshal(raw, &r)
			_, msg := c13Run(r.Prefix, r.Ops)
			if msg != "" {
				return "", fmt.Errorf("%s: %s", r.Word, msg)
			}
			return r.Word + ": ok", nil
		},
	})
}

func runC13(w *vx.W) {
	mixLen := 3
	if !w.Quick() {
		mixLen = 4
	}
	mixFamily(w, mixLen)
	mixLongRuns(w, []int{2, 3, 4, 5, 6})
	c10MixChains(w) // the same words as members of a chain: nothing may cross a file boundary
	locals := []byte{0, 1, 3, 4, 15}
	alpha := c13Alphabet(locals)
	maxLen := 4
	if !w.Quick() {
		maxLen = 5
	}
	report := func(prefix int, ops []c13Op, stream []byte, msg string) {
		cp := append([]c13Op{}, ops...)
		key := "slots"
		if prefix >= 2 {
			// classify the file_id-with-compressed-header defect separately
			if _, m0 := c13Run(prefix-2, ops); m0 == "" {
				key = "file_id-compressed-header"
			}
		}
		w.Violation(key, fmt.Sprintf("prefix variant %d, word [%s]: %s", prefix, wordString(cp), msg), c13Replay{prefix, cp, wordString(cp), vx.Hex(stream)})
	}
	// (1) all words
	ops := make([]c13Op, 0, 8)
	seqWords(len(alpha), maxLen, w.Mine, func(word []int) bool {
		if len(word) >= 4 && w.Expired("words") {
			return false
		}
		ops = ops[:0]
		for _, a := range word {
			ops = append(ops, alpha[a])
		}
		prefixes := 1
		if len(word) <= 3 {
			prefixes = 4
		}
		for p := 0; p < prefixes; p++ {
			stream, msg := c13Run(p, ops)
			w.Eval(1)
			w.Trace(1)
			w.Fam(fmt.Sprintf("words-len%d", len(word)), 1)
			w.Distinct(vx.HashB(stream))
			if msg != "" {
				report(p, ops, stream, msg)
			}
		}
		return true
	})
	// (2) BFS over model slot states (locals {0,1,3,4,15}; values -1..3, local 0 starts with the file_id definition = 4)
	type state [5]int
	start := state{4, -1, -1, -1, -1}
	seen := map[state][]c13Op{start: nil}
	queue := []state{start}
	var defs []c13Op
	for _, o := range alpha {
		if o.Kind == 0 {
			defs = append(defs, o)
		}
	}
	li := map[byte]int{0: 0, 1: 1, 3: 2, 4: 3, 15: 4}
	for len(queue) > 0 {
		s := queue[0]
		queue = queue[1:]
		for _, o := range defs {
			n := s
			n[li[o.Local]] = o.Variant
			if _, ok := seen[n]; !ok {
				seen[n] = append(append([]c13Op{}, seen[s]...), o)
				queue = append(queue, n)
			}
		}
	}
	var sidx int64
	// deterministic order of states
	keys := make([]state, 0, len(seen))
	for s := range seen {
		keys = append(keys, s)
	}
	sortStates := func(a, b state) bool {
		for i := range a {
			if a[i] != b[i] {
				return a[i] < b[i]
			}
		}
		return false
	}
	for i := 1; i < len(keys); i++ {
		for j := i; j > 0 && sortStates(keys[j], keys[j-1]); j-- {
			keys[j], keys[j-1] = keys[j-1], keys[j]
		}
	}
	for _, s := range keys {
		sidx++
		if !w.Mine(sidx) {
			continue
		}
		w.State(vx.Hash(fmt.Sprint(s)))
		wit := seen[s]
		for _, o := range alpha {
			// extension + probe of every defined slot, then one undefined slot if any
			n := s
			word := append(append([]c13Op{}, wit...), o)
			if o.Kind == 0 {
				n[li[o.Local]] = o.Variant
			}
			if o.Kind != 0 && s[li[o.Local]] < 0 {
				// extension itself hits an undefined slot: no probes after the error
			} else {
				undefined := -1
				for k, l := range locals {
					if n[k] >= 0 {
						word = append(word, c13Op{Kind: 1, Local: l})
						if l <= 3 {
							word = append(word, c13Op{Kind: 2, Local: l})
						}
					} else if undefined < 0 {
						undefined = int(l)
					}
				}
				if undefined >= 0 {
					word = append(word, c13Op{Kind: 1, Local: byte(undefined)})
				}
			}
			stream, msg := c13Run(0, word)
			w.Eval(1)
			w.Trace(1)
			w.Transition(1)
			w.Fam("bfs-extensions", 1)
			w.Distinct(vx.HashB(stream))
			if msg != "" {
				report(0, word, stream, msg)
			}
		}
	}
	// (3) all 16 locals at depth 2: define(l,v) data(l') for all l,l'
	var k int64
	for l := 0; l < 16; l++ {
		for _, v := range []int{0, 1, 2, 3, 5, 6} {
			for l2 := 0; l2 < 16; l2++ {
				for kind := 1; kind <= 2; kind++ {
					if kind == 2 && l2 > 3 {
						continue
					}
					k++
					if !w.Mine(k) {
						continue
					}
					word := []c13Op{{Kind: 0, Local: byte(l), Variant: v}, {Kind: kind, Local: byte(l2)}, {Kind: 0, Local: byte(l2), Variant: []int{1, 2, 3, 5, 5, 6, 0}[v]}, {Kind: kind, Local: byte(l2)}, {Kind: 1, Local: byte(l)}}
					stream, msg := c13Run(0, word)
					w.Eval(1)
					w.Trace(1)
					w.Fam("all-16-locals", 1)
					w.Distinct(vx.HashB(stream))
					if msg != "" {
						report(0, word, stream, msg)
					}
				}
			}
		}
	}
	// (5) chained files: definitions do not carry over from one member to the next
	for l := 0; l < 16; l++ {
		if !w.Mine(int64(l)) {
			continue
		}
		for kind := 1; kind <= 2; kind++ {
			if kind == 2 && l > 3 {
				continue
			}
			d := c13Def(0, byte(l))
			first := fitmodel.File(fitmodel.DefaultHeader, fitmodel.FileIdDef(5, false).Bytes(), fitmodel.Data(5, []byte{4}), d.Bytes(), fitmodel.Data(byte(l), c13Payload(d, 1)))
			if l == 5 {
				first = fitmodel.File(fitmodel.DefaultHeader, fitmodel.FileIdDef(6, false).Bytes(), fitmodel.Data(6, []byte{4}), d.Bytes(), fitmodel.Data(5, c13Payload(d, 1)))
			}
			hdr := []byte{byte(l)}
			if kind == 2 {
				hdr = []byte{0x80 | byte(l)<<5}
			}
			fl := byte(7)
			if l == 7 {
				fl = 8
			}
			second := fitmodel.File(hdr12(), fitmodel.FileIdDef(fl, false).Bytes(), fitmodel.Data(fl, []byte{4}), append(hdr, c13Payload(d, 2)...))
			res := safeDecodeChained(bytes.NewReader(fitmodel.Concat(first, second)))
			w.Eval(1)
			w.Trace(1)
			w.Fam("chained-slot-isolation", 1)
			desc := fmt.Sprintf("chain: member 1 defines local type %d, member 2 sends a data record (kind %d) for it without defining it", l, kind)
			rep := c13Replay{Word: desc, Hex: vx.Hex(fitmodel.Concat(first, second))}
			if res.Panic != "" {
				w.Violation("chained-slots", desc+": panic "+res.Panic, rep)
			} else if res.Err == nil {
				w.Violation("chained-slots", desc+": DecodeChained accepts it (the definition leaked from the first member)", rep)
			} else if len(res.Files) == 2 && len(messagesOf(res.Files[1], 20)) != 0 {
				w.Violation("chained-slots", desc+": the second member holds a record decoded with the first member's definition", rep)
			}
		}
	}
	// (4) long runs: one slot stays defined while other slots are redefined many times with large and small
	// definitions (storage reused across definitions must not disturb a live slot)
	for ci, cfg := range [][2]int{{20, 255}, {40, 255}, {600, 10}, {3000, 2}, {70, 60}} {
		if !w.Mine(int64(ci)) {
			continue
		}
		for _, live := range []byte{9, 0, 3} {
			n, nf := cfg[0], cfg[1]
			recs := [][]byte{fitmodel.FileIdDef(5, false).Bytes(), fitmodel.Data(5, []byte{4})}
			dLive := c13Def(0, live)
			pl := c13Payload(dLive, 3)
			recs = append(recs, dLive.Bytes(), fitmodel.Data(live, pl))
			_, want, _ := c13Expected(dLive, pl)
			for i := 0; i < n; i++ {
				other := byte(1 + i%15)
				if other == live || other == 5 {
					other = 14
				}
				fs := make([]fitmodel.FieldDef, nf)
				for j := range fs {
					fs[j] = fitmodel.FieldDef{Num: byte(j), Size: 1, Base: fitmodel.Uint8}
				}
				d := fitmodel.Def{Local: other, Global: 0xFF00 + uint16(i%7), Fields: fs}
				recs = append(recs, d.Bytes())
				if i%5 == 0 {
					recs = append(recs, fitmodel.Data(other, make([]byte, nf)))
				}
			}
			recs = append(recs, fitmodel.Data(live, pl))
			stream := fitmodel.File(fitmodel.DefaultHeader, recs...)
			res := safeDecode(bytes.NewReader(stream))
			w.Eval(1)
			w.Trace(1)
			w.Fam("long-redefinition-runs", 1)
			desc := fmt.Sprintf("slot %d (record, variant A) defined once, then %d redefinitions of other slots with %d fields each, then data on slot %d", live, n, nf, live)
			rep := c13Replay{Word: desc, Hex: trunc(vx.Hex(stream), 2000)}
			if res.Err != nil || res.Panic != "" {
				w.Violation("long-runs", fmt.Sprintf("%s: %v %s", desc, res.Err, res.Panic), rep)
				continue
			}
			got := messagesOf(res.File, 20)
			if len(got) != 2 {
				w.Violation("long-runs", fmt.Sprintf("%s: %d record messages, expected 2", desc, len(got)), rep)
				continue
			}
			for i := range got {
				if d := diffMsg(got[i], want, compIgnore(got[i])); d != "" {
					w.Violation("long-runs", fmt.Sprintf("%s: record #%d: %s", desc, i, d), rep)
					break
				}
			}
		}
	}
	// (6) jumbo records on a neighbouring slot: an unknown (and a known) message whose records are 255, 256, 65 025,
	// 65 535, 65 536, 65 790 and 130 050 bytes long (regular + developer bytes), between two records of a live slot
	for ji, j := range []struct{ nreg, rsz, ndev, dsz int }{{1, 255, 0, 0}, {1, 255, 1, 1}, {255, 255, 0, 0}, {255, 255, 2, 255}, {255, 255, 3, 170}, {255, 255, 2, 255}, {255, 255, 3, 255}, {255, 255, 255, 255}, {128, 2, 0, 0}, {0, 0, 255, 255}} {
		for gi, g := range []uint16{0xFF00, 20} {
			if !w.Mine(int64(ji*2 + gi)) {
				continue
			}
			dLive := c13Def(0, 1)
			pl := c13Payload(dLive, 3)
			_, want, _ := c13Expected(dLive, pl)
			d := fitmodel.Def{Local: 2, Global: g, DevFlag: j.ndev > 0}
			for i := 0; i < j.nreg; i++ {
				d.Fields = append(d.Fields, fitmodel.FieldDef{Num: byte(i), Size: byte(j.rsz), Base: fitmodel.Byte})
			}
			if g == 20 {
				// known message: unlisted field numbers only (byte arrays of any size are admitted for those)
				for i := range d.Fields {
					d.Fields[i].Num = byte(150 + i%100)
				}
				if len(d.Fields) > 100 {
					d.Fields = d.Fields[:100]
				}
			}
			for i := 0; i < j.ndev; i++ {
				d.Dev = append(d.Dev, fitmodel.DevDef{Num: byte(i), Size: byte(j.dsz), Idx: 0})
			}
			body := make([]byte, d.DataLen())
			for i := range body {
				body[i] = 0x41 // 'A': as a record header this is a definition for local 1 - a desynchronised reader redefines the live slot
			}
			recs := [][]byte{fitmodel.FileIdDef(5, false).Bytes(), fitmodel.Data(5, []byte{4}), dLive.Bytes(), fitmodel.Data(1, pl), d.Bytes(), fitmodel.Data(2, body), fitmodel.Data(1, pl), fitmodel.Data(2, body), fitmodel.Data(1, pl)}
			stream := fitmodel.File(fitmodel.DefaultHeader, recs...)
			res := safeDecode(bytes.NewReader(stream))
			w.Eval(1)
			w.Trace(1)
			w.Fam("jumbo-records-on-a-neighbouring-slot", 1)
			desc := fmt.Sprintf("records of %d bytes (message %#x: %d fields of %d bytes + %d developer fields of %d bytes) on slot 2 between records of slot 1", d.DataLen(), g, len(d.Fields), j.rsz, j.ndev, j.dsz)
			rep := c13Replay{Word: desc, Hex: trunc(vx.Hex(stream), 2000)}
			if res.Err != nil || res.Panic != "" {
				w.Violation("jumbo", fmt.Sprintf("%s: %v %s", desc, res.Err, res.Panic), rep)
				continue
			}
			got := messagesOf(res.File, 20)
			wantN := 3
			if g == 20 {
				wantN = 5
			}
			if len(got) != wantN {
				w.Violation("jumbo", fmt.Sprintf("%s: %d record messages decoded, %d written", desc, len(got), wantN), rep)
				continue
			}
			for _, i := range []int{0, wantN / 2, wantN - 1} {
				if dd := diffMsg(got[i], want, compIgnore(got[i])); dd != "" {
					w.Violation("jumbo", fmt.Sprintf("%s: record #%d of slot 1: %s", desc, i, dd), rep)
					break
				}
			}
		}
	}
	if w.Shard == 0 {
		ex := []c13Op{{0, 1, 0}, {1, 1, 0}, {0, 1, 1}, {1, 1, 0}}
		s, _ := c13Run(0, ex)
		w.Sample(map[string]interface{}{"word": wordString(ex), "stream_hex": vx.Hex(s)})
		w.Extra("model_slot_states_total", len(seen))
	}
}
