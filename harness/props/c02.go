package props

import (
	"bytes"
	"encoding/binary"
	"encoding/hex"
	"encoding/json"
	"fmt"
	"os"
	"reflect"

	"github.com/tormoder/fit"

	"verif/fitmodel"
	"verif/vx"
)

// C02: decoded field values equal the values carried on the wire.

type c02Replay struct {
	Hex     string `json:"stream_hex"`
	Mesg    uint16 `json:"mesg"`
	Field   byte   `json:"field"`
	Context string `json:"context"`
	Def     string `json:"def"`
}

func init() {
	vx.Register(&vx.Prop{
		ID:    "C02",
		Level: "exploration",
		Rule: "every (message, field) entry of every message observable through a file container x every definition in the compat set (own type; narrower same-signedness integer types; string sizes 1,2,len,255 with/without terminator; arrays of 1,2,3 and profile-length elements; times as 4/2/1-byte unsigned; coordinates as sint32) x both byte orders x boundary payload alphabet x contexts (alone; between two other fields; next to an unknown field; next to developer fields; after a zero-field developer definition; surrounded by unknown-message and other-message records on other local types; all ordered field pairs for record, every message in thorough). " +
			"Plus a metamorphic family: every data record of every corpus file that decodes (and of the shared streams) is decoded again alone (file_id + its own definition + the record) and must give the same message as inside the file, except for fields that legitimately depend on earlier records. Oracle: Decode succeeds, probe field = model denotation, all other fields invalid (component destinations excluded, they belong to C18), neighbouring messages unchanged. distinct = distinct (entry, definition, order, payload, context) cases whose decoded probe value was compared",
		Assumptions: []string{"compat set is narrower than what validateFieldDef admits; no verdict from rejections outside it", "narrow-type invalid sentinels and +90 degrees latitude are excluded from value demands", "messages no file container holds are not observable through the public API and are not covered"},
		Run:         runC02,
		Sub:         func(args []string) { tzSub(args) },
		Replay: func(raw json.RawMessage) (string, error) {
			if s, ok, err := mixReplay(raw); ok {
				return s, err
			}
			if s, ok, err := mixChainReplay(raw); ok {
				return s, err
			}
			var r c02Replay
			json.Unmarshal(raw, &r)
			res := safeDecode(bytes.NewReader(vx.UnHex(r.Hex)))
			out := fmt.Sprintf("err=%v panic=%q\n%s", res.Err, res.Panic, dumpFileContent(res.File))
			return out, nil
		},
		Post: func(m *vx.Merged) error {
			if m.Fam["entries-covered"] < 300 {
				return fmt.Errorf("only %d entries covered", m.Fam["entries-covered"])
			}
			return nil
		},
	})
}

// c02Defs lists the compat definitions for entry e.
func c02Defs(e fit.VerifField) []fitmodel.FieldDef {
	var out []fitmodel.FieldDef
	add := func(base byte, size int) {
		if size < 0 || size > 255 {
			return
		}
		fd := fitmodel.FieldDef{Num: e.Num, Size: byte(size), Base: base}
		if compat(e, fd) {
			for _, o := range out {
				if o == fd {
					return
				}
			}
			out = append(out, fd)
		}
	}
	bs := fitmodel.BaseSize(e.Base)
	switch {
	case e.Kind == kindUTC || e.Kind == kindLocal:
		add(fitmodel.Uint32, 4)
		add(fitmodel.Uint16, 2)
		add(fitmodel.Uint8, 1)
	case e.Kind == kindLat || e.Kind == kindLng:
		add(fitmodel.Sint32, 4)
		add(fitmodel.Sint16, 2)
		add(fitmodel.Sint8, 1)
	case e.Base == fitmodel.String:
		for _, s := range []int{1, 2, int(e.Length), 7, 255} {
			add(fitmodel.String, s)
		}
	case e.Array:
		for _, k := range []int{1, 2, 3, int(e.Length)} {
			add(e.Base, k*bs)
		}
	default:
		for _, b := range fitmodel.KnownBases {
			if isIntLike(b) {
				add(b, fitmodel.BaseSize(b))
			}
		}
		add(e.Base, bs)
	}
	return out
}

// c02Payloads: boundary alphabet for a definition.
func c02Payloads(e fit.VerifField, fd fitmodel.FieldDef, big bool) [][]byte {
	size := int(fd.Size)
	bs := fitmodel.BaseSize(fd.Base)
	var out [][]byte
	fill := func(f func(i int) byte) {
		p := make([]byte, size)
		for i := range p {
			p[i] = f(i)
		}
		out = append(out, p)
	}
	if fd.Base == fitmodel.String {
		fill(func(i int) byte { return byte('a' + i%26) })                                             // no terminator
		fill(func(i int) byte { return map[bool]byte{true: 0, false: byte('A' + i%26)}[i == size-1] }) // terminated at end
		fill(func(i int) byte { return map[bool]byte{true: 0, false: byte('k' + i%9)}[i >= size/2] })  // terminated in the middle, NUL padded
		fill(func(i int) byte { return 0 })                                                            // empty
		if e.Array {
			fill(func(i int) byte { return map[bool]byte{true: 0, false: byte('p' + i%5)}[i%3 == 2] }) // several strings
		}
		if size >= 6 && !e.Array {
			// multi-byte runes, and a correctly encoded U+FFFD at the very end of the text
			mb := make([]byte, size)
			copy(mb, "é\uFFFD")
			out = append(out, mb)
			mb2 := make([]byte, size)
			copy(mb2, "x\uFFFD")
			out = append(out, mb2)
		}
		return out
	}
	elem := func(v uint64) {
		// same element value in every element, offset by the element index so mix-ups show
		p := make([]byte, 0, size)
		for i := 0; i < size/bs; i++ {
			o := binaryOrder(big)
			p = append(p, fitmodel.PutUint(o, bs, v+uint64(i))...)
		}
		out = append(out, p)
	}
	max := uint64(1)<<(8*uint(bs)) - 1
	if bs == 8 {
		max = ^uint64(0)
	}
	vals := []uint64{0, 1, max >> 1, (max >> 1) + 1, max - 1, fitmodel.BaseInvalidBits(fd.Base), 0xA5A5A5A5A5A5A5A5 & max}
	for _, v := range vals {
		elem(v)
	}
	fill(func(i int) byte { return byte(i + 1) }) // 01 02 03 04 ...
	fill(func(i int) byte { return byte(0xF1 + i) })
	if (e.Kind == kindLat || e.Kind == kindLng) && bs == 2 {
		// narrow coordinates: the byte patterns whose two bytes differ in their top bit
		for _, v := range []uint64{0x0080, 0x8000, 0x00FF, 0xFF00, 0x807F, 0x7F80} {
			out = append(out, fitmodel.PutUint(binaryOrder(big), 2, v))
		}
	}
	if (e.Kind == kindLat || e.Kind == kindLng) && bs == 4 {
		for _, s := range []int64{1 << 30, -(1 << 30), 1<<30 - 1, -(1 << 30) + 1, 1<<30 + 1, -(1 << 30) - 1, 0x7FFFFFFF, -(1 << 31), 0x7FFFFFFE} {
			out = append(out, fitmodel.PutUint(binaryOrder(big), 4, uint64(uint32(int32(s)))))
		}
	}
	return out
}

type c02Expect struct {
	mesg  uint16
	index int
	want  reflect.Value
}

// c02Check decodes and compares; returns "" or a message.
func c02Check(stream []byte, exps []c02Expect, counts map[uint16]int) string {
	verify := func(res callResult, how string) string {
		if res.Panic != "" {
			return "Decode" + how + " panics: " + res.Panic
		}
		if res.Err != nil {
			return "Decode" + how + " fails on a well-formed compatible stream: " + res.Err.Error()
		}
		for m, n := range counts {
			if got := len(messagesOf(res.File, m)); got != n {
				return fmt.Sprintf("expected %d message(s) of %v%s, found %d", n, fit.MesgNum(m), how, got)
			}
		}
		for _, ex := range exps {
			got := messagesOf(res.File, ex.mesg)
			if ex.index >= len(got) {
				return fmt.Sprintf("message #%d of %v missing%s", ex.index, fit.MesgNum(ex.mesg), how)
			}
			if d := diffMsg(got[ex.index], ex.want, compIgnore(got[ex.index])); d != "" {
				return fmt.Sprintf("%v #%d%s: %s", fit.MesgNum(ex.mesg), ex.index, how, d)
			}
		}
		return ""
	}
	if msg := verify(safeDecode(bytes.NewReader(stream)), ""); msg != "" {
		return msg
	}
	// 1-byte reads must give the same content
	return verify(safeDecode(&oneByteReader{b: stream}), " (1-byte reads)")
}

func newWant(m uint16, ft byte) reflect.Value {
	w := fit.VerifNewMesg(fit.MesgNum(m))
	if m == 0 {
		w.FieldByName("Type").SetUint(uint64(ft))
	}
	return w
}

func runC02(w *vx.W) {
	p := prof()
	thorough := !w.Quick()
	mixLen := 3
	if !w.Quick() {
		mixLen = 4
	}
	mixFamily(w, mixLen)
	mixLongRuns(w, []int{0, 1, 2, 3, 4, 5, 6})
	c10MixChains(w) // the same words as members of a chain: values and routing must not depend on an earlier member
	tzFamily(w, "C02")
	// developer fields in every number from 1 to 255 (sizes 1 and 3), on a known and on an unknown message, between
	// records of another local type: skipped without disturbing anything (judged by the reference decoder)
	for n := 1; n <= 255; n++ {
		for v := 0; v < 4; v++ {
			if !w.Mine(int64(n*4 + v)) {
				continue
			}
			g := uint16(20)
			if v >= 2 {
				g = 0xFF00
			}
			sz := byte(1 + 2*(v%2))
			if int(sz)*n > 60000 {
				continue
			}
			d := fitmodel.Def{Local: 2, Big: v%2 == 1, Global: g, Fields: []fitmodel.FieldDef{{Num: 3, Size: 1, Base: fitmodel.Uint8}, {Num: 4, Size: 1, Base: fitmodel.Uint8}}, DevFlag: true}
			for i := 0; i < n; i++ {
				d.Dev = append(d.Dev, fitmodel.DevDef{Num: byte(i), Size: sz, Idx: byte(i % 4)})
			}
			body := make([]byte, d.DataLen())
			for i := range body {
				body[i] = byte(0x40 + i%60) // as record headers these would be definitions
			}
			body[0], body[1] = 77, 88
			stream := fitmodel.File(fitmodel.DefaultHeader, append(fitmodel.FileIdRecords(0, 4), recordDef(1, false).Bytes(), recordData(1, false, 1000000000, 60, 1),
				d.Bytes(), fitmodel.Data(2, body), recordData(1, false, 1000000001, 61, 2), fitmodel.Data(2, body), recordData(1, false, 1000000002, 62, 3))...)
			w.Eval(1)
			w.Trace(1)
			w.Fam("developer-field-counts", 1)
			if msg := mixCheck(stream); msg != "" {
				w.Violation("developer-field-count", fmt.Sprintf("%d developer fields of %d byte(s) on message %#x (big-endian=%v): %s", n, sz, g, v%2 == 1, msg), mixReplayT{Mix: true, Word: fmt.Sprintf("%d developer fields", n), Stream: hex.EncodeToString(stream)})
			}
		}
	}
	// ---- record independence on the device-file corpus and the shared streams
	for i, path := range corpusFiles() {
		if !w.Mine(int64(i)) {
			continue
		}
		b, err := os.ReadFile(path)
		if err != nil || (!thorough && len(b) > 400000) {
			continue
		}
		c02Independence(w, path, b)
		w.Fam("independence-files", 1)
		// the whole device file against the complete reference decoder
		if msg := mixCheck(b); msg != "" {
			w.Violation("corpus-reference-decoder", path+": "+msg, mixReplayT{Mix: true, Word: path, Stream: hex.EncodeToString(b)})
		}
		w.Fam("corpus-reference-decoder", 1)
	}
	for i, s := range []namedStream{sAct3, sAct3BE, sSet, sBig, sMonState, sZero} {
		if w.Mine(int64(i)) {
			c02Independence(w, s.Name, s.B)
		}
	}
	var idx int64
	unknownDef := fitmodel.Def{Local: 2, Global: 0xFF00, Fields: []fitmodel.FieldDef{{Num: 1, Size: 2, Base: fitmodel.Uint16}, {Num: 2, Size: 3, Base: fitmodel.Byte}}}
	unknownData := fitmodel.Data(2, []byte{0xDE, 0xAD, 0xBE, 0xEF, 0x99})
	// an unknown message that also carries developer fields (bytes chosen to look like record headers if left unread)
	unknownDevDef := fitmodel.Def{Local: 6, Global: 0xFE10, Fields: []fitmodel.FieldDef{{Num: 0, Size: 1, Base: fitmodel.Uint8}}, DevFlag: true,
		Dev: []fitmodel.DevDef{{Num: 0, Size: 2, Idx: 0}, {Num: 1, Size: 1, Idx: 0}}}
	unknownDevData := fitmodel.Data(6, []byte{0x07, 0x01, 0x01, 0x05})
	// a zero-field unknown message with developer fields only
	unknownDevOnlyDef := fitmodel.Def{Local: 7, Global: 0xFE11, DevFlag: true, Dev: []fitmodel.DevDef{{Num: 0, Size: 3, Idx: 1}}}
	unknownDevOnlyData := fitmodel.Data(7, []byte{0x02, 0x02, 0x02})

	report := func(e fit.VerifField, fd fitmodel.FieldDef, big bool, ctx string, stream []byte, msg string) {
		defs := fmt.Sprintf("num=%d size=%d base=%#02x big=%v", fd.Num, fd.Size, fd.Base, big)
		class := "value"
		if ctx == "zero-field-dev-def" {
			class = "zero-field-developer-definition"
		} else if e.Kind == kindNative && !e.Array && e.Base != fitmodel.String && fitmodel.BaseSize(fd.Base) < fitmodel.BaseSize(e.Base) {
			if big {
				class = "narrow-big-endian"
			} else if fitmodel.BaseSigned(fd.Base) {
				class = "narrow-signed"
			}
		} else if e.Kind != kindNative && big && fitmodel.BaseSize(fd.Base) < 4 {
			class = "narrow-big-endian"
		}
		key := fmt.Sprintf("%s/%d.%d", class, e.Mesg, e.Num)
		if class != "value" {
			key = class
		}
		w.Violation(key, fmt.Sprintf("%v field %d, def{%s}, context %s: %s", e.Mesg, e.Num, defs, ctx, msg),
			c02Replay{vx.Hex(stream), uint16(e.Mesg), e.Num, ctx, defs})
	}

	for _, e := range p.all {
		m := uint16(e.Mesg)
		ft, ok := hostType(m)
		if !ok {
			if w.Shard == 0 {
				w.Fam("entries-not-observable", 1)
			}
			continue
		}
		idx++
		if !w.Mine(idx) {
			continue
		}
		if m == 0 && e.Num == 0 {
			continue
		}
		w.Fam("entries-covered", 1)
		fts := []byte{ft}
		if thorough {
			fts = hostedIn(m)
			if len(fts) == 0 {
				fts = []byte{ft}
			}
		}
		others := p.byMesg[m]
		// neighbours: previous and next table entries of the same message (own natural definitions)
		var prev, next *fit.VerifField
		for i := range others {
			if others[i].Slot == e.Slot {
				if i > 0 {
					prev = &others[i-1]
				}
				if i+1 < len(others) {
					next = &others[i+1]
				}
			}
		}
		if m == 0 {
			// never use the type field as a neighbour (it is always present)
			if prev != nil && prev.Num == 0 {
				prev = nil
			}
			if next != nil && next.Num == 0 {
				next = nil
			}
		}
		for _, ftb := range fts {
			for _, fd := range c02Defs(e) {
				for o := 0; o < 2; o++ {
					big := o == 1
					for pi, pl := range c02Payloads(e, fd, big) {
						want := newWant(m, ftb)
						if !modelSet(want, e, fd, big, pl) {
							w.Fam("no-demand", 1)
							continue
						}
						caseID := fmt.Sprintf("%d.%d/%02x.%d/%d/%d", m, e.Num, fd.Base, fd.Size, o, pi)
						// --- context: alone
						s := probeStream(ftb, m, big, []fitmodel.FieldDef{fd}, pl)
						w.Eval(1)
						w.DistinctS(caseID + "/alone")
						if msg := c02Check(s, []c02Expect{{m, 0, want}}, map[uint16]int{m: 1}); msg != "" {
							report(e, fd, big, "alone", s, msg)
							continue
						}
						if w.Shard == 0 && idx < 40 && pi == 7 && o == 1 {
							w.Sample(map[string]interface{}{"mesg": e.Mesg.String(), "field": e.Num, "def": fmt.Sprintf("base=%#02x size=%d big-endian", fd.Base, fd.Size), "stream_hex": vx.Hex(s), "model_value": fitmodel.Dump(want.Field(e.Sindex))})
						}
						if pi > 1 && pi != 7 && !thorough {
							// the remaining contexts are explored with payloads 0,1 and the ascending pattern
							continue
						}
						// --- context: between two other known fields
						{
							fds := []fitmodel.FieldDef{}
							var payload []byte
							want2 := newWant(m, ftb)
							okc := true
							if prev != nil {
								pfd, pp := probeDef(*prev)
								pp = ppOrder(pp, *prev, big)
								fds = append(fds, pfd)
								payload = append(payload, pp...)
								okc = okc && modelSet(want2, *prev, pfd, big, pp)
							}
							fds = append(fds, fd)
							payload = append(payload, pl...)
							modelSet(want2, e, fd, big, pl)
							if next != nil {
								nfd, np := probeDef(*next)
								fds = append(fds, nfd)
								okc = okc && modelSet(want2, *next, nfd, big, ppOrder(np, *next, big))
								payload = append(payload, ppOrder(np, *next, big)...)
							}
							if okc && (prev != nil || next != nil) && len(payload) <= 255 {
								s := probeStream(ftb, m, big, fds, payload)
								w.Eval(1)
								w.DistinctS(caseID + "/between")
								if msg := c02Check(s, []c02Expect{{m, 0, want2}}, map[uint16]int{m: 1}); msg != "" {
									report(e, fd, big, "between-known-fields", s, msg)
								}
							}
						}
						// --- context: next to unknown field numbers (before and after)
						{
							unk := byte(0)
							for f := 254; f > 0; f-- {
								if _, listed := p.fields[m][byte(f)]; !listed && f != 253 {
									unk = byte(f)
									break
								}
							}
							fds := []fitmodel.FieldDef{{Num: unk, Size: 3, Base: fitmodel.Byte}, fd, {Num: unk - 1, Size: 2, Base: fitmodel.Uint16}}
							if _, listed := p.fields[m][unk-1]; listed {
								fds = fds[:2]
							}
							payload := append([]byte{0x77, 0x88, 0x99}, pl...)
							if len(fds) == 3 {
								payload = append(payload, 0x55, 0x66)
							}
							if len(payload) <= 255 {
								s := probeStream(ftb, m, big, fds, payload)
								w.Eval(1)
								w.DistinctS(caseID + "/unknown-fields")
								if msg := c02Check(s, []c02Expect{{m, 0, want}}, map[uint16]int{m: 1}); msg != "" {
									report(e, fd, big, "next-to-unknown-fields", s, msg)
								}
							}
						}
						if m == 0 {
							continue
						}
						// --- context: several data records under one definition (state computed at definition time
						// must hold for every record), interleaved with a record of another definition on another slot
						{
							pls := c02Payloads(e, fd, big)
							pl2 := pls[(pi+3)%len(pls)]
							want2 := newWant(m, ftb)
							if modelSet(want2, e, fd, big, pl2) {
								d := fitmodel.Def{Local: 1, Big: big, Global: m, Fields: []fitmodel.FieldDef{fd}}
								recs := append(fitmodel.FileIdRecords(0, ftb), d.Bytes(), fitmodel.Data(1, pl), unknownDef.Bytes(), unknownData, fitmodel.Data(1, pl2), unknownData, fitmodel.Data(1, pl))
								var exps []c02Expect
								n := 1
								if slotIsSlice(ftb, m) {
									n = 3
									exps = []c02Expect{{m, 0, want}, {m, 1, want2}, {m, 2, want}}
								} else {
									exps = []c02Expect{{m, 0, want}}
								}
								s := fitmodel.File(fitmodel.DefaultHeader, recs...)
								w.Eval(1)
								w.DistinctS(caseID + "/three-records")
								if msg := c02Check(s, exps, map[uint16]int{m: n}); msg != "" {
									report(e, fd, big, "three-records-one-definition", s, msg)
								}
							}
						}
						// --- context: the slot is redefined with the same field list in the opposite byte order
						if fitmodel.BaseSize(fd.Base) > 1 || e.Kind != kindNative {
							plo := fitmodel.PutUint(binaryOrder(!big), len(pl), 0)
							// same wire bytes, interpreted in the other order
							copy(plo, pl)
							wantO := newWant(m, ftb)
							if modelSet(wantO, e, fd, !big, plo) {
								d1 := fitmodel.Def{Local: 1, Big: big, Global: m, Fields: []fitmodel.FieldDef{fd}}
								d2 := fitmodel.Def{Local: 1, Big: !big, Global: m, Fields: []fitmodel.FieldDef{fd}}
								recs := append(fitmodel.FileIdRecords(0, ftb), d1.Bytes(), fitmodel.Data(1, pl), d2.Bytes(), fitmodel.Data(1, plo))
								var exps []c02Expect
								n := 1
								if slotIsSlice(ftb, m) {
									n = 2
									exps = []c02Expect{{m, 0, want}, {m, 1, wantO}}
								} else {
									exps = []c02Expect{{m, 0, wantO}}
								}
								s := fitmodel.File(fitmodel.DefaultHeader, recs...)
								w.Eval(1)
								w.DistinctS(caseID + "/redefined-other-order")
								if msg := c02Check(s, exps, map[uint16]int{m: n}); msg != "" {
									report(e, fd, big, "redefined-in-the-other-byte-order", s, msg)
								}
							}
						}
						// --- context: developer fields on the same record (1 and 2 descriptors)
						for nd := 1; nd <= 2; nd++ {
							d := fitmodel.Def{Local: 1, Big: big, Global: m, Fields: []fitmodel.FieldDef{fd}, DevFlag: true}
							payload := append([]byte{}, pl...)
							for i := 0; i < nd; i++ {
								d.Dev = append(d.Dev, fitmodel.DevDef{Num: byte(i), Size: byte(2 + i), Idx: 0})
								payload = append(payload, bytes.Repeat([]byte{0xD0 + byte(i)}, 2+i)...)
							}
							if len(payload) > 255 {
								continue
							}
							recs := append(fitmodel.FileIdRecords(0, ftb), d.Bytes(), fitmodel.Data(1, payload))
							s := fitmodel.File(fitmodel.DefaultHeader, recs...)
							w.Eval(1)
							w.DistinctS(caseID + fmt.Sprintf("/dev%d", nd))
							if msg := c02Check(s, []c02Expect{{m, 0, want}}, map[uint16]int{m: 1}); msg != "" {
								report(e, fd, big, fmt.Sprintf("with-%d-developer-fields", nd), s, msg)
							}
						}
						// --- context: preceded by a definition with zero regular fields and developer fields only
						{
							z := fitmodel.Def{Local: 3, Big: big, Global: m, DevFlag: true, Dev: []fitmodel.DevDef{{Num: 0, Size: 2, Idx: 0}}}
							d := fitmodel.Def{Local: 1, Big: big, Global: m, Fields: []fitmodel.FieldDef{fd}}
							recs := append(fitmodel.FileIdRecords(0, ftb), z.Bytes(), fitmodel.Data(3, []byte{0xCA, 0xFE}), d.Bytes(), fitmodel.Data(1, pl))
							s := fitmodel.File(fitmodel.DefaultHeader, recs...)
							w.Eval(1)
							w.DistinctS(caseID + "/zdev")
							res := safeDecode(bytes.NewReader(s))
							if res.Err != nil || res.Panic != "" {
								report(e, fd, big, "zero-field-dev-def", s, fmt.Sprintf("Decode fails: %v %s", res.Err, res.Panic))
							} else {
								got := messagesOf(res.File, m)
								// the developer-only record is an (all-invalid) message of m as well; the probe is the last one
								if len(got) == 0 {
									report(e, fd, big, "zero-field-dev-def", s, "probe message missing")
								} else if dmsg := diffMsg(got[len(got)-1], want, compIgnore(got[len(got)-1])); dmsg != "" {
									report(e, fd, big, "zero-field-dev-def", s, dmsg)
								}
							}
						}
						// --- context: surrounded by unknown-message records and another known message on other local types
						{
							om := otherHosted(ftb, m)
							d := fitmodel.Def{Local: 1, Big: big, Global: m, Fields: []fitmodel.FieldDef{fd}}
							recs := append(fitmodel.FileIdRecords(0, ftb), unknownDef.Bytes(), unknownData, unknownDevDef.Bytes(), unknownDevData, unknownDevOnlyDef.Bytes(), unknownDevOnlyData)
							var exps []c02Expect
							counts := map[uint16]int{}
							var odata []byte
							var owant reflect.Value
							if om != nil {
								ofd, op := probeDef(*om)
								od := fitmodel.Def{Local: 5, Big: !big, Global: uint16(om.Mesg), Fields: []fitmodel.FieldDef{ofd}}
								opl := ppOrder(op, *om, !big)
								owant = newWant(uint16(om.Mesg), ftb)
								if modelSet(owant, *om, ofd, !big, opl) {
									odata = fitmodel.Data(5, opl)
									recs = append(recs, od.Bytes(), odata)
								} else {
									om = nil
								}
							}
							recs = append(recs, d.Bytes(), fitmodel.Data(1, pl), unknownDevData, unknownData, unknownDevOnlyData)
							if om != nil {
								recs = append(recs, odata)
								n := 2
								if !slotIsSlice(ftb, uint16(om.Mesg)) {
									n = 1
								}
								counts[uint16(om.Mesg)] = n
								for i := 0; i < n; i++ {
									exps = append(exps, c02Expect{uint16(om.Mesg), i, owant})
								}
							}
							recs = append(recs, fitmodel.Data(1, pl))
							np := 2
							if !slotIsSlice(ftb, m) {
								np = 1
							}
							counts[m] = np
							for i := 0; i < np; i++ {
								exps = append(exps, c02Expect{m, i, want})
							}
							s := fitmodel.File(fitmodel.DefaultHeader, recs...)
							w.Eval(1)
							w.DistinctS(caseID + "/neighbours")
							if msg := c02Check(s, exps, counts); msg != "" {
								report(e, fd, big, "neighbour-records", s, msg)
							}
						}
					}
				}
			}
		}
		// --- ordered pairs of fields (record always; every message in thorough)
		if m != 0 && (thorough || e.Mesg == fit.MesgNumRecord) {
			fd, pl0 := probeDef(e)
			for _, q := range others {
				if q.Slot == e.Slot {
					continue
				}
				qfd, qp0 := probeDef(q)
				for o := 0; o < 2; o++ {
					big := o == 1
					pl, qp := ppOrder(pl0, e, big), ppOrder(qp0, q, big)
					if len(pl)+len(qp) > 255 {
						continue
					}
					want := newWant(m, ft)
					if !modelSet(want, e, fd, big, pl) || !modelSet(want, q, qfd, big, qp) {
						continue
					}
					s := probeStream(ft, m, big, []fitmodel.FieldDef{fd, qfd}, append(append([]byte{}, pl...), qp...))
					w.Eval(1)
					w.Fam("ordered-pairs", 1)
					w.DistinctS(fmt.Sprintf("pair/%d.%d.%d/%d", m, e.Num, q.Num, o))
					if msg := c02Check(s, []c02Expect{{m, 0, want}}, map[uint16]int{m: 1}); msg != "" {
						report(e, fd, big, fmt.Sprintf("pair-with-field-%d", q.Num), s, msg)
					}
				}
			}
		}
	}
}

func binaryOrder(big bool) binary.ByteOrder {
	if big {
		return binary.BigEndian
	}
	return binary.LittleEndian
}

// c02Independence: metamorphic oracle on real device files and on the harness streams. Every data record of a
// stream that Decode accepts is also decoded alone (file_id + its own definition + the record); the message must
// equal the corresponding message of the full decode, except for what legitimately depends on earlier records
// (timestamps from compressed headers, local timestamps, component destinations / accumulators).
func c02Independence(w *vx.W, name string, stream []byte) {
	full := safeDecode(bytes.NewReader(stream))
	if full.Err != nil || full.Panic != "" {
		return
	}
	p, _, err := fitmodel.ParseOne(stream)
	if err != nil || p == nil {
		w.Fam("independence-unparsed-streams", 1)
		return
	}
	ft := byte(full.File.Type())
	seen := map[uint16]int{}
	total := map[uint16]int{}
	for _, r := range p.Recs {
		total[r.Def.Global]++
	}
	for ri, r := range p.Recs {
		g := r.Def.Global
		k := seen[g]
		seen[g]++
		if g == 0 || ri == 0 || !slotHosted(ft, g) {
			continue
		}
		if !slotIsSlice(ft, g) && k != total[g]-1 {
			continue // single-valued member: only the last record is visible
		}
		all := messagesOf(full.File, g)
		var fullMsg reflect.Value
		if slotIsSlice(ft, g) {
			if k >= len(all) {
				w.Violation("record-independence/count", fmt.Sprintf("%s: %d data records of %v but only %d messages decoded", name, total[g], fit.MesgNum(g), len(all)), c02Replay{Hex: trunc(vx.Hex(stream), 4000), Mesg: g, Context: "independence"})
				return
			}
			fullMsg = all[k]
		} else {
			if len(all) != 1 {
				continue
			}
			fullMsg = all[0]
		}
		d := fitmodel.Def{Local: 1, Big: r.Def.Big, Global: g, Fields: r.Def.Fields, DevFlag: r.Def.DevFlag, Dev: r.Def.Dev}
		mini := fitmodel.File(fitmodel.DefaultHeader, append(fitmodel.FileIdRecords(0, ft), d.Bytes(), fitmodel.Data(1, r.Payload))...)
		res := safeDecode(bytes.NewReader(mini))
		w.Eval(1)
		w.Fam("independence-records", 1)
		rep := c02Replay{Hex: vx.Hex(mini), Mesg: g, Context: fmt.Sprintf("record #%d of %s decoded alone", ri, name)}
		if res.Err != nil || res.Panic != "" {
			w.Violation("record-independence/decode", fmt.Sprintf("%s: record #%d (%v) decodes inside the file but not alone: %v %s", name, ri, fit.MesgNum(g), res.Err, res.Panic), rep)
			continue
		}
		alone := messagesOf(res.File, g)
		if len(alone) != 1 {
			w.Violation("record-independence/decode", fmt.Sprintf("%s: record #%d (%v) alone yields %d messages", name, ri, fit.MesgNum(g), len(alone)), rep)
			continue
		}
		ignore := map[string]bool{}
		for n := range compIgnore(fullMsg) {
			ignore[n] = true
		}
		for n := range compIgnore(alone[0]) {
			ignore[n] = true
		}
		mt := fullMsg.Type()
		for _, e := range prof().byMesg[g] {
			if e.Kind == kindLocal || (r.Compressed && e.Kind == kindUTC && e.Num == 253) {
				ignore[mt.Field(e.Sindex).Name] = true
			}
		}
		if dmsg := diffMsg(fullMsg, alone[0], ignore); dmsg != "" {
			w.Violation("record-independence/value", fmt.Sprintf("%s: record #%d (%v) decodes differently inside the file than alone: %s (in file vs alone)", name, ri, fit.MesgNum(g), dmsg), rep)
		}
	}
}

// ppOrder re-expresses the natural probe payload (ascending bytes) so that it
// is a sensible value in the given byte order: strings and byte arrays are
// order independent, numbers keep the same byte string (values differ per
// order, both are fine); coordinates use a fixed small value.
func ppOrder(p []byte, e fit.VerifField, big bool) []byte {
	if e.Kind == kindLat || e.Kind == kindLng {
		return fitmodel.PutUint(binaryOrder(big), 4, 0x01020304)
	}
	return p
}

// otherHosted picks a field entry of another message hosted by file type ft.
func otherHosted(ft byte, m uint16) *fit.VerifField {
	p := prof()
	for _, s := range hosts()[ft] {
		if s.Mesg == m {
			continue
		}
		for i := range p.byMesg[s.Mesg] {
			e := p.byMesg[s.Mesg][i]
			if e.Kind == kindNative && !e.Array && e.Base != fitmodel.String && !isCompDest(s.MsgType.Name(), s.MsgType.Field(e.Sindex).Name) {
				return &e
			}
		}
	}
	return nil
}

func slotIsSlice(ft byte, m uint16) bool {
	for _, s := range hosts()[ft] {
		if s.Mesg == m {
			return s.IsSlice
		}
	}
	return false
}
