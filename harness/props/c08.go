package props

import (
	"encoding/json"
	"fmt"
	"os"
	"strconv"
	"strings"
	"time"

	"verif/vx"
)

// C08: decoding and encoding are pure — results do not depend on call history.

type c08Replay struct {
	History []string `json:"history"`
	Ops     []int    `json:"ops"`
}

func parseOps(s string) []int {
	var out []int
	for _, p := range strings.Split(s, ",") {
		if p == "" {
			continue
		}
		n, _ := strconv.Atoi(p)
		out = append(out, n)
	}
	return out
}

// c08Sub runs a history in this (fresh) process and prints the per-position results.
func c08Sub(args []string) {
	if tzSub(args) {
		return
	}
	pool := opPool()
	var out []opResult
	if ms, _ := strconv.Atoi(os.Getenv("VX_DELAY_MS")); ms > 0 {
		time.Sleep(time.Duration(ms) * time.Millisecond)
	}
	for _, i := range parseOps(args[0]) {
		out = append(out, pool[i].Run(plainEnv))
	}
	b, _ := json.Marshal(out)
	os.Stdout.Write(b)
}

func c08RunHistory(ops []int) ([]opResult, error) {
	return c08RunHistoryEnv(ops, nil)
}

// c08Envs: the environments the solo calls are repeated in — the result is a function of the input and the options
// only, not of the process's time zone, processor count, garbage collector pace, unrelated environment variables or
// the second in which it runs.
var c08Envs = [][]string{
	nil,
	{"TZ=Asia/Kathmandu"},
	{"TZ=America/St_Johns", "GOMAXPROCS=1"},
	{"GOMAXPROCS=8", "FIT_DEBUG=1", "DEBUG=1", "FITDEBUG=1"},
	{"TZ=Pacific/Chatham", "GOGC=1"},
	{"VX_DELAY_MS=1100"},
}

func c08RunHistoryEnv(ops []int, env []string) ([]opResult, error) {
	s := make([]string, len(ops))
	for i, o := range ops {
		s[i] = strconv.Itoa(o)
	}
	b, err := vx.SubRunEnv("C08", env, strings.Join(s, ","))
	if err != nil {
		return nil, err
	}
	var res []opResult
	if err := json.Unmarshal(b, &res); err != nil {
		return nil, fmt.Errorf("bad sub output: %v", err)
	}
	if len(res) != len(ops) {
		return nil, fmt.Errorf("sub returned %d results for %d ops", len(res), len(ops))
	}
	return res, nil
}

func init() {
	vx.Register(&vx.Prop{
		ID:    "C08",
		Level: "model_checking",
		Rule: "explicit exploration of call histories: all sequences of length <=3 (quick) / <=4 (thorough) over a pool of 39 calls (Decode of an activity with 1500 distinct definitions; Decode of an activity with 30000 records; Encode of a File as NewFile returns it; Decode of big-endian records with narrow time and coordinate fields; Encode of an activity with 1100 records; two course files with 1500 distinct equally long names each; Decode of an activity with 1100 records and of one without any; two Encode calls with strings longer than the profile length; two calls into the checksum package alone; one Decode whose option value is shared by every execution of the call in the process; two calls that stop inside the header; near-twin calls that differ only in the seconds of a local-time zone offset; Decode of two activity streams with accumulating component fields, of a settings file, of a corrupt file, with all options; DecodeChained; CheckIntegrity; Encode of two API-built Files with union definitions in both byte orders and of a decoded File; DecodeHeaderAndFileID; Decode of a stream whose compressed timestamps precede any reference; two Encode calls that fail part-way; Encode of long arrays in a message slice; Decode of two activity files in which every held message type is fully populated; Decode with all options of unknown items whose numbers collide modulo 256); the 30000-record call (quick tier: every call marked long) takes part in histories of length <= 2 only; each result includes a digest of the profile tables, every history executed in its own fresh process. " +
			"Oracle: the result at every position (canonical dump / bytes / error) equals the result of the same call made first in a fresh process; each solo call repeated in 6 fresh processes — under other time zones, processor counts, garbage-collector pace, unrelated environment variables and a second later — must agree with itself. " +
			"states = distinct behavioural states (vector of results of all one-step extensions of a history prefix); transitions = calls executed; traces = histories",
		Assumptions: []string{"accumulated distances of records carrying compressed_speed_distance are compared separately and attributed to the listed finding only when a shadow of the package-level accumulator predicts them exactly"},
		Run:         runC08,
		Sub:         c08Sub,
		QuickBudget: 240,
		Replay: func(raw json.RawMessage) (string, error) {
			var r c08Replay
			json.Unmarshal(raw, &r)
			res, err := c08RunHistory(r.Ops)
			if err != nil {
				return "", err
			}
			last := r.Ops[len(r.Ops)-1]
			solo, err := c08RunHistory([]int{last})
			if err != nil {
				return "", err
			}
			got, want := res[len(res)-1], solo[0]
			if got.Text != want.Text || fmt.Sprint(got.Dist) != fmt.Sprint(want.Dist) {
				return "", fmt.Errorf("after history %v the call returns text-equal=%v dist=%v, alone dist=%v", r.History, got.Text == want.Text, got.Dist, want.Dist)
			}
			return "history independent", nil
		},
	})
}

func runC08(w *vx.W) {
	pool := opPool()
	n := len(pool)
	maxLen := 3
	if !w.Quick() {
		maxLen = 4
	}
	procsFamily(w, "C08", "encode")
	envProbeFamily(w, "C08")
	// solo baselines, each in its own fresh process, repeated
	solo := make([]opResult, n)
	for i := range pool {
		for rep := 0; rep < 6; rep++ {
			if rep > 0 && w.Shard != 0 {
				break // every worker needs the baseline; the repeats under other environments run on one worker
			}
			env := c08Envs[rep%len(c08Envs)]
			if rep == 5 && i%4 != 0 && !strings.HasPrefix(pool[i].Name, "Encode(") {
				env = nil // the delayed repeat (a later second on the clock): every Encode call and every fourth other call
			}
			r, err := c08RunHistoryEnv([]int{i}, env)
			if err != nil {
				w.HarnessError("solo run of %s failed: %v", pool[i].Name, err)
			}
			if rep == 0 {
				solo[i] = r[0]
				continue
			}
			if r[0].Text != solo[i].Text || fmt.Sprint(r[0].Dist) != fmt.Sprint(solo[i].Dist) {
				if w.Shard == 0 {
					w.Violation("nondeterministic/"+pool[i].Name, fmt.Sprintf("%s gives different results in two fresh processes (environment of the second: %v): %s", pool[i].Name, env, diffAt(r[0].Text, solo[i].Text)), c08Replay{[]string{pool[i].Name}, []int{i}})
				}
			}
		}
		if w.Shard == 0 {
			w.Eval(6)
		}
	}
	// results of one-step extensions, for behavioural state keys
	ext := map[string][]string{} // prefix -> per-op result hash
	names := func(ops []int) []string {
		s := make([]string, len(ops))
		for i, o := range ops {
			s[i] = pool[o].Name
		}
		return s
	}
	seqWords(n, maxLen, func(int64) bool { return true }, func(word []int) bool {
		// all one-step extensions of a prefix go to the same worker (behavioural state keys)
		if int(vx.Hash(fmt.Sprint(word[:len(word)-1]))%uint64(w.N)) != w.Shard {
			return true
		}
		if w.Expired("histories") {
			return false
		}
		if len(word) >= 3 {
			for _, o := range word {
				if pool[o].Huge || (w.Quick() && pool[o].Long) {
					// the 30000-record call takes part in histories of length <= 2; in the quick tier so do the other
					// long calls (1100 records, 1500 names)
					return true
				}
			}
		}
		ops := append([]int{}, word...)
		res, err := c08RunHistory(ops)
		if err != nil {
			w.HarnessError("history %v failed: %v", ops, err)
		}
		w.Eval(1)
		w.Trace(1)
		w.Transition(int64(len(ops)))
		w.Distinct(vx.Hash(fmt.Sprint(ops)))
		// shadow of the package-level distance accumulator (defect model)
		var g accum
		for pos, o := range ops {
			var pred []uint32
			for _, l := range res[pos].Lossy {
				pred = append(pred, g.add(l, 0xFFF))
			}
			got, want := res[pos], solo[o]
			hist := names(ops[:pos+1])
			rep := c08Replay{hist, append([]int{}, ops[:pos+1]...)}
			if got.Text != want.Text {
				w.Violation("history-dependent/"+pool[o].Name, fmt.Sprintf("after %v, %s differs from the same call made first in a fresh process: %s", hist[:pos], pool[o].Name, diffAt(got.Text, want.Text)), rep)
				continue
			}
			if fmt.Sprint(got.Dist) != fmt.Sprint(want.Dist) {
				// Decode may stop early on an error: compare the decoded prefix
				if len(got.Dist) <= len(pred) && fmt.Sprint(got.Dist) == fmt.Sprint(pred[:len(got.Dist)]) {
					w.Known("accumulators-package-level", fmt.Sprintf("after %v, %s returns accumulated distances %v instead of %v (package-level accumulator continues)", hist[:pos], pool[o].Name, got.Dist, want.Dist), rep)
				} else {
					w.Violation("history-dependent-distance/"+pool[o].Name, fmt.Sprintf("after %v, %s returns distances %v; alone %v; accumulator defect model predicts %v", hist[:pos], pool[o].Name, got.Dist, want.Dist, pred), rep)
				}
			}
		}
		if len(ops) >= 1 {
			key := fmt.Sprint(ops[:len(ops)-1])
			if ext[key] == nil {
				ext[key] = make([]string, n)
			}
			last := res[len(res)-1]
			ext[key][ops[len(ops)-1]] = fmt.Sprint(vx.Hash(last.Text), last.Dist)
		}
		return true
	})
	for _, v := range ext {
		w.State(vx.Hash(strings.Join(v, "|")))
	}
	if w.Shard == 0 {
		w.Sample(map[string]interface{}{"history": []string{pool[0].Name, pool[7].Name, pool[0].Name}, "oracle": "each position equals the solo result from a fresh process"})
		var pn []string
		for _, p := range pool {
			pn = append(pn, p.Name)
		}
		w.Extra("pool", pn)
	}
}

// diffAt shows where two texts start to differ.
func diffAt(a, b string) string {
	i := 0
	for i < len(a) && i < len(b) && a[i] == b[i] {
		i++
	}
	lo := i - 40
	if lo < 0 {
		lo = 0
	}
	hiA, hiB := i+60, i+60
	if hiA > len(a) {
		hiA = len(a)
	}
	if hiB > len(b) {
		hiB = len(b)
	}
	return fmt.Sprintf("at byte %d: ...%s... vs ...%s...", i, a[lo:hiA], b[lo:hiB])
}
