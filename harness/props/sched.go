package props

import (
	"fmt"
)

// Cooperative scheduler with iterative preemption bounding (CHESS style).
//
// N real goroutines, exactly one runs at a time; a goroutine hands control back
// at every scheduling point (sched.Point). The controller replays a prefix of
// choices and takes choice 0 afterwards; enabled threads are listed in
// canonical order: the running thread first if still enabled, then ascending ids.

type schedEvent struct {
	thread int
	done   bool
	label  string
	panicv interface{}
}

type schedPoint struct {
	running   int   // thread that hit the point (or -1 at start)
	enabled   []int // canonical order
	chosen    int   // index into enabled
	runningOn bool  // running thread still enabled (switching away = preemption)
	label     string
}

type sched struct {
	n       int
	resume  []chan struct{}
	events  chan schedEvent
	prefix  []int
	points  []schedPoint
	cur     int
	diverge string
	trace   []string // thread:label sequence (for replay determinism checks)
	running int      // the thread that currently runs (valid inside thread bodies)
}

// Point is called by thread id at a scheduling point; it blocks until the controller resumes the thread.
func (s *sched) Point(id int, label string) {
	s.events <- schedEvent{thread: id, label: label}
	<-s.resume[id]
}

type schedResult struct {
	points      []schedPoint
	choices     []int
	preemptions int
	trace       []string
	deadlock    bool
}

// run executes bodies under the schedule given by prefix (then default choices).
func schedRun(bodies []func(s *sched, id int), prefix []int) (*schedResult, error) {
	n := len(bodies)
	s := &sched{n: n, resume: make([]chan struct{}, n), events: make(chan schedEvent), prefix: prefix}
	done := make([]bool, n)
	for i := range s.resume {
		s.resume[i] = make(chan struct{})
	}
	for i := 0; i < n; i++ {
		go func(i int) {
			<-s.resume[i]
			defer func() {
				r := recover()
				s.events <- schedEvent{thread: i, done: true, panicv: r}
			}()
			bodies[i](s, i)
		}(i)
	}
	res := &schedResult{}
	running := -1
	remaining := n
	for remaining > 0 {
		// enabled threads in canonical order
		var enabled []int
		runningOn := running >= 0 && !done[running]
		if runningOn {
			enabled = append(enabled, running)
		}
		for i := 0; i < n; i++ {
			if !done[i] && i != running {
				enabled = append(enabled, i)
			}
		}
		if len(enabled) == 0 {
			res.deadlock = true
			break
		}
		c := 0
		k := len(res.points)
		if k < len(prefix) {
			c = prefix[k]
			if c >= len(enabled) {
				return nil, fmt.Errorf("replay diverged: choice %d at point %d but only %d threads enabled", c, k, len(enabled))
			}
		}
		if runningOn && c != 0 {
			res.preemptions++
		}
		label := ""
		if len(res.trace) > 0 {
			label = res.trace[len(res.trace)-1]
		}
		res.points = append(res.points, schedPoint{running: running, enabled: enabled, chosen: c, runningOn: runningOn, label: label})
		res.choices = append(res.choices, c)
		running = enabled[c]
		s.running = running
		s.resume[running] <- struct{}{}
		ev := <-s.events
		if ev.thread != running {
			return nil, fmt.Errorf("scheduler: event from thread %d while %d is running", ev.thread, running)
		}
		if ev.done {
			done[running] = true
			remaining--
			res.trace = append(res.trace, fmt.Sprintf("%d:done", running))
			if ev.panicv != nil {
				res.trace = append(res.trace, fmt.Sprintf("%d:panic:%v", running, ev.panicv))
			}
		} else {
			res.trace = append(res.trace, fmt.Sprintf("%d:%s", running, ev.label))
		}
	}
	return res, nil
}

// schedExplore enumerates all schedules with at most `bound` preemptions
// (bound < 0: unbounded). check is called after every execution.
func schedExplore(mk func() []func(s *sched, id int), bound int, limit int64,
	check func(r *schedResult)) (execs int64, capped bool, err error) {
	var rec func(prefix []int) error
	rec = func(prefix []int) error {
		if limit > 0 && execs >= limit {
			capped = true
			return nil
		}
		r, err := schedRun(mk(), prefix)
		if err != nil {
			return err
		}
		execs++
		check(r)
		// preemptions used up to each point
		used := 0
		pre := make([]int, len(r.points))
		for i, p := range r.points {
			pre[i] = used
			if p.runningOn && p.chosen != 0 {
				used++
			}
		}
		for i := len(prefix); i < len(r.points); i++ {
			p := r.points[i]
			for alt := 1; alt < len(p.enabled); alt++ {
				cost := pre[i]
				if p.runningOn {
					cost++
				}
				if bound >= 0 && cost > bound {
					continue
				}
				np := make([]int, i+1)
				copy(np, r.choices[:i])
				np[i] = alt
				if err := rec(np); err != nil {
					return err
				}
				if capped {
					return nil
				}
			}
		}
		return nil
	}
	err = rec(nil)
	return
}
