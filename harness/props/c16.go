package props

import (
	"bytes"
	"encoding/json"
	"fmt"
	"os"
	"reflect"
	"strings"

	"github.com/tormoder/fit"

	"verif/fitmodel"
	"verif/vx"
)

// C16: decode options only add information; unknown-item counts are exact.

type nullLogger struct{ n int }

func (l *nullLogger) Print(args ...interface{}) { l.n++; _ = fmt.Sprint(args...) }
func (l *nullLogger) Printf(format string, args ...interface{}) {
	l.n++
	_ = fmt.Sprintf(format, args...)
}
func (l *nullLogger) Println(args ...interface{}) { l.n++; _ = fmt.Sprintln(args...) }

type c16Rec struct {
	b       []byte
	isData  bool
	unkMsg  int      // unknown message number (or -1)
	unkFlds []uint32 // (mesg<<8|field) keys for unlisted fields of a known message
	fails   bool
}

// c16Op returns the records of alphabet symbol k; pos makes payloads distinct.
func c16Op(k int, pos int) []c16Rec {
	id := byte(pos + 1)
	def := func(d fitmodel.Def) c16Rec { return c16Rec{b: d.Bytes(), unkMsg: -1} }
	fk := func(f byte) uint32 { return uint32(20)<<8 | uint32(f) }
	switch k {
	case 0: // known message, known field
		d := fitmodel.Def{Local: 1, Global: 20, Fields: []fitmodel.FieldDef{{Num: 3, Size: 1, Base: fitmodel.Uint8}}}
		return []c16Rec{def(d), {b: fitmodel.Data(1, []byte{id}), isData: true, unkMsg: -1}}
	case 1: // one unlisted field
		d := fitmodel.Def{Local: 1, Global: 20, Fields: []fitmodel.FieldDef{{Num: 3, Size: 1, Base: fitmodel.Uint8}, {Num: 200, Size: 1, Base: fitmodel.Uint8}}}
		return []c16Rec{def(d), {b: fitmodel.Data(1, []byte{id, 9}), isData: true, unkMsg: -1, unkFlds: []uint32{fk(200)}}}
	case 2: // two unlisted fields around a known one
		d := fitmodel.Def{Local: 3, Big: true, Global: 20, Fields: []fitmodel.FieldDef{{Num: 201, Size: 2, Base: fitmodel.Uint16}, {Num: 3, Size: 1, Base: fitmodel.Uint8}, {Num: 202, Size: 3, Base: fitmodel.Byte}}}
		return []c16Rec{def(d), {b: fitmodel.Data(3, []byte{1, 2, id, 3, 4, 5}), isData: true, unkMsg: -1, unkFlds: []uint32{fk(201), fk(202)}}}
	case 3: // unknown message A
		d := fitmodel.Def{Local: 1, Global: 0xFF00, Fields: []fitmodel.FieldDef{{Num: 1, Size: 1, Base: fitmodel.Uint8}, {Num: 253, Size: 4, Base: fitmodel.Uint32}}}
		return []c16Rec{def(d), {b: fitmodel.Data(1, []byte{id, 1, 2, 3, 4}), isData: true, unkMsg: 0xFF00}, {b: fitmodel.Data(1, []byte{id, 4, 3, 2, 1}), isData: true, unkMsg: 0xFF00}}
	case 4: // unknown message B, two records
		d := fitmodel.Def{Local: 5, Global: 0x0114, Fields: []fitmodel.FieldDef{{Num: 7, Size: 2, Base: fitmodel.Uint16}, {Num: 200, Size: 1, Base: fitmodel.Uint8}}} // unknown number with the low byte of record
		return []c16Rec{def(d), {b: fitmodel.Data(5, []byte{id, 1, 9}), isData: true, unkMsg: 0x0114}, {b: fitmodel.Data(5, []byte{id, 2, 9}), isData: true, unkMsg: 0x0114}}
	case 5: // redefinition of local 1 with another unlisted field
		d1 := fitmodel.Def{Local: 1, Global: 20, Fields: []fitmodel.FieldDef{{Num: 3, Size: 1, Base: fitmodel.Uint8}}}
		d2 := fitmodel.Def{Local: 1, Global: 20, Fields: []fitmodel.FieldDef{{Num: 203, Size: 1, Base: fitmodel.Uint8}, {Num: 3, Size: 1, Base: fitmodel.Uint8}}}
		return []c16Rec{def(d1), {b: fitmodel.Data(1, []byte{id}), isData: true, unkMsg: -1}, def(d2), {b: fitmodel.Data(1, []byte{8, id}), isData: true, unkMsg: -1, unkFlds: []uint32{fk(203)}}}
	case 6: // zero-field definition
		d := fitmodel.Def{Local: 1, Global: 20}
		return []c16Rec{def(d), {b: fitmodel.Data(1, nil), isData: true, unkMsg: -1}, {b: fitmodel.Data(1, nil), isData: true, unkMsg: -1}}
	case 7: // zero-field definition with developer flag
		d := fitmodel.Def{Local: 7, Global: 20, DevFlag: true, Dev: []fitmodel.DevDef{{Num: 0, Size: 2, Idx: 0}}}
		return []c16Rec{def(d), {b: fitmodel.Data(7, []byte{id, id}), isData: true, unkMsg: -1}}
	case 8: // record with developer fields
		d := fitmodel.Def{Local: 8, Global: 20, Fields: []fitmodel.FieldDef{{Num: 3, Size: 1, Base: fitmodel.Uint8}}, DevFlag: true, Dev: []fitmodel.DevDef{{Num: 1, Size: 3, Idx: 0}}}
		return []c16Rec{def(d), {b: fitmodel.Data(8, []byte{id, 7, 7, 7}), isData: true, unkMsg: -1}}
	case 9: // data record for an undefined local type
		return []c16Rec{{b: []byte{9}, isData: true, unkMsg: -1, fails: true}}
	case 10: // definition with an unknown architecture byte
		d := fitmodel.Def{Local: 10, Global: 20, Fields: []fitmodel.FieldDef{{Num: 3, Size: 1, Base: fitmodel.Uint8}}, ArchByte: 3}
		return []c16Rec{{b: d.Bytes(), unkMsg: -1, fails: true}}
	case 16: // a known message numbered >= 256 with unlisted fields (sorting / counting across the byte boundary)
		hi := c16HighKnown()
		d := fitmodel.Def{Local: 5, Global: hi, Fields: []fitmodel.FieldDef{{Num: 201, Size: 1, Base: fitmodel.Uint8}, {Num: 199, Size: 1, Base: fitmodel.Uint8}}}
		return []c16Rec{def(d), {b: fitmodel.Data(5, []byte{id, 1}), isData: true, unkMsg: -1, unkFlds: []uint32{uint32(hi)<<8 | 201, uint32(hi)<<8 | 199}}}
	case 17: // session (18) with unlisted fields: a second low-numbered known message
		d := fitmodel.Def{Local: 6, Global: 18, Fields: []fitmodel.FieldDef{{Num: 202, Size: 2, Base: fitmodel.Uint16}, {Num: 200, Size: 1, Base: fitmodel.Uint8}}}
		return []c16Rec{def(d), {b: fitmodel.Data(6, []byte{id, 0, 1}), isData: true, unkMsg: -1, unkFlds: []uint32{18<<8 | 202, 18<<8 | 200}}}
	case 18: // a zero-size unlisted string field next to an unlisted one-byte field
		d := fitmodel.Def{Local: 7, Global: 20, Fields: []fitmodel.FieldDef{{Num: 204, Size: 0, Base: fitmodel.String}, {Num: 205, Size: 1, Base: fitmodel.Uint8}}}
		return []c16Rec{def(d), {b: fitmodel.Data(7, []byte{id}), isData: true, unkMsg: -1, unkFlds: []uint32{fk(204), fk(205)}}}
	case 19: // two known messages whose numbers are equal modulo 256, each with the same unlisted field number
		lo, hi := c16TiePair()
		d1 := fitmodel.Def{Local: 13, Global: hi, Fields: []fitmodel.FieldDef{{Num: 200, Size: 1, Base: fitmodel.Uint8}}}
		d2 := fitmodel.Def{Local: 14, Global: lo, Fields: []fitmodel.FieldDef{{Num: 200, Size: 1, Base: fitmodel.Uint8}}}
		return []c16Rec{def(d1), {b: fitmodel.Data(13, []byte{id}), isData: true, unkMsg: -1, unkFlds: []uint32{uint32(hi)<<8 | 200}},
			def(d2), {b: fitmodel.Data(14, []byte{id}), isData: true, unkMsg: -1, unkFlds: []uint32{uint32(lo)<<8 | 200}}}
	case 13: // explicit timestamp on a known message (sets the time reference)
		d := fitmodel.Def{Local: 2, Global: 20, Fields: []fitmodel.FieldDef{{Num: 253, Size: 4, Base: fitmodel.Uint32}, {Num: 3, Size: 1, Base: fitmodel.Uint8}}}
		return []c16Rec{def(d), {b: fitmodel.Data(2, []byte{0x1E, 0xCA, 0x9A, 0x3B, id}), isData: true, unkMsg: -1}}
	case 14: // known message with a compressed-timestamp header (local 3, small offset: rolls over after case 15)
		d := fitmodel.Def{Local: 3, Global: 20, Fields: []fitmodel.FieldDef{{Num: 3, Size: 1, Base: fitmodel.Uint8}}}
		return []c16Rec{def(d), {b: fitmodel.Compressed(3, byte(2+pos), []byte{id}), isData: true, unkMsg: -1}}
	case 15: // unknown message with a compressed-timestamp header and a large offset
		d := fitmodel.Def{Local: 0, Global: 0xFB00, Fields: []fitmodel.FieldDef{{Num: 1, Size: 1, Base: fitmodel.Uint8}}}
		return []c16Rec{def(d), {b: fitmodel.Compressed(0, byte(28+pos), []byte{id}), isData: true, unkMsg: 0xFB00}}
	case 12: // unknown message with developer fields
		d := fitmodel.Def{Local: 12, Global: 0xFC00, Fields: []fitmodel.FieldDef{{Num: 3, Size: 1, Base: fitmodel.Uint8}}, DevFlag: true, Dev: []fitmodel.DevDef{{Num: 0, Size: 2, Idx: 0}}}
		return []c16Rec{def(d), {b: fitmodel.Data(12, []byte{id, 1, 1}), isData: true, unkMsg: 0xFC00}}
	case 11: // unknown message with zero fields (counted, nothing to read)
		d := fitmodel.Def{Local: 1, Global: 0xFD00}
		return []c16Rec{def(d), {b: fitmodel.Data(1, nil), isData: true, unkMsg: 0xFD00}, {b: fitmodel.Data(1, nil), isData: true, unkMsg: 0xFD00}}
	}
	panic("c16Op")
}

const c16Alpha = 20

// c16TiePair: two known message numbers that are equal modulo 256.
func c16TiePair() (uint16, uint16) {
	p := prof()
	for _, hi := range p.known {
		if hi >= 256 && p.isKnown[hi&0xFF] {
			return hi & 0xFF, hi
		}
	}
	return 3, 20
}

// c16HighKnown: the smallest known message number >= 256 (its low byte collides with small numbers when a key is packed carelessly).
func c16HighKnown() uint16 {
	for _, m := range prof().known {
		if m >= 256 && m&0xFF < 18 {
			return m
		}
	}
	for _, m := range prof().known {
		if m >= 256 {
			return m
		}
	}
	return 20
}

var c16Names = []string{"K", "KU1", "KU2", "UAx2", "UBx2", "REDEF", "Zx2", "ZDEV", "DEV", "UNDEF", "BADDEF", "UZx2", "UDEV", "TS", "CK", "CU", "KHI", "KSES", "ZSTR", "TIE"}

type c16Replay struct {
	Word        []int    `json:"word"`
	Names       string   `json:"word_names"`
	Cut         int      `json:"cut"`
	Options     string   `json:"options"`
	Hex         string   `json:"stream_hex"`
	Generic     bool     `json:"generic,omitempty"`
	Chain       []int    `json:"chain_member_lengths,omitempty"`
	AfterFileId bool     `json:"after_file_id,omitempty"`
	Long        *longRun `json:"long_run,omitempty"`
}

func init() {
	vx.Register(&vx.Prop{
		ID:    "C16",
		Level: "model_checking",
		Rule: "all words of length <=3 (quick) / <=4 (thorough) over 20 record groups {known message; with 1 / 2 unlisted fields; two unknown messages; redefinition; zero-field definition without/with developer flag; developer fields; data for an undefined local type; bad definition; zero-field unknown message; unknown message with developer fields; explicit timestamp; known and unknown messages with compressed-timestamp headers} x every truncation offset x all 8 option combinations (logger x unknown fields x unknown messages; whole streams also with the options passed in every order and repeated: 19 configurations). " +
			"Most groups (re)define the same local type 1, so that words also cover redefinition of a slot from a known message with unlisted fields to an unknown or field-less message. Oracle: content, error text and bytes consumed equal the option-free run; lists absent when the option is off, sorted without duplicates when on; on success equal to the model counters, on failure completed <= reported <= completed + record in progress. states = distinct model counter states; transitions = records; traces = decodes compared",
		Run: runC16,
		Replay: func(raw json.RawMessage) (string, error) {
			var r c16Replay
			json.Unmarshal(raw, &r)
			if r.AfterFileId {
				if msg := c16AfterFileIdCheck(vx.UnHex(r.Hex)); msg != "" {
					return "", fmt.Errorf("%s: %s", r.Names, msg)
				}
				return "ok", nil
			}
			if r.Generic && len(r.Chain) > 0 {
				data := vx.UnHex(r.Hex)
				base := safeDecodeChained(bytes.NewReader(data))
				var Ms []map[int]int
				var Fs []map[uint32]int
				off := 0
				for _, n := range r.Chain {
					M, F, _ := refCounts(data[off : off+n])
					Ms, Fs = append(Ms, M), append(Fs, F)
					off += n
				}
				for cfg := 1; cfg < len(c16Configs); cfg++ {
					if msg, _ := c16ChainCheck(data, r.Chain, cfg, base.Files, Ms, Fs); msg != "" {
						return "", fmt.Errorf("%s: %s", r.Names, msg)
					}
				}
				return "ok", nil
			}
			if r.Generic {
				stream := vx.UnHex(r.Hex)
				if r.Long != nil {
					stream, _, _ = mixStream(r.Long.ops(), true)
				}
				if msg, _ := c16Generic(stream); msg != "" {
					return "", fmt.Errorf("%s: %s", r.Names, msg)
				}
				return "ok", nil
			}
			msg, _ := c16Check(r.Word, r.Cut, nil)
			if msg != "" {
				return "", fmt.Errorf("%s", msg)
			}
			return "ok", nil
		},
	})
}

type c16Obs struct {
	content  string
	errText  string
	consumed int
	uf       []fit.UnknownField
	um       []fit.UnknownMessage
	hasFile  bool
	panicked string
}

// c16Configs: every option set in every order in which its options can be passed (an option must not undo
// another), plus repeated options. Index 0 = no options; 1..7 = the canonical order logger, fields, messages.
var c16Configs = func() [][]int {
	cfg := [][]int{{}, {1}, {2}, {1, 2}, {4}, {1, 4}, {2, 4}, {1, 2, 4}}
	cfg = append(cfg, []int{2, 1}, []int{4, 1}, []int{4, 2}, []int{1, 4, 2}, []int{2, 1, 4}, []int{2, 4, 1}, []int{4, 1, 2}, []int{4, 2, 1},
		[]int{2, 2}, []int{4, 2, 4}, []int{2, 4, 2})
	return cfg
}()

func cfgBits(opt int) int {
	b := 0
	for _, o := range c16Configs[opt] {
		b |= o
	}
	return b
}

func c16Decode(b []byte, opt int) c16Obs {
	var opts []fit.DecodeOption
	for _, o := range c16Configs[opt] {
		switch o {
		case 1:
			opts = append(opts, fit.WithLogger(&nullLogger{}))
		case 2:
			opts = append(opts, fit.WithUnknownFields())
		case 4:
			opts = append(opts, fit.WithUnknownMessages())
		}
	}
	r := &countingReader{b: b}
	res := safeDecode(r, opts...)
	o := c16Obs{consumed: r.i, panicked: res.Panic}
	if res.Err != nil {
		o.errText = res.Err.Error()
	}
	if res.File != nil {
		o.hasFile = true
		o.content = dumpFileContent(res.File) + " hdr:" + fitmodel.DumpI(res.File.Header) + fmt.Sprint(" crc:", res.File.CRC)
		o.uf, o.um = res.File.UnknownFields, res.File.UnknownMessages
	}
	return o
}

func optName(opt int) string {
	var s []string
	for _, o := range c16Configs[opt] {
		s = append(s, map[int]string{1: "logger", 2: "unknownFields", 4: "unknownMessages"}[o])
	}
	if len(s) == 0 {
		return "none"
	}
	return strings.Join(s, "+")
}

// c16Check runs one (word, cut) through all option sets. cut<0 = no truncation.
// It returns a violation message and its class.
func c16Check(word []int, cut int, onState func(h uint64)) (string, string) {
	var recs []c16Rec
	for i, k := range word {
		recs = append(recs, c16Op(k, i)...)
	}
	parts := fitmodel.FileIdRecords(0, 4)
	for _, r := range recs {
		parts = append(parts, r.b)
	}
	full := fitmodel.File(fitmodel.DefaultHeader, parts...)
	stream := full
	if cut >= 0 && cut < len(full) {
		stream = full[:cut]
	}
	// model counters: completed and in-progress
	doneM, progM := map[int]int{}, map[int]int{}
	doneF, progF := map[uint32]int{}, map[uint32]int{}
	pos := 14 + len(parts[0]) + len(parts[1])
	failed := false
	for _, r := range recs {
		end := pos + len(r.b)
		complete := end <= len(stream) && !r.fails
		started := pos < len(stream)
		if r.isData && !failed {
			if complete {
				if r.unkMsg >= 0 {
					doneM[r.unkMsg]++
				}
				for _, f := range r.unkFlds {
					doneF[f]++
				}
			} else if started {
				if r.unkMsg >= 0 {
					progM[r.unkMsg]++
				}
				for _, f := range r.unkFlds {
					progF[f]++
				}
			}
		}
		if !complete {
			failed = true
		}
		if onState != nil && complete {
			onState(vx.Hash(fmt.Sprint(doneM, doneF)))
		}
		pos = end
	}
	success := !failed && len(stream) == len(full)

	base := c16Decode(stream, 0)
	if base.panicked != "" {
		return "Decode panics: " + base.panicked, "panic"
	}
	if success && base.errText != "" {
		return "option-free decode of a well-formed word fails: " + base.errText, "base"
	}
	if !success && base.errText == "" {
		return "option-free decode of a failing/truncated word succeeds", "base"
	}
	if base.uf != nil || base.um != nil {
		return "unknown-item lists are populated although no option was given", "lists-without-option"
	}
	ncfg := 8 // truncated streams: the 8 option sets in canonical order; whole streams: every order and repetition too
	if cut < 0 {
		ncfg = len(c16Configs)
	}
	for cfg := 1; cfg < ncfg; cfg++ {
		o := c16Decode(stream, cfg)
		on := optName(cfg)
		opt := cfgBits(cfg)
		if o.panicked != "" {
			return fmt.Sprintf("options %s: Decode panics: %s", on, o.panicked), "panic"
		}
		if o.content != base.content || o.hasFile != base.hasFile {
			return fmt.Sprintf("options %s change the decoded content: %s vs %s", on, trunc(o.content, 200), trunc(base.content, 200)), "options-change-content"
		}
		if o.errText != base.errText {
			return fmt.Sprintf("options %s change the error: %q vs %q", on, o.errText, base.errText), "options-change-error"
		}
		if o.consumed != base.consumed {
			return fmt.Sprintf("options %s change the bytes consumed: %d vs %d", on, o.consumed, base.consumed), "options-change-consumed"
		}
		if !o.hasFile {
			continue
		}
		if opt&2 == 0 && o.uf != nil {
			return fmt.Sprintf("options %s: UnknownFields populated without the option", on), "lists-without-option"
		}
		if opt&4 == 0 && o.um != nil {
			return fmt.Sprintf("options %s: UnknownMessages populated without the option", on), "lists-without-option"
		}
		if opt&4 != 0 {
			if o.um == nil && len(stream) >= 14 {
				// after the header is decoded the list is always produced
				return fmt.Sprintf("options %s: UnknownMessages is nil", on), "list-missing"
			}
			seen := map[int]bool{}
			for i, u := range o.um {
				if i > 0 && !(o.um[i-1].MesgNum < u.MesgNum) {
					return fmt.Sprintf("options %s: UnknownMessages not strictly sorted: %v", on, o.um), "unsorted"
				}
				k := int(u.MesgNum)
				seen[k] = true
				if u.Count < doneM[k] || u.Count > doneM[k]+progM[k] || (success && u.Count != doneM[k]) {
					return fmt.Sprintf("options %s: unknown message %d counted %d times, model: %d completed (+%d in progress)", on, k, u.Count, doneM[k], progM[k]), "unknown-message-count"
				}
			}
			for k, n := range doneM {
				if n > 0 && !seen[k] {
					return fmt.Sprintf("options %s: unknown message %d (%d completed records) is not reported", on, k, n), "unknown-message-count"
				}
			}
		}
		if opt&2 != 0 {
			if o.uf == nil && len(stream) >= 14 {
				return fmt.Sprintf("options %s: UnknownFields is nil", on), "list-missing"
			}
			seen := map[uint32]bool{}
			for i, u := range o.uf {
				if i > 0 {
					p := o.uf[i-1]
					if !(p.MesgNum < u.MesgNum || (p.MesgNum == u.MesgNum && p.FieldNum < u.FieldNum)) {
						return fmt.Sprintf("options %s: UnknownFields not strictly sorted: %v", on, o.uf), "unsorted"
					}
				}
				k := uint32(u.MesgNum)<<8 | uint32(u.FieldNum)
				seen[k] = true
				if u.Count < doneF[k] || u.Count > doneF[k]+progF[k] || (success && u.Count != doneF[k]) {
					class := "unknown-field-count"
					if !prof().isKnown[uint16(u.MesgNum)] {
						class = "unknown-fields-of-unknown-messages"
					}
					return fmt.Sprintf("options %s: unknown field %d.%d counted %d times, model: %d completed (+%d in progress)", on, u.MesgNum, u.FieldNum, u.Count, doneF[k], progF[k]), class
				}
			}
			for k, n := range doneF {
				if n > 0 && !seen[k] {
					return fmt.Sprintf("options %s: unknown field %d.%d (%d completed records) is not reported", on, k>>8, k&0xFF, n), "unknown-field-count"
				}
			}
		}
	}
	return "", ""
}

func runC16(w *vx.W) {
	c16GenericFamilies(w)
	c16Chains(w)
	c16AfterFileId(w)
	maxLen := 3
	if !w.Quick() {
		maxLen = 4
	}
	states := map[uint64]struct{}{}
	seqWords(c16Alpha, maxLen, w.Mine, func(word []int) bool {
		if w.Expired("words") {
			return false
		}
		// length of the full stream
		n := 14 + 11 + 2
		for i, k := range word {
			for _, r := range c16Op(k, i) {
				n += len(r.b)
			}
		}
		names := make([]string, len(word))
		for i, k := range word {
			names[i] = c16Names[k]
		}
		for cut := -1; cut < n; cut++ {
			var on func(uint64)
			if cut == -1 {
				on = func(h uint64) { states[h] = struct{}{} }
			}
			msg, class := c16Check(word, cut, on)
			ne := int64(8)
			if cut < 0 {
				ne = int64(len(c16Configs))
			}
			w.Eval(ne)
			w.Trace(ne)
			w.Transition(int64(len(word)))
			w.Distinct(vx.Hash(fmt.Sprint(word, cut)))
			if msg != "" {
				cp := append([]int{}, word...)
				w.Violation(class, fmt.Sprintf("word [%s] cut %d: %s", strings.Join(names, " "), cut, msg), c16Replay{Word: cp, Names: strings.Join(names, " "), Cut: cut})
			}
		}
		w.Fam(fmt.Sprintf("words-len%d", len(word)), 1)
		return true
	})
	for h := range states {
		w.State(h)
	}
	if w.Shard == 0 {
		w.Sample(map[string]interface{}{"word": "KU1 UA UNDEF", "cuts": "every offset", "options": "all 8 combinations"})
	}
}

// refCounts: the unknown-item counters a well-formed stream must produce, derived from the independent parser:
// one count per data record of an unknown message, one per (known message, unlisted field number) and data record.
func refCounts(stream []byte) (map[int]int, map[uint32]int, error) {
	p, _, err := fitmodel.ParseOne(stream)
	if err != nil {
		return nil, nil, err
	}
	pr := prof()
	M, F := map[int]int{}, map[uint32]int{}
	for _, r := range p.Recs {
		g := r.Def.Global
		if !pr.isKnown[g] {
			M[int(g)]++
			continue
		}
		seen := map[byte]bool{}
		for _, fd := range r.Def.Fields {
			if g == 20 && fd.Num == 8 {
				// compressed_speed_distance feeds the package-level distance accumulator: repeated decodes in one
				// process differ whatever the options are (listed finding of C08/C18), so such files say nothing here
				return nil, nil, errOutsideModel
			}
			if _, ok := pr.fields[g][fd.Num]; !ok {
				if seen[fd.Num] {
					return nil, nil, errOutsideModel // the same unlisted number twice in one definition
				}
				seen[fd.Num] = true
				F[uint32(g)<<8|uint32(fd.Num)]++
			}
		}
	}
	return M, F, nil
}

// c16Generic: any well-formed stream through all 8 option sets; content equal to the option-free run and to the
// reference decoder, counters equal to refCounts.
func c16Generic(stream []byte) (string, string) {
	M, F, err := refCounts(stream)
	if err != nil {
		return "", ""
	}
	if msg := mixCheck(stream); msg != "" {
		return "option-free decode disagrees with the reference decoder: " + msg, "base"
	}
	base := c16Decode(stream, 0)
	if base.errText != "" || !base.hasFile {
		return "", "" // rejected by both (mixCheck agreed)
	}
	if base.uf != nil || base.um != nil {
		return "unknown-item lists are populated although no option was given", "lists-without-option"
	}
	for cfg := 1; cfg < len(c16Configs); cfg++ {
		o := c16Decode(stream, cfg)
		on := optName(cfg)
		opt := cfgBits(cfg)
		if o.panicked != "" {
			return fmt.Sprintf("options %s: Decode panics: %s", on, o.panicked), "panic"
		}
		if o.content != base.content || o.hasFile != base.hasFile {
			return fmt.Sprintf("options %s change the decoded content: %s vs %s", on, trunc(o.content, 200), trunc(base.content, 200)), "options-change-content"
		}
		if o.errText != base.errText {
			return fmt.Sprintf("options %s change the error: %q vs %q", on, o.errText, base.errText), "options-change-error"
		}
		if o.consumed != base.consumed {
			return fmt.Sprintf("options %s change the bytes consumed: %d vs %d", on, o.consumed, base.consumed), "options-change-consumed"
		}
		if (opt&2 == 0 && o.uf != nil) || (opt&4 == 0 && o.um != nil) {
			return fmt.Sprintf("options %s: a list is populated without its option", on), "lists-without-option"
		}
		if opt&4 != 0 {
			got := map[int]int{}
			for i, u := range o.um {
				if i > 0 && !(o.um[i-1].MesgNum < u.MesgNum) {
					return fmt.Sprintf("options %s: UnknownMessages not strictly sorted: %v", on, o.um), "unsorted"
				}
				got[int(u.MesgNum)] = u.Count
			}
			if o.um == nil || !reflect.DeepEqual(got, M) {
				return fmt.Sprintf("options %s: UnknownMessages %v, model %v", on, got, M), "unknown-message-count"
			}
		}
		if opt&2 != 0 {
			got := map[uint32]int{}
			for i, u := range o.uf {
				if i > 0 {
					p := o.uf[i-1]
					if !(p.MesgNum < u.MesgNum || (p.MesgNum == u.MesgNum && p.FieldNum < u.FieldNum)) {
						return fmt.Sprintf("options %s: UnknownFields not strictly sorted: %v", on, o.uf), "unsorted"
					}
				}
				got[uint32(u.MesgNum)<<8|uint32(u.FieldNum)] = u.Count
			}
			if o.uf == nil || !reflect.DeepEqual(got, F) {
				return fmt.Sprintf("options %s: UnknownFields %v, model %v", on, got, F), "unknown-field-count"
			}
		}
	}
	return "", ""
}

// c16GenericFamilies: the mix words, the shared streams and the device-file corpus.
func c16GenericFamilies(w *vx.W) {
	report := func(name string, stream []byte, msg, class string) {
		w.Violation("generic/"+class, name+": "+msg, c16Replay{Names: name, Hex: vx.Hex(stream), Generic: true})
	}
	alpha := mixAlphabet()
	maxLen := 2
	if !w.Quick() {
		maxLen = 3
	}
	ops := make([]mixOp, 0, 8)
	seqWords(len(alpha), maxLen, w.Mine, func(word []int) bool {
		ops = ops[:0]
		for _, a := range word {
			ops = append(ops, alpha[a])
		}
		stream, full, ok := mixStream(ops, true)
		if !ok {
			return true
		}
		w.Eval(int64(len(c16Configs)))
		w.Trace(int64(len(c16Configs)))
		w.Fam("mix-words-all-options", 1)
		w.Distinct(vx.HashB(stream))
		if msg, class := c16Generic(stream); msg != "" {
			report("mix word ["+mixWordString(full)+"]", stream, msg, class)
		}
		return true
	})
	// long runs (the counters and the logger after thousands of records): units of the mix family with unknown messages,
	// unknown fields and developer data, repeated N times, under every option configuration
	{
		ns := []int{256, 257, 4097}
		if !w.Quick() {
			ns = []int{255, 256, 257, 4095, 4096, 4097, 65535, 65536, 65537}
		}
		var li int64
		for _, k := range []int{0, 1, 2, 3} {
			for _, a := range []int{3, 7, 14, 0} {
				for _, n := range append(append([]int{}, ns...), 65537) {
					if n == 65537 && (w.Quick() && !(k == 1 && a == 7 || k == 0 && a == 3 || k == 3 && a == 14)) {
						continue
					}
					li++
					if !w.Mine(li) {
						continue
					}
					l := longRun{k, a, 7, n}
					stream, _, ok := mixStream(l.ops(), true)
					if !ok {
						continue
					}
					w.Eval(int64(len(c16Configs)))
					w.Trace(int64(len(c16Configs)))
					w.Fam("long-runs-all-options", 1)
					if msg, class := c16Generic(stream); msg != "" {
						w.Violation("generic/"+class, "long run "+l.String()+": "+msg, c16Replay{Names: "long run " + l.String(), Long: &l, Generic: true})
					}
				}
			}
		}
	}
	// all 16 local message types: an unknown message left defined on local l when the stream ends (two records), and a
	// known message with an unlisted field on local l2 (same local = redefinition), for every pair (l, l2)
	for l := 0; l < 16; l++ {
		for l2 := 0; l2 < 16; l2++ {
			if !w.Mine(int64(l*16 + l2)) {
				continue
			}
			parts := fitmodel.FileIdRecords(byte((l+5)%16), 4)
			if (l+5)%16 == l || (l+5)%16 == l2 {
				parts = fitmodel.FileIdRecords(byte((l+9)%16), 4)
			}
			du := fitmodel.Def{Local: byte(l), Global: 0xFF00 + uint16(l), Fields: []fitmodel.FieldDef{{Num: 1, Size: 2, Base: fitmodel.Uint16}}}
			dk := fitmodel.Def{Local: byte(l2), Global: 20, Fields: []fitmodel.FieldDef{{Num: 3, Size: 1, Base: fitmodel.Uint8}, {Num: 210, Size: 1, Base: fitmodel.Uint8}}}
			for order := 0; order < 2; order++ {
				recs := append([][]byte{}, parts...)
				if order == 0 {
					recs = append(recs, dk.Bytes(), fitmodel.Data(byte(l2), []byte{61, 1}), du.Bytes(), fitmodel.Data(byte(l), []byte{1, 0}), fitmodel.Data(byte(l), []byte{2, 0}))
				} else {
					recs = append(recs, du.Bytes(), fitmodel.Data(byte(l), []byte{1, 0}), fitmodel.Data(byte(l), []byte{2, 0}), dk.Bytes(), fitmodel.Data(byte(l2), []byte{61, 1}))
				}
				stream := fitmodel.File(fitmodel.DefaultHeader, recs...)
				w.Eval(int64(len(c16Configs)))
				w.Trace(int64(len(c16Configs)))
				w.Fam("all-16-local-types", 1)
				if msg, class := c16Generic(stream); msg != "" {
					report(fmt.Sprintf("unknown message on local %d, known message with an unlisted field on local %d (order %d)", l, l2, order), stream, msg, class)
				}
			}
		}
	}
	var items []namedStream
	for _, s := range []namedStream{sMin12, sAct3, sAct3BE, sSet, sBig, sDev, sMonState, sZero, s4096} {
		items = append(items, s)
	}
	for _, p := range corpusFiles() {
		if b, err := os.ReadFile(p); err == nil && (!w.Quick() || len(b) <= 400000) {
			items = append(items, namedStream{Name: p, B: b})
		}
	}
	for i, it := range items {
		if !w.Mine(int64(i)) {
			continue
		}
		w.Eval(int64(len(c16Configs)))
		w.Trace(int64(len(c16Configs)))
		w.Fam("files-all-options", 1)
		if msg, class := c16Generic(it.B); msg != "" {
			report(it.Name, it.B, msg, class)
		}
	}
}

// ---- failure right after the file_id record: a file type the library rejects (invalid, unassigned, manufacturer
// range) or accepts, with an unlisted field inside file_id. Whenever a File is returned and an option is set, its
// list is there and counts what was completed (the file_id record), whatever happens next.
func c16AfterFileId(w *vx.W) {
	var idx int64
	for _, ft := range []byte{4, 0xFF, 200, 0xF7, 0xFE, 40, 0} {
		for o := 0; o < 2; o++ {
			idx++
			if !w.Mine(idx) {
				continue
			}
			d := fitmodel.Def{Local: 0, Big: o == 1, Global: 0, Fields: []fitmodel.FieldDef{{Num: 0, Size: 1, Base: fitmodel.Enum}, {Num: 200, Size: 1, Base: fitmodel.Uint8}}}
			u := fitmodel.Def{Local: 1, Global: 0xFF00, Fields: []fitmodel.FieldDef{{Num: 1, Size: 1, Base: fitmodel.Uint8}}}
			stream := fitmodel.File(fitmodel.DefaultHeader, d.Bytes(), fitmodel.Data(0, []byte{ft, 7}), u.Bytes(), fitmodel.Data(1, []byte{1}), recordDef(2, false).Bytes(), recordData(2, false, 1000000000, 60, 5))
			w.Eval(int64(len(c16Configs)))
			w.Trace(int64(len(c16Configs)))
			w.Fam("failure-after-file_id", 1)
			if msg := c16AfterFileIdCheck(stream); msg != "" {
				w.Violation("after-file_id", fmt.Sprintf("file type byte %d (big-endian=%v): %s", ft, o == 1, msg), c16Replay{Names: fmt.Sprintf("file type %d", ft), Hex: vx.Hex(stream), Generic: true, AfterFileId: true})
			}
		}
	}
}

// c16AfterFileIdCheck: a stream = file_id with unlisted field 200, one record of unknown message 0xFF00, one record.
func c16AfterFileIdCheck(stream []byte) string {
	base := c16Decode(stream, 0)
	for cfg := 1; cfg < len(c16Configs); cfg++ {
		ob := c16Decode(stream, cfg)
		bits := cfgBits(cfg)
		msg := ""
		switch {
		case ob.panicked != "":
			msg = "panic: " + ob.panicked
		case ob.errText != base.errText || ob.hasFile != base.hasFile || ob.content != base.content || ob.consumed != base.consumed:
			msg = fmt.Sprintf("options change the outcome: err %q vs %q, File %v vs %v", ob.errText, base.errText, ob.hasFile, base.hasFile)
		case ob.hasFile && bits&2 != 0:
			n := -1
			for _, x := range ob.uf {
				if x.MesgNum == 0 && x.FieldNum == 200 {
					n = x.Count
				}
			}
			if ob.uf == nil || n != 1 {
				msg = fmt.Sprintf("UnknownFields = %v: the completed file_id record carried unlisted field 200 once", ob.uf)
			}
		}
		if msg == "" && ob.hasFile && bits&4 != 0 {
			want := 0
			if base.errText == "" {
				want = 1
			}
			got := 0
			for _, x := range ob.um {
				if x.MesgNum == 0xFF00 {
					got = x.Count
				}
			}
			if ob.um == nil || got != want {
				msg = fmt.Sprintf("UnknownMessages = %v: %d record(s) of message 0xFF00 were completed", ob.um, want)
			}
		}
		if msg != "" {
			return "options " + optName(cfg) + ": " + msg
		}
	}
	return ""
}

// ---- chains: DecodeChained with every option configuration over ordered pairs of mix-family files; the lists of
// each returned File must be the counters of that member alone (nothing carried across a file boundary), the content
// the same as without options.
func c16Chains(w *vx.W) {
	alpha := mixAlphabet()
	type word struct {
		name string
		b    []byte
		M    map[int]int
		F    map[uint32]int
	}
	var words []word
	ml := 1
	if !w.Quick() {
		ml = 2
	}
	add := func(ops []mixOp) {
		st, full, ok := mixStream(ops, true)
		if !ok {
			return
		}
		M, F, err := refCounts(st)
		if err != nil {
			return
		}
		words = append(words, word{mixWordString(full), st, M, F})
	}
	add(nil)
	seqWords(len(alpha), ml, func(int64) bool { return true }, func(wd []int) bool {
		var ops []mixOp
		for _, a := range wd {
			ops = append(ops, alpha[a])
		}
		add(ops)
		return true
	})
	var idx int64
	for _, a := range words {
		for _, b := range words {
			idx++
			if !w.Mine(idx) {
				continue
			}
			if w.Expired("chains") {
				return
			}
			members := []word{a, b}
			data := fitmodel.Concat(a.b, b.b)
			base := safeDecodeChained(bytes.NewReader(data))
			name := "[" + a.name + "] + [" + b.name + "]"
			rep := c16Replay{Names: name, Hex: vx.Hex(data), Generic: true, Chain: []int{len(a.b), len(b.b)}}
			w.Fam("chains-all-options", 1)
			if base.Err != nil || base.Panic != "" || len(base.Files) != 2 {
				continue // C10's subject
			}
			for cfg := 1; cfg < len(c16Configs); cfg++ {
				if msg, class := c16ChainCheck(data, []int{len(a.b), len(b.b)}, cfg, base.Files, [](map[int]int){members[0].M, members[1].M}, [](map[uint32]int){members[0].F, members[1].F}); msg != "" {
					w.Violation("chain/"+class, name+": "+msg, rep)
					break
				}
				w.Eval(1)
				w.Trace(1)
			}
		}
	}
}

func c16ChainCheck(data []byte, lens []int, cfg int, base []*fit.File, Ms []map[int]int, Fs []map[uint32]int) (string, string) {
	var opts []fit.DecodeOption
	for _, o := range c16Configs[cfg] {
		switch o {
		case 1:
			opts = append(opts, fit.WithLogger(&nullLogger{}))
		case 2:
			opts = append(opts, fit.WithUnknownFields())
		case 4:
			opts = append(opts, fit.WithUnknownMessages())
		}
	}
	on := optName(cfg)
	bits := cfgBits(cfg)
	res := safeDecodeChained(bytes.NewReader(data), opts...)
	if res.Panic != "" {
		return fmt.Sprintf("options %s: DecodeChained panics: %s", on, res.Panic), "panic"
	}
	if res.Err != nil || len(res.Files) != len(base) {
		return fmt.Sprintf("options %s: DecodeChained returns %d files, err=%v; without options %d files", on, len(res.Files), res.Err, len(base)), "options-change-error"
	}
	for i, f := range res.Files {
		if dumpFileContent(f) != dumpFileContent(base[i]) {
			return fmt.Sprintf("options %s change the content of member %d", on, i), "options-change-content"
		}
		if (bits&2 == 0 && f.UnknownFields != nil) || (bits&4 == 0 && f.UnknownMessages != nil) {
			return fmt.Sprintf("options %s: member %d has a list without its option", on, i), "lists-without-option"
		}
		if bits&4 != 0 {
			got := map[int]int{}
			for _, u := range f.UnknownMessages {
				got[int(u.MesgNum)] = u.Count
			}
			if f.UnknownMessages == nil || !reflect.DeepEqual(got, Ms[i]) {
				return fmt.Sprintf("options %s: member %d UnknownMessages %v, the member alone has %v", on, i, got, Ms[i]), "unknown-message-count"
			}
		}
		if bits&2 != 0 {
			got := map[uint32]int{}
			for _, u := range f.UnknownFields {
				got[uint32(u.MesgNum)<<8|uint32(u.FieldNum)] = u.Count
			}
			if f.UnknownFields == nil || !reflect.DeepEqual(got, Fs[i]) {
				return fmt.Sprintf("options %s: member %d UnknownFields %v, the member alone has %v", on, i, got, Fs[i]), "unknown-field-count"
			}
		}
	}
	return "", ""
}
