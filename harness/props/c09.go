package props

import (
	"encoding/json"
	"fmt"
	"io"
	"os"
	"os/exec"
	"path/filepath"
	"regexp"
	"runtime"
	"sort"
	"strconv"
	"strings"
	"sync"

	"verif/fitmodel"
	"verif/vx"
)

// C09: concurrent use on independent inputs is race-free and equals sequential use.

type c09Replay struct {
	Ops      []string `json:"thread_ops"`
	OpIdx    [][]int  `json:"thread_op_indexes"`
	Schedule []int    `json:"schedule,omitempty"`
	Trace    []string `json:"trace,omitempty"`
	Race     string   `json:"race_report,omitempty"`
}

// ---- record-boundary reader with scheduling points ----

type streamInfo struct {
	bounds []int          // sorted offsets at which a read must stop
	lossy  map[int]uint32 // chunk start offset -> 12-bit value fed to the distance accumulator
	isCSD  map[int]bool
}

var (
	streamInfoMu sync.Mutex
	streamInfos  = map[string]*streamInfo{}
)

func infoOf(b []byte) *streamInfo {
	streamInfoMu.Lock()
	defer streamInfoMu.Unlock()
	if si, ok := streamInfos[string(b)]; ok {
		return si
	}
	si := &streamInfo{lossy: map[int]uint32{}, isCSD: map[int]bool{}}
	set := map[int]bool{}
	off := 0
	for off < len(b) {
		p, n, err := fitmodel.ParseOne(b[off:])
		hs := int(b[off])
		if err != nil && (p == nil || len(p.Recs)+len(p.Defs) == 0) {
			// not parseable (corrupt): cut every 16 bytes
			for o := off; o < len(b); o += 16 {
				set[o] = true
			}
			break
		}
		set[off+1] = true
		set[off+hs] = true
		if p != nil {
			for _, d := range p.Defs {
				set[off+d.Offset] = true
			}
			for _, r := range p.Recs {
				set[off+r.Offset] = true
				if r.Def.Global == 20 {
					if c, ok := r.Fields[8]; ok && len(c) == 3 && !(c[0] == 0xFF && c[1] == 0xFF && c[2] == 0xFF) {
						si.isCSD[off+r.Offset] = true
						si.lossy[off+r.Offset] = uint32(c[1]>>4) | uint32(byte(c[2]<<4))
					}
				}
			}
		}
		if err != nil && n == 0 {
			for o := off; o < len(b); o += 16 {
				set[o] = true
			}
			break
		}
		set[off+n-2] = true
		set[off+n] = true
		off += n
	}
	for o := range set {
		si.bounds = append(si.bounds, o)
	}
	sort.Ints(si.bounds)
	streamInfos[string(b)] = si
	return si
}

var c09Shadow accum // shadow of the package-level distance accumulator over this worker's whole history

type schedReader struct {
	s     *sched
	id    int
	b     []byte
	pos   int
	info  *streamInfo
	pred  *[]uint32
	fine  bool // one byte per Read: scheduling points inside a record's parsing
	chunk int  // start offset of the chunk being delivered
}

func (r *schedReader) Read(p []byte) (int, error) {
	if len(p) == 0 {
		return 0, nil
	}
	if r.s != nil {
		r.s.Point(r.id, fmt.Sprintf("read@%d", r.pos))
	}
	if r.pos >= len(r.b) {
		return 0, io.EOF
	}
	end := len(r.b)
	i := sort.SearchInts(r.info.bounds, r.pos+1)
	if i < len(r.info.bounds) {
		end = r.info.bounds[i]
	}
	n := end - r.pos
	if n > len(p) {
		n = len(p)
	}
	if r.fine {
		n = 1
	}
	if i > 0 && r.info.bounds[i-1] == r.pos {
		r.chunk = r.pos
	} else if i == 0 {
		r.chunk = 0
	}
	// the record is parsed and added after its last byte was delivered and before the next Read
	if r.pos+n == end && r.info.isCSD[r.chunk] && r.pred != nil {
		*r.pred = append(*r.pred, c09Shadow.add(r.info.lossy[r.chunk], 0xFFF))
	}
	copy(p, r.b[r.pos:r.pos+n])
	r.pos += n
	return n, nil
}

type schedWriter struct {
	s  *sched
	id int
	w  io.Writer
}

func (w *schedWriter) Write(p []byte) (int, error) {
	if w.s != nil {
		w.s.Point(w.id, "write")
	}
	return w.w.Write(p)
}

var c09Fine bool // scheduling points at every byte (set per scenario, single-threaded controller)

func c09Env(s *sched, id int, pred *[]uint32) opEnv {
	fine := c09Fine
	return opEnv{
		Reader: func(b []byte) io.Reader {
			return &schedReader{s: s, id: id, b: b, info: infoOf(b), pred: pred, fine: fine}
		},
		RawReader: func(b []byte) io.Reader { return &schedReader{s: s, id: id, b: b, info: infoOf(b), fine: fine} },
		Writer:    func(w io.Writer) io.Writer { return &schedWriter{s: s, id: id, w: w} },
	}
}

func init() {
	vx.Register(&vx.Prop{
		ID:    "C09",
		Level: "model_checking",
		Rule: "schedule exploration with a cooperative scheduler (one goroutine runs at a time; scheduling points = every Read / Write the library performs on the harness-owned readers and writers, with reads cut at record boundaries so that every record's add to the File is its own step; the decoding calls are explored again with one-byte reads, i.e. scheduling points inside a record's parsing): 2 threads x 1 call each for every unordered pair of the 39 pool calls (the five longest calls take part in the histories and the race pass only) with preemption bound 2 (quick) / 4 (thorough), the smallest pairs without bound; 3 threads and 2 calls per thread on selected calls with preemption bound 2 (thorough 3). Oracle: every thread's result equals its solo result; no deadlock; replay of a schedule reproduces the same trace. " +
			"Then a separate free-running pass of the same bodies under the Go race detector (8 goroutines, start barrier, repeated rounds); every report is classified by the functions on its stacks. states = distinct global interleavings (traces); transitions = scheduling decisions; traces = executions",
		Assumptions: []string{"sequentially consistent interleavings at Read/Write granularity; finer-grained interleavings and memory-model effects are left to the free-running race-detector pass, which samples", "accumulated distances are attributed to the listed finding only when the shadow accumulator, fed in the explored interleaving order, predicts them exactly"},
		Run:         runC09,
		Sub:         c09Sub,
		QuickBudget: 240,
		Replay: func(raw json.RawMessage) (string, error) {
			var r c09Replay
			json.Unmarshal(raw, &r)
			if len(r.OpIdx) == 0 {
				return "race report: " + r.Race, nil
			}
			msg, _, _ := c09Execute(r.OpIdx, r.Schedule)
			if msg != "" {
				return "", fmt.Errorf("%s", msg)
			}
			return "schedule gives solo results", nil
		},
	})
}

var (
	c09SoloOnce sync.Once
	c09Solo     []opResult
)

func c09SoloResults() []opResult {
	c09SoloOnce.Do(func() {
		pool := opPool()
		for _, op := range pool {
			var pred []uint32
			c09Solo = append(c09Solo, op.Run(c09Env(nil, 0, &pred)))
		}
	})
	return c09Solo
}

// c09Bodies builds thread bodies for threadOps (op indexes per thread).
func c09Bodies(threadOps [][]int, results [][]opResult, preds [][][]uint32) []func(s *sched, id int) {
	pool := opPool()
	bodies := make([]func(s *sched, id int), len(threadOps))
	for t := range threadOps {
		t := t
		results[t] = make([]opResult, len(threadOps[t]))
		preds[t] = make([][]uint32, len(threadOps[t]))
		bodies[t] = func(s *sched, id int) {
			c09ActiveSched = s
			for k, oi := range threadOps[t] {
				results[t][k] = pool[oi].Run(c09Env(s, id, &preds[t][k]))
			}
		}
	}
	return bodies
}

// c09Compare checks one finished execution; returns violation, known message.
func c09Compare(threadOps [][]int, results [][]opResult, preds [][][]uint32) (viol, known string) {
	pool := opPool()
	solo := c09SoloResults()
	for t := range threadOps {
		for k, oi := range threadOps[t] {
			got, want := results[t][k], solo[oi]
			if got.Text != want.Text {
				return fmt.Sprintf("thread %d %s differs from its solo result: %s", t, pool[oi].Name, diffAt(got.Text, want.Text)), ""
			}
			if fmt.Sprint(got.Dist) != fmt.Sprint(want.Dist) {
				p := preds[t][k]
				if len(got.Dist) <= len(p) && fmt.Sprint(got.Dist) == fmt.Sprint(p[:len(got.Dist)]) {
					known = fmt.Sprintf("thread %d %s: accumulated distances %v instead of %v (package-level accumulator shared between goroutines)", t, pool[oi].Name, got.Dist, want.Dist)
				} else {
					return fmt.Sprintf("thread %d %s: distances %v, solo %v, shadow accumulator predicts %v", t, pool[oi].Name, got.Dist, want.Dist, p), ""
				}
			}
		}
	}
	return "", known
}

// c09Execute runs one schedule (for replay).
func c09Execute(threadOps [][]int, schedule []int) (string, string, *schedResult) {
	results := make([][]opResult, len(threadOps))
	preds := make([][][]uint32, len(threadOps))
	r, err := schedRun(c09Bodies(threadOps, results, preds), schedule)
	if err != nil {
		return "harness: " + err.Error(), "", nil
	}
	v, k := c09Compare(threadOps, results, preds)
	return v, k, r
}

func runC09(w *vx.W) {
	runtime.GOMAXPROCS(1) // exactly one goroutine runs at a time anyway; avoids cross-P hand-off cost
	pool := opPool()
	n := len(pool)
	c09SoloResults()
	traces := map[uint64]struct{}{}
	opNames := func(threadOps [][]int) []string {
		var s []string
		for _, t := range threadOps {
			var ns []string
			for _, o := range t {
				ns = append(ns, pool[o].Name)
			}
			s = append(s, strings.Join(ns, " ; "))
		}
		return s
	}
	explore := func(threadOps [][]int, bound int, fam string) {
		results := make([][]opResult, len(threadOps))
		preds := make([][][]uint32, len(threadOps))
		first := true
		execs, capped, err := schedExplore(func() []func(*sched, int) {
			return c09Bodies(threadOps, results, preds)
		}, bound, 200000, func(r *schedResult) {
			w.Eval(1)
			w.Trace(1)
			w.Transition(int64(len(r.points)))
			h := vx.Hash(fmt.Sprint(threadOps) + strings.Join(r.trace, ","))
			traces[h] = struct{}{}
			w.Distinct(h)
			rep := c09Replay{Ops: opNames(threadOps), OpIdx: threadOps, Schedule: append([]int{}, r.choices...), Trace: r.trace}
			if r.deadlock {
				w.Violation("deadlock", fmt.Sprintf("threads %v: no enabled thread", opNames(threadOps)), rep)
				return
			}
			v, k := c09Compare(threadOps, results, preds)
			if v != "" {
				// replay determinism before believing it
				v2, _, r2 := c09Execute(threadOps, r.choices)
				if r2 == nil || strings.Join(r2.trace, ",") != strings.Join(r.trace, ",") {
					w.HarnessError("schedule %v of %v does not replay deterministically", r.choices, opNames(threadOps))
				}
				_ = v2
				w.Violation("concurrent-result-differs", fmt.Sprintf("threads %v under schedule %v: %s", opNames(threadOps), r.choices, v), rep)
			} else if k != "" {
				w.Known("accumulators-package-level", fmt.Sprintf("threads %v under schedule %v: %s", opNames(threadOps), r.choices, k), rep)
			}
			if first && w.Shard == 0 && len(threadOps) == 2 && threadOps[0][0] == 0 && threadOps[1][0] == 7 {
				first = false
				w.Sample(map[string]interface{}{"threads": opNames(threadOps), "schedule": r.choices, "trace": r.trace})
			}
		})
		if err != nil {
			w.HarnessError("explore %v: %v", opNames(threadOps), err)
		}
		if capped {
			w.Cap(fmt.Sprintf("execution cap reached for %v after %d executions", opNames(threadOps), execs))
		}
		w.Fam(fam, 1)
		w.Fam(fam+":executions", execs)
	}
	var k int64
	pairBound := 2
	if !w.Quick() {
		pairBound = 4
	}
	// the two smallest calls are explored without any bound
	if w.Shard == 0 {
		explore([][]int{{6}, {11}}, -1, "pairs-unbounded")
		explore([][]int{{11}, {11}}, -1, "pairs-unbounded")
	}
	// all ordered pairs
	// (unordered pairs: the exploration covers every interleaving, so {a},{b} and {b},{a} are the same scenario)
	for a := 0; a < n; a++ {
		for b := a; b < n; b++ {
			if pool[a].Long || pool[b].Long {
				continue
			}
			if w.Quick() && (a >= 16 || b >= 16) {
				// the long fully-populated streams: in the quick tier only with themselves, each other and two short calls
				ok := (a >= 16 && b >= 16) || a == 0 || a == 7
				if !ok {
					continue
				}
			}
			k++
			if !w.Mine(k) {
				continue
			}
			if w.Expired("pairs") {
				break
			}
			explore([][]int{{a}, {b}}, pairBound, fmt.Sprintf("pairs-bound%d", pairBound))
		}
	}
	// 3 threads, and 2 calls per thread, preemption bounded
	bound := 2
	if !w.Quick() {
		bound = 3
	}
	sel := []int{0, 1, 5, 7, 9, 12}
	for _, a := range sel {
		for _, b := range sel {
			for _, c := range sel {
				k++
				if !w.Mine(k) {
					continue
				}
				if c > b && w.Quick() {
					continue
				}
				if w.Expired("triples") {
					break
				}
				explore([][]int{{a}, {b}, {c}}, bound, fmt.Sprintf("3-threads-bound%d", bound))
			}
			k++
			if w.Mine(k) && !w.Expired("two-calls") {
				explore([][]int{{a, b}, {b, a}}, bound, fmt.Sprintf("2x2-calls-bound%d", bound))
			}
		}
	}
	// byte-granularity scheduling points (inside a record's parsing) for the decoding calls
	fineBound := 1
	if !w.Quick() {
		fineBound = 2
	}
	c09Fine = true
	for _, a := range []int{0, 1, 3, 4, 5, 12} {
		for _, b := range []int{0, 1, 2, 5, 12} {
			k++
			if !w.Mine(k) {
				continue
			}
			if w.Expired("fine-grained pairs") {
				break
			}
			explore([][]int{{a}, {b}}, fineBound, fmt.Sprintf("pairs-byte-granularity-bound%d", fineBound))
		}
	}
	c09Fine = false
	c09InstrumentedPass(w, explore)
	for h := range traces {
		w.State(h)
	}

	// free-running race-detector pass (same bodies, real parallelism)
	raceBin := os.Getenv("VX_RACE_BIN")
	if raceBin == "" {
		w.Cap("race-detector binary not available (VX_RACE_BIN unset): free-running pass skipped")
		return
	}
	rounds := 12
	if !w.Quick() {
		rounds = 300
	}
	k = 0
	for a := 0; a < n; a++ {
		for b := a; b < n; b++ {
			k++
			if !w.Mine(k) {
				continue
			}
			rnds := rounds
			if pool[a].Huge || pool[b].Huge {
				// the 30000-record call: with itself and with the first pool call, two rounds
				if !(a == b || a == 0) {
					continue
				}
				rnds = 2
			}
			reports, err := c09RacePass(raceBin, a, b, rnds)
			if err != nil {
				w.HarnessError("race pass %d,%d: %v", a, b, err)
			}
			w.Eval(int64(rounds))
			w.Fam("race-pass-scenarios", 1)
			for _, rp := range reports {
				if strings.HasPrefix(rp, "CRASH ") {
					line := strings.SplitN(rp, "\n", 2)[0]
					w.Violation("crash-under-concurrency", fmt.Sprintf("%s || %s: process died: %s", pool[a].Name, pool[b].Name, line), c09Replay{Ops: []string{pool[a].Name, pool[b].Name}, Race: rp})
					continue
				}
				sig := raceSignature(rp)
				rep := c09Replay{Ops: []string{pool[a].Name, pool[b].Name}, Race: trunc(rp, 3000)}
				if raceIsAccumulator(sig) {
					w.Known("race/accumulators-package-level", fmt.Sprintf("%s || %s: data race %s", pool[a].Name, pool[b].Name, sig), rep)
				} else {
					w.Violation("data-race/"+sig, fmt.Sprintf("%s || %s: data race in %s", pool[a].Name, pool[b].Name, sig), rep)
				}
			}
		}
	}
}

// ---- free-running pass (runs inside the -race build) ----

func c09Sub(args []string) {
	if len(args) >= 4 && args[0] == "instr" {
		a, _ := strconv.Atoi(args[1])
		b, _ := strconv.Atoi(args[2])
		bound, _ := strconv.Atoi(args[3])
		c09InstrSub(a, b, bound)
		return
	}
	if len(args) < 4 || args[0] != "race" {
		os.Exit(2)
	}
	a, _ := strconv.Atoi(args[1])
	b, _ := strconv.Atoi(args[2])
	rounds, _ := strconv.Atoi(args[3])
	pool := opPool()
	const G = 8
	for r := 0; r < rounds; r++ {
		var wg sync.WaitGroup
		start := make(chan struct{})
		for g := 0; g < G; g++ {
			wg.Add(1)
			go func(g int) {
				defer wg.Done()
				<-start
				op := pool[a]
				if g%2 == 1 {
					op = pool[b]
				}
				op.Run(c09Env(nil, 0, nil)) // no shadow bookkeeping here: the harness itself must be race free
			}(g)
		}
		close(start)
		wg.Wait()
	}
}

func c09RacePass(bin string, a, b, rounds int) ([]string, error) {
	dir, err := os.MkdirTemp(os.Getenv("VX_SCRATCH"), "race-")
	if err != nil {
		return nil, err
	}
	defer os.RemoveAll(dir)
	cmd := exec.Command(bin, "C09", "--sub", "race", strconv.Itoa(a), strconv.Itoa(b), strconv.Itoa(rounds))
	cmd.Env = append(os.Environ(), "GORACE=halt_on_error=0 log_path="+filepath.Join(dir, "race")+" history_size=2", "VX_WORKER=", "TZ=UTC")
	out, err := cmd.CombinedOutput()
	if err != nil {
		if _, ok := err.(*exec.ExitError); !ok {
			return nil, fmt.Errorf("%v: %s", err, out)
		}
		// exit status 66 = races were reported; anything else is a failure
		if ee := err.(*exec.ExitError); ee.ExitCode() != 66 {
			// the process died: a fatal runtime error or panic under concurrent use is itself a finding
			o := string(out)
			if i := strings.Index(o, "fatal error:"); i >= 0 {
				return []string{"CRASH " + trunc(o[i:], 2500)}, nil
			}
			if i := strings.Index(o, "panic:"); i >= 0 {
				return []string{"CRASH " + trunc(o[i:], 2500)}, nil
			}
			return nil, fmt.Errorf("race binary failed: %v: %s", err, trunc(o, 1500))
		}
	}
	var reports []string
	files, _ := filepath.Glob(filepath.Join(dir, "race.*"))
	for _, f := range files {
		b, _ := os.ReadFile(f)
		for _, part := range strings.Split(string(b), "==================") {
			if strings.Contains(part, "DATA RACE") {
				reports = append(reports, part)
			}
		}
	}
	return reports, nil
}

// raceIsAccumulator: both conflicting accesses are made on behalf of (*RecordMsg).expandComponents, the only user
// of the three listed package-level accumulators (the signature skips the accumulator helper frames, so a new
// caller of the same helpers is NOT attributed to the finding).
func raceIsAccumulator(sig string) bool {
	if sig == "unattributed" {
		return false
	}
	for _, f := range strings.Split(sig, "+") {
		if f != "(*RecordMsg).expandComponents" {
			return false
		}
	}
	return true
}

var raceFuncRe = regexp.MustCompile(`(?m)^\s+github\.com/tormoder/fit\.(\S+?)\(\)\s*$`)

// raceSignature: the innermost fit functions of the two conflicting accesses.
func raceSignature(report string) string {
	var fns []string
	seen := map[string]bool{}
	for _, blk := range strings.Split(report, "\n\n") {
		if !(strings.Contains(blk, "by goroutine") && (strings.HasPrefix(strings.TrimSpace(blk), "Write at") || strings.HasPrefix(strings.TrimSpace(blk), "Read at") || strings.HasPrefix(strings.TrimSpace(blk), "Previous"))) {
			continue
		}
		// the first fit frame that is not one of the accumulator helpers (i.e. their caller)
		for _, m := range raceFuncRe.FindAllStringSubmatch(blk, -1) {
			f := m[1]
			if f == "(*uint32Accumulator).accumulate" || f == "uint32NewAccumulator" {
				continue
			}
			if !seen[f] {
				seen[f] = true
				fns = append(fns, f)
			}
			break
		}
	}
	sort.Strings(fns)
	if len(fns) == 0 {
		return "unattributed"
	}
	return strings.Join(fns, "+")
}

// ---- access-level scheduling points (vinstr overlay) ----

type vinstrPoints struct {
	Points []struct {
		ID    int      `json:"id"`
		File  string   `json:"file"`
		Line  int      `json:"line"`
		Func  string   `json:"func"`
		Vars  []string `json:"vars"`
		Write bool     `json:"write"`
	} `json:"points"`
	Mutable  map[string][]string `json:"mutable_package_variables"`
	SyncVars []string            `json:"sync_typed_variables"`
	Locks    bool                `json:"uses_locks_or_atomics"`
}

var c09ActiveSched *sched

// c09InstrumentedPass: with the overlay in place every access to a mutable package-level variable is a scheduling
// point. Each scenario is explored in a *fresh process* (lazily initialised shared state must be cold for the
// first execution). The scenarios avoid the calls that decode accumulating component fields (their package-level
// accumulators are the listed finding, established by the other passes), so any shared variable seen here is new.
func c09InstrumentedPass(w *vx.W, _ func(threadOps [][]int, bound int, fam string)) {
	if !c09Instrumented {
		w.Note("access-level scheduling points not available in this build (vinstr overlay missing): only Read/Write-level points were explored")
		return
	}
	meta := c09LoadPoints()
	if w.Shard == 0 {
		w.Extra("instrumentation", map[string]interface{}{"scheduling_points": len(meta.Points), "mutable_package_variables": meta.Mutable, "sync_typed": meta.SyncVars, "package_uses_locks_or_atomics": meta.Locks})
	}
	pool := opPool()
	safe := []int{2, 6, 7, 8, 9, 10, 11, 12, 13, 15, 18}
	// the calls added later (local-time twins, shared option value, header-truncated inputs, over-long strings, the
	// checksum package alone, the record-less activity): none of them touches the listed accumulators
	for i := 19; i < len(pool); i++ {
		if !pool[i].Long {
			safe = append(safe, i)
		}
	}
	bound := 2
	if !w.Quick() {
		bound = 3
	}
	var k int64
	for ai, a := range safe {
		for _, b := range safe[ai:] {
			k++
			if !w.Mine(k) {
				continue
			}
			if w.Expired("instrumented pairs") {
				return
			}
			out, err := vx.SubRun("C09", "instr", strconv.Itoa(a), strconv.Itoa(b), strconv.Itoa(bound))
			if err != nil {
				w.HarnessError("instrumented scenario %d,%d: %v", a, b, err)
			}
			var res c09InstrResult
			if err := json.Unmarshal(out, &res); err != nil {
				w.HarnessError("instrumented scenario %d,%d: bad output: %v", a, b, err)
			}
			w.Eval(res.Execs)
			w.Trace(res.Execs)
			w.Transition(res.Points)
			w.Fam(fmt.Sprintf("pairs-access-level-bound%d", bound), 1)
			w.Fam("access-level-points-hit", res.AccessPoints)
			if res.Diverged != "" {
				w.Cap(fmt.Sprintf("access-level exploration of [%s | %s] stopped after %d executions: control flow at the access points differs between executions in one process (%s)", pool[a].Name, pool[b].Name, res.Execs, res.Diverged))
			}
			for _, d := range res.Diffs {
				w.Violation("concurrent-result-differs", fmt.Sprintf("threads [%s | %s] (access-level scheduling) under schedule %v: %s", pool[a].Name, pool[b].Name, d.Schedule, d.Detail),
					c09Replay{Ops: []string{pool[a].Name, pool[b].Name}, OpIdx: [][]int{{a}, {b}}, Schedule: d.Schedule})
			}
			for v, sites := range res.Conflicts {
				d := fmt.Sprintf("%s || %s: package-level variable %s is written and accessed by both goroutines without synchronisation (sites %v)", pool[a].Name, pool[b].Name, v, sites)
				if meta.Locks {
					w.Note("access conflict on " + v + " not reported: the package uses locks/atomics that the access-level oracle does not model (left to the race-detector pass)")
					continue
				}
				if c09KnownRacyVars[v] {
					w.Known("race/accumulators-package-level", d, c09Replay{Race: d})
				} else {
					w.Violation("access-conflict/"+v, d, c09Replay{Race: d})
				}
			}
		}
	}
}

// the three package-level accumulators of the listed finding, by exact name (anything else is new)
var c09KnownRacyVars = map[string]bool{"accumuDistance": true, "accumuTotalCycles": true, "accumuAccumulatedPower": true}

type c09InstrResult struct {
	Execs        int64               `json:"execs"`
	Points       int64               `json:"points"`
	AccessPoints int64               `json:"access_points"`
	Conflicts    map[string][]string `json:"conflicts"`
	Diverged     string              `json:"diverged"`
	Diffs        []struct {
		Schedule []int  `json:"schedule"`
		Detail   string `json:"detail"`
	} `json:"diffs"`
}

func c09LoadPoints() vinstrPoints {
	var meta vinstrPoints
	if b, err := os.ReadFile(os.Getenv("VX_POINTS")); err == nil {
		json.Unmarshal(b, &meta)
	}
	return meta
}

// c09InstrSub explores one scenario in this (fresh) process with access-level scheduling points.
func c09InstrSub(a, b, bound int) {
	runtime.GOMAXPROCS(1)
	meta := c09LoadPoints()
	byID := map[int]int{}
	for i, p := range meta.Points {
		byID[p.ID] = i
	}
	isSync := map[string]bool{}
	for _, v := range meta.SyncVars {
		isSync[v] = true
	}
	access, writes, sites := map[string]map[int]bool{}, map[string]map[int]bool{}, map[string]map[string]bool{}
	var res c09InstrResult
	c09InstallPointHook(func(id int) {
		s := c09ActiveSched
		if s == nil {
			return
		}
		t := s.running
		label := "access#" + strconv.Itoa(id)
		if i, ok := byID[id]; ok {
			p := meta.Points[i]
			label = fmt.Sprintf("%s:%d", p.File, p.Line)
			for _, v := range p.Vars {
				if access[v] == nil {
					access[v], writes[v], sites[v] = map[int]bool{}, map[int]bool{}, map[string]bool{}
				}
				access[v][t] = true
				if p.Write {
					writes[v][t] = true
				}
				sites[v][label] = true
			}
		}
		res.AccessPoints++
		s.Point(t, label)
	})
	pool := opPool()
	threadOps := [][]int{{a}, {b}}
	results := make([][]opResult, 2)
	preds := make([][][]uint32, 2)
	distinct := []map[string][]int{{}, {}}
	_, _, err := schedExplore(func() []func(*sched, int) { return c09Bodies(threadOps, results, preds) }, bound, 50000, func(r *schedResult) {
		res.Execs++
		res.Points += int64(len(r.points))
		for t := 0; t < 2; t++ {
			key := results[t][0].Text + fmt.Sprint(results[t][0].Dist)
			if _, ok := distinct[t][key]; !ok {
				distinct[t][key] = append([]int{}, r.choices...)
			}
		}
	})
	c09InstallPointHook(nil)
	c09ActiveSched = nil
	if err != nil {
		// the library's control flow differed between two executions of the same schedule prefix: shared state
		// survived from one execution to the next (e.g. a lazily filled cache). Exploration of this scenario stops
		// here; what was observed so far is still reported.
		res.Diverged = err.Error()
	}
	// solo results afterwards (so that the exploration started from a cold process)
	for t, oi := range []int{a, b} {
		solo := pool[oi].Run(c09Env(nil, 0, nil))
		want := solo.Text + fmt.Sprint(solo.Dist)
		for got, schedule := range distinct[t] {
			if got != want {
				res.Diffs = append(res.Diffs, struct {
					Schedule []int  `json:"schedule"`
					Detail   string `json:"detail"`
				}{schedule, fmt.Sprintf("thread %d %s differs from its solo result: %s", t, pool[oi].Name, diffAt(got, want))})
			}
		}
	}
	res.Conflicts = map[string][]string{}
	for v, ths := range access {
		if isSync[v] || len(ths) < 2 || len(writes[v]) == 0 {
			continue
		}
		var ss []string
		for s := range sites[v] {
			ss = append(ss, s)
		}
		sort.Strings(ss)
		res.Conflicts[v] = ss
	}
	out, _ := json.Marshal(res)
	os.Stdout.Write(out)
}
