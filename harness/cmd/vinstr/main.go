// Command vinstr writes a build overlay that adds scheduling points to package fit (and dyncrc16): before
// every statement, inside a function body, that mentions a *mutable* package-level variable, a call
// `verifPoint(id)` is inserted. Nothing is written to the repository; the rewritten copies live in the output
// directory and are used through `go build -overlay`.
//
// usage: vinstr <repo> <outdir>   ->  <outdir>/overlay.json, <outdir>/points.json
//
// A package-level variable is treated as mutable if some function body assigns to it (directly or through an
// index / field / dereference chain), increments it, takes its address, or if its declared type or initialiser
// mentions a sync or map type, or if a method with a pointer receiver could mutate it (declared as a non-pointer
// struct value and used as a method receiver). Identifier resolution is per file (go/parser object resolution):
// an identifier that resolves to a local object is never a package-level variable; an unresolved identifier
// whose name is a package-level variable of the package is.
package main

import (
	"bytes"
	"encoding/json"
	"fmt"
	"go/ast"
	"go/parser"
	"go/printer"
	"go/token"
	"os"
	"path/filepath"
	"sort"
	"strings"
)

type point struct {
	ID    int      `json:"id"`
	File  string   `json:"file"`
	Line  int      `json:"line"`
	Func  string   `json:"func"`
	Vars  []string `json:"vars"`
	Write bool     `json:"write"`
}

type pkgInfo struct {
	dir     string
	files   map[string]*ast.File
	fset    *token.FileSet
	vars    map[string]*ast.ValueSpec // package-level variables
	mutable map[string]bool
}

func loadPkg(dir string) (*pkgInfo, error) {
	p := &pkgInfo{dir: dir, files: map[string]*ast.File{}, fset: token.NewFileSet(), vars: map[string]*ast.ValueSpec{}, mutable: map[string]bool{}}
	ents, err := os.ReadDir(dir)
	if err != nil {
		return nil, err
	}
	for _, e := range ents {
		n := e.Name()
		if e.IsDir() || !strings.HasSuffix(n, ".go") || strings.HasSuffix(n, "_test.go") {
			continue
		}
		src, err := os.ReadFile(filepath.Join(dir, n))
		if err != nil {
			return nil, err
		}
		if bytes.Contains(src, []byte("//go:build")) {
			continue // files behind build tags (fuzz, tools, verif hook) are left alone
		}
		f, err := parser.ParseFile(p.fset, filepath.Join(dir, n), src, parser.ParseComments)
		if err != nil {
			return nil, err
		}
		p.files[n] = f
		for _, d := range f.Decls {
			gd, ok := d.(*ast.GenDecl)
			if !ok || gd.Tok != token.VAR {
				continue
			}
			for _, sp := range gd.Specs {
				vs := sp.(*ast.ValueSpec)
				for _, name := range vs.Names {
					if name.Name != "_" {
						p.vars[name.Name] = vs
					}
				}
			}
		}
	}
	return p, nil
}

// isPkgVar reports whether ident refers to a package-level variable of the package.
func (p *pkgInfo) isPkgVar(id *ast.Ident) bool {
	vs, ok := p.vars[id.Name]
	if !ok {
		return false
	}
	if id.Obj == nil {
		return true // unresolved in this file: declared in another file of the package
	}
	if d, ok := id.Obj.Decl.(*ast.ValueSpec); ok && d == vs {
		return true
	}
	return false
}

func rootIdent(e ast.Expr) *ast.Ident {
	for {
		switch x := e.(type) {
		case *ast.Ident:
			return x
		case *ast.SelectorExpr:
			e = x.X
		case *ast.IndexExpr:
			e = x.X
		case *ast.StarExpr:
			e = x.X
		case *ast.ParenExpr:
			e = x.X
		case *ast.SliceExpr:
			e = x.X
		default:
			return nil
		}
	}
}

func typeMentions(e ast.Expr, names ...string) bool {
	found := false
	ast.Inspect(e, func(n ast.Node) bool {
		switch x := n.(type) {
		case *ast.MapType:
			for _, nm := range names {
				if nm == "map" {
					found = true
				}
			}
		case *ast.SelectorExpr:
			if id, ok := x.X.(*ast.Ident); ok {
				for _, nm := range names {
					if id.Name == nm {
						found = true
					}
				}
			}
		}
		return !found
	})
	return found
}

func (p *pkgInfo) findMutable() {
	for name, vs := range p.vars {
		if vs.Type != nil && typeMentions(vs.Type, "sync", "atomic") {
			p.mutable[name] = true
		}
		for _, v := range vs.Values {
			if typeMentions(v, "sync", "atomic") {
				p.mutable[name] = true
			}
		}
	}
	mark := func(e ast.Expr) {
		if id := rootIdent(e); id != nil && p.isPkgVar(id) {
			p.mutable[id.Name] = true
		}
	}
	mutMethods := p.mutatingMethods()
	varType := p.varTypes()
	for _, f := range p.files {
		for _, d := range f.Decls {
			fd, ok := d.(*ast.FuncDecl)
			if !ok || fd.Body == nil {
				continue
			}
			ast.Inspect(fd.Body, func(n ast.Node) bool {
				if call, ok := n.(*ast.CallExpr); ok {
					// v.m(...) on a package-level variable v whose method m writes through its receiver
					if sel, ok := call.Fun.(*ast.SelectorExpr); ok {
						if id, ok := sel.X.(*ast.Ident); ok && p.isPkgVar(id) && mutMethods[varType[id.Name]][sel.Sel.Name] {
							p.mutable[id.Name] = true
						}
					}
				}
				switch x := n.(type) {
				case *ast.AssignStmt:
					for _, l := range x.Lhs {
						mark(l)
					}
				case *ast.IncDecStmt:
					mark(x.X)
				case *ast.UnaryExpr:
					if x.Op == token.AND {
						mark(x.X)
					}
				case *ast.SliceExpr:
					// slicing a package-level array/slice hands out writable memory (e.g. as a read buffer)
					mark(x.X)
				case *ast.RangeStmt:
					if x.Tok == token.ASSIGN {
						if x.Key != nil {
							mark(x.Key)
						}
						if x.Value != nil {
							mark(x.Value)
						}
					}
				case *ast.CallExpr:
					// delete(m, k) mutates a map
					if id, ok := x.Fun.(*ast.Ident); ok && id.Name == "delete" && len(x.Args) > 0 {
						mark(x.Args[0])
					}
				}
				return true
			})
		}
	}
}

// mutatingMethods: per named type, the methods that write through their receiver (a pointer receiver assigning to
// or incrementing anything rooted at it; any receiver writing an element of a map/slice it holds, deleting from or
// appending to one), closed under calls to other such methods on the same receiver.
func (p *pkgInfo) mutatingMethods() map[string]map[string]bool {
	type meth struct {
		fd   *ast.FuncDecl
		recv string
		ptr  bool
		typ  string
	}
	var ms []meth
	for _, f := range p.files {
		for _, d := range f.Decls {
			fd, ok := d.(*ast.FuncDecl)
			if !ok || fd.Body == nil || fd.Recv == nil || len(fd.Recv.List) != 1 || len(fd.Recv.List[0].Names) != 1 {
				continue
			}
			m := meth{fd: fd, recv: fd.Recv.List[0].Names[0].Name}
			t := fd.Recv.List[0].Type
			if st, ok := t.(*ast.StarExpr); ok {
				m.ptr = true
				t = st.X
			}
			if id, ok := t.(*ast.Ident); ok {
				m.typ = id.Name
				ms = append(ms, m)
			}
		}
	}
	out := map[string]map[string]bool{}
	set := func(t, n string) bool {
		if out[t] == nil {
			out[t] = map[string]bool{}
		}
		if out[t][n] {
			return false
		}
		out[t][n] = true
		return true
	}
	rooted := func(e ast.Expr, recv string) (bool, bool) { // rooted at the receiver, through an index
		viaIndex := false
		for {
			switch x := e.(type) {
			case *ast.Ident:
				return x.Name == recv && x.Obj != nil, viaIndex
			case *ast.SelectorExpr:
				e = x.X
			case *ast.IndexExpr:
				viaIndex = true
				e = x.X
			case *ast.StarExpr:
				e = x.X
			case *ast.ParenExpr:
				e = x.X
			default:
				return false, false
			}
		}
	}
	for changed := true; changed; {
		changed = false
		for _, m := range ms {
			if out[m.typ][m.fd.Name.Name] {
				continue
			}
			writes := false
			lhs := func(e ast.Expr) {
				if _, bare := e.(*ast.Ident); bare {
					return // re-binding the receiver variable itself changes nothing outside
				}
				if r, idx := rooted(e, m.recv); r && (m.ptr || idx) {
					writes = true
				}
			}
			ast.Inspect(m.fd.Body, func(n ast.Node) bool {
				switch x := n.(type) {
				case *ast.AssignStmt:
					for _, l := range x.Lhs {
						lhs(l)
					}
				case *ast.IncDecStmt:
					lhs(x.X)
				case *ast.CallExpr:
					if id, ok := x.Fun.(*ast.Ident); ok && id.Name == "delete" && len(x.Args) > 0 {
						if r, _ := rooted(x.Args[0], m.recv); r {
							writes = true
						}
					}
					if sel, ok := x.Fun.(*ast.SelectorExpr); ok {
						if id, ok := sel.X.(*ast.Ident); ok && id.Name == m.recv && out[m.typ][sel.Sel.Name] {
							writes = true
						}
					}
				}
				return true
			})
			if writes && set(m.typ, m.fd.Name.Name) {
				changed = true
			}
		}
	}
	return out
}

// varTypes: the named type of each package-level variable, where the declaration shows it (explicit type T or *T,
// composite literal T{...} or &T{...}, new(T), or a call of a package function whose first result is T or *T).
func (p *pkgInfo) varTypes() map[string]string {
	named := func(e ast.Expr) string {
		if st, ok := e.(*ast.StarExpr); ok {
			e = st.X
		}
		if id, ok := e.(*ast.Ident); ok {
			return id.Name
		}
		return ""
	}
	results := map[string]string{}
	for _, f := range p.files {
		for _, d := range f.Decls {
			if fd, ok := d.(*ast.FuncDecl); ok && fd.Recv == nil && fd.Type.Results != nil && len(fd.Type.Results.List) > 0 {
				results[fd.Name.Name] = named(fd.Type.Results.List[0].Type)
			}
		}
	}
	out := map[string]string{}
	for name, vs := range p.vars {
		if vs.Type != nil {
			out[name] = named(vs.Type)
			continue
		}
		for i, n := range vs.Names {
			if n.Name != name || i >= len(vs.Values) {
				continue
			}
			v := vs.Values[i]
			if u, ok := v.(*ast.UnaryExpr); ok && u.Op == token.AND {
				v = u.X
			}
			switch x := v.(type) {
			case *ast.CompositeLit:
				if x.Type != nil {
					out[name] = named(x.Type)
				}
			case *ast.CallExpr:
				if id, ok := x.Fun.(*ast.Ident); ok {
					if id.Name == "new" && len(x.Args) == 1 {
						out[name] = named(x.Args[0])
					} else {
						out[name] = results[id.Name]
					}
				}
			}
		}
	}
	return out
}

// stmtInfo: which mutable package variables a statement mentions (not descending into nested blocks) and whether it writes one.
func (p *pkgInfo) stmtInfo(s ast.Stmt) ([]string, bool) {
	set := map[string]bool{}
	write := false
	var visit func(n ast.Node) bool
	visit = func(n ast.Node) bool {
		switch x := n.(type) {
		case *ast.BlockStmt, *ast.FuncLit:
			return false // nested statements get their own points
		case *ast.Ident:
			if p.isPkgVar(x) && p.mutable[x.Name] {
				set[x.Name] = true
			}
		case *ast.SelectorExpr:
			ast.Inspect(x.X, visit) // x.Sel is a field or method name, never a package-level variable
			return false
		case *ast.KeyValueExpr:
			if _, isIdent := x.Key.(*ast.Ident); !isIdent {
				ast.Inspect(x.Key, visit)
			}
			ast.Inspect(x.Value, visit)
			return false
		case *ast.AssignStmt:
			for _, l := range x.Lhs {
				if id := rootIdent(l); id != nil && p.isPkgVar(id) && p.mutable[id.Name] {
					write = true
				}
			}
		case *ast.IncDecStmt:
			if id := rootIdent(x.X); id != nil && p.isPkgVar(id) && p.mutable[id.Name] {
				write = true
			}
		case *ast.SliceExpr:
			if id := rootIdent(x.X); id != nil && p.isPkgVar(id) && p.mutable[id.Name] {
				write = true
			}
		case *ast.CallExpr:
			// a method call on a mutable package variable may mutate what it refers to
			if sel, ok := x.Fun.(*ast.SelectorExpr); ok {
				if id := rootIdent(sel.X); id != nil && p.isPkgVar(id) && p.mutable[id.Name] {
					write = true
				}
			}
		}
		return true
	}
	switch x := s.(type) {
	case *ast.IfStmt:
		if x.Init != nil {
			ast.Inspect(x.Init, visit)
		}
		ast.Inspect(x.Cond, visit)
	case *ast.ForStmt:
		if x.Init != nil {
			ast.Inspect(x.Init, visit)
		}
		if x.Cond != nil {
			ast.Inspect(x.Cond, visit)
		}
	case *ast.RangeStmt:
		ast.Inspect(x.X, visit)
	case *ast.SwitchStmt:
		if x.Init != nil {
			ast.Inspect(x.Init, visit)
		}
		if x.Tag != nil {
			ast.Inspect(x.Tag, visit)
		}
	case *ast.TypeSwitchStmt, *ast.SelectStmt, *ast.BlockStmt, *ast.LabeledStmt:
	default:
		ast.Inspect(s, visit)
	}
	var out []string
	for n := range set {
		out = append(out, n)
	}
	sort.Strings(out)
	return out, write
}

func main() {
	if len(os.Args) != 3 {
		fmt.Fprintln(os.Stderr, "usage: vinstr <repo> <outdir>")
		os.Exit(2)
	}
	repo, out := os.Args[1], os.Args[2]
	os.MkdirAll(out, 0o755)
	overlay := map[string]string{}
	var points []point
	inventory := map[string][]string{}
	var syncVars []string
	usesLocks := false
	for _, sub := range []string{"", "dyncrc16"} {
		dir := filepath.Join(repo, sub)
		p, err := loadPkg(dir)
		if err != nil {
			fmt.Fprintln(os.Stderr, "vinstr:", err)
			os.Exit(1)
		}
		p.findMutable()
		var mv []string
		for n := range p.mutable {
			mv = append(mv, n)
		}
		sort.Strings(mv)
		pkgName := "fit"
		if sub != "" {
			pkgName = sub
		}
		inventory[pkgName] = mv
		for n, vs := range p.vars {
			if (vs.Type != nil && typeMentions(vs.Type, "sync", "atomic")) || (len(vs.Values) > 0 && typeMentions(vs.Values[0], "sync", "atomic")) {
				syncVars = append(syncVars, n)
			}
		}
		for _, f := range p.files {
			ast.Inspect(f, func(nn ast.Node) bool {
				if sel, ok := nn.(*ast.SelectorExpr); ok {
					if id, ok := sel.X.(*ast.Ident); ok && (id.Name == "sync" || id.Name == "atomic") {
						switch sel.Sel.Name {
						case "Mutex", "RWMutex", "Once", "Cond", "WaitGroup", "Map":
							usesLocks = true
						}
						if id.Name == "atomic" {
							usesLocks = true
						}
					}
				}
				return true
			})
		}
		// the hook itself (always present, so that the harness compiles against both packages)
		hook := fmt.Sprintf("package %s\n\n// VerifPoint is installed by the verification harness (schedule exploration); nil otherwise.\nvar VerifPoint func(id int)\n\nfunc verifPoint(id int) {\n\tif f := VerifPoint; f != nil {\n\t\tf(id)\n\t}\n}\n", pkgName)
		hdst := filepath.Join(out, pkgName+"_verif_point.go")
		os.WriteFile(hdst, []byte(hook), 0o644)
		overlay[filepath.Join(dir, "zz_verif_point.go")] = hdst
		if len(mv) == 0 {
			continue
		}
		names := make([]string, 0, len(p.files))
		for n := range p.files {
			names = append(names, n)
		}
		sort.Strings(names)
		for _, n := range names {
			f := p.files[n]
			changed := false
			for _, d := range f.Decls {
				fd, ok := d.(*ast.FuncDecl)
				if !ok || fd.Body == nil {
					continue
				}
				fname := fd.Name.Name
				if fd.Recv != nil && len(fd.Recv.List) == 1 {
					var tb bytes.Buffer
					printer.Fprint(&tb, p.fset, fd.Recv.List[0].Type)
					fname = "(" + tb.String() + ")." + fname
				}
				var rewrite func(list []ast.Stmt) []ast.Stmt
				rewrite = func(list []ast.Stmt) []ast.Stmt {
					var res []ast.Stmt
					for _, s := range list {
						switch cc := s.(type) {
						case *ast.CaseClause:
							cc.Body = rewrite(cc.Body)
							res = append(res, s)
							continue
						case *ast.CommClause:
							cc.Body = rewrite(cc.Body)
							res = append(res, s)
							continue
						}
						vars, write := p.stmtInfo(s)
						if len(vars) > 0 {
							id := len(points) + 1
							points = append(points, point{ID: id, File: filepath.Join(sub, n), Line: p.fset.Position(s.Pos()).Line, Func: fname, Vars: vars, Write: write})
							res = append(res, &ast.ExprStmt{X: &ast.CallExpr{Fun: ast.NewIdent("verifPoint"), Args: []ast.Expr{&ast.BasicLit{Kind: token.INT, Value: fmt.Sprint(id)}}}})
							changed = true
						}
						// descend into nested blocks
						ast.Inspect(s, func(nn ast.Node) bool {
							switch b := nn.(type) {
							case *ast.FuncLit:
								b.Body.List = rewrite(b.Body.List)
								return false
							case *ast.BlockStmt:
								b.List = rewrite(b.List)
								return false
							case *ast.CaseClause:
								b.Body = rewrite(b.Body)
								return false
							case *ast.CommClause:
								b.Body = rewrite(b.Body)
								return false
							}
							return true
						})
						res = append(res, s)
					}
					return res
				}
				fd.Body.List = rewrite(fd.Body.List)
			}
			if changed {
				var buf bytes.Buffer
				if err := printer.Fprint(&buf, p.fset, f); err != nil {
					fmt.Fprintln(os.Stderr, "vinstr: print:", err)
					os.Exit(1)
				}
				dst := filepath.Join(out, strings.ReplaceAll(filepath.Join(sub, n), "/", "_"))
				os.WriteFile(dst, buf.Bytes(), 0o644)
				overlay[filepath.Join(dir, n)] = dst
			}
		}
	}
	ob, _ := json.MarshalIndent(map[string]interface{}{"Replace": overlay}, "", " ")
	os.WriteFile(filepath.Join(out, "overlay.json"), ob, 0o644)
	pb, _ := json.MarshalIndent(map[string]interface{}{"points": points, "mutable_package_variables": inventory, "sync_typed_variables": syncVars, "uses_locks_or_atomics": usesLocks}, "", " ")
	os.WriteFile(filepath.Join(out, "points.json"), pb, 0o644)
	fmt.Printf("vinstr: %d scheduling points; mutable package-level variables: %v\n", len(points), inventory)
}
