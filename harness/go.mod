module verif

go 1.23

require github.com/tormoder/fit v0.0.0

replace github.com/tormoder/fit => /repo
