// Package vx is the shared exploration runtime: it shards an enumeration over
// worker *processes*, merges what they counted, classifies mismatches against
// /verif/known_findings.json, writes evidence and replay files, and prints the
// KNOWN-FINDING / VIOLATION lines required by the interface.
package vx

import (
	"context"
	"crypto/sha256"
	"encoding/hex"
	"encoding/json"
	"fmt"
	"hash/fnv"
	"os"
	"os/exec"
	"path/filepath"
	"sort"
	"strconv"
	"strings"
	"sync"
	"sync/atomic"
	"time"
)

// Root is /verif (overridable for tests).
var Root = func() string {
	if r := os.Getenv("VERIF_ROOT"); r != "" {
		return r
	}
	return "/verif"
}()

// Prop describes one property check.
type Prop struct {
	ID      string
	Level   string // evidence level
	Workers int    // 0 => 16
	// Run enumerates the shard w.Shard of w.N. It is executed in a worker process.
	Run func(w *W)
	// Replay re-executes one recorded case without any explorer.
	Replay func(raw json.RawMessage) (string, error)
	// Rule explains enumeration and distinctness for the evidence file.
	Rule        string
	Assumptions []string
	// Post runs in the parent after merging (vacuity guards); returning an
	// error is a harness error (exit 2), never a VIOLATION.
	Post func(r *Merged) error
	// Sub, if set, serves `vcheck <ID> --sub args...` (fresh-process helper executions).
	Sub func(args []string)
	// Budget per tier (seconds); 0 => defaults.
	QuickBudget, ThoroughBudget int
}

var props = map[string]*Prop{}

func Register(p *Prop) { props[p.ID] = p }

// AppendRule extends the rule text of a registered property (used by families shared between properties).
func AppendRule(id, text string) {
	if p := props[id]; p != nil {
		p.Rule += text
	}
}

// Violation is one property violation (or known-finding candidate).
type Violation struct {
	Key    string      `json:"key"`    // class key; matched against known_findings.json
	Detail string      `json:"detail"` // human readable
	Replay interface{} `json:"replay"` // enough to re-execute
}

// W is the per-worker context.
type W struct {
	ID    string
	Tier  string
	Seed  int64
	Shard int
	N     int

	deadline time.Time
	tick     int64
	// CurCase, if set, describes the case being executed (read by the hang watchdog only).
	CurCase  func() (string, interface{})
	res      workerResult
	distinct map[uint64]struct{}
	dcap     int
	mu       sync.Mutex
}

type workerResult struct {
	Evals       int64                  `json:"evals"`
	Distinct    []uint64               `json:"distinct"`
	DistinctCap bool                   `json:"distinct_cap"`
	States      int64                  `json:"states"`
	Transitions int64                  `json:"transitions"`
	Traces      int64                  `json:"traces"`
	Fam         map[string]int64       `json:"fam"`
	Violations  []Violation            `json:"violations"`
	ViolCount   map[string]int64       `json:"viol_count"`
	Known       map[string]string      `json:"known"` // key -> first detail
	KnownCount  map[string]int64       `json:"known_count"`
	KnownReplay map[string]interface{} `json:"known_replay"`
	Samples     []interface{}          `json:"samples"`
	Caps        []string               `json:"caps"`
	Notes       []string               `json:"notes"`
	Extra       map[string]interface{} `json:"extra"`
	HarnessErr  string                 `json:"harness_err"`
	StateSet    []uint64               `json:"state_set"`
}

// Quick reports whether the run is the quick tier.
func (w *W) Quick() bool { return w.Tier != "thorough" }

// Mine reports whether case index i belongs to this worker's shard.
func (w *W) Mine(i int64) bool { return int(i%int64(w.N)) == w.Shard }

// Eval counts n executed cases.
func (w *W) Eval(n int64) { w.res.Evals += n }

// Fam counts n cases in a named family.
func (w *W) Fam(name string, n int64) { w.res.Fam[name] += n }

// Distinct records the hash of a non-trivial outcome.
func (w *W) Distinct(h uint64) {
	if len(w.distinct) >= w.dcap {
		if _, ok := w.distinct[h]; !ok {
			w.res.DistinctCap = true
		}
		return
	}
	w.distinct[h] = struct{}{}
}

// DistinctS hashes a string outcome.
func (w *W) DistinctS(s string) { w.Distinct(Hash(s)) }

// State records a distinct model state (for model_checking evidence).
func (w *W) State(h uint64) {
	w.res.StateSet = append(w.res.StateSet, h)
}

func (w *W) Transition(n int64) { w.res.Transitions += n }
func (w *W) Trace(n int64)      { w.res.Traces += n }

// Sample keeps a literal case for the evidence file (first few only).
func (w *W) Sample(s interface{}) {
	if len(w.res.Samples) < 4 {
		w.res.Samples = append(w.res.Samples, s)
	}
}

// Expired reports whether the internal budget is used up; the caller must stop
// enumerating and the run is reported as exhaustive:false.
func (w *W) Expired(what string) bool {
	if time.Now().After(w.deadline) {
		w.Cap("time budget reached in " + what)
		return true
	}
	return false
}

// Cap records that a cap was hit (run not exhaustive).
func (w *W) Cap(s string) {
	for _, c := range w.res.Caps {
		if c == s {
			return
		}
	}
	w.res.Caps = append(w.res.Caps, s)
}

func (w *W) Note(s string) {
	for _, c := range w.res.Notes {
		if c == s {
			return
		}
	}
	if len(w.res.Notes) < 50 {
		w.res.Notes = append(w.res.Notes, s)
	}
}

func (w *W) Extra(k string, v interface{}) { w.res.Extra[k] = v }

// Violation records a violation of class key.
func (w *W) Violation(key, detail string, replay interface{}) {
	w.res.ViolCount[key]++
	if w.res.ViolCount[key] <= 3 && len(w.res.Violations) < 40 {
		w.res.Violations = append(w.res.Violations, Violation{key, detail, replay})
	}
}

// Known records a mismatch that the named defect model reproduces exactly.
// Whether it is suppressed is decided by the parent from known_findings.json.
func (w *W) Known(key, detail string, replay interface{}) {
	if _, ok := w.res.Known[key]; !ok {
		w.res.Known[key] = detail
		w.res.KnownReplay[key] = replay
	}
	w.res.KnownCount[key]++
}

// HarnessError aborts the run as a machinery failure (exit 2, no VIOLATION).
func (w *W) HarnessError(format string, a ...interface{}) {
	w.res.HarnessErr = fmt.Sprintf(format, a...)
	w.flush()
	os.Exit(2)
}

func (w *W) flush() {
	w.res.Distinct = w.res.Distinct[:0]
	for h := range w.distinct {
		w.res.Distinct = append(w.res.Distinct, h)
	}
	out := os.Getenv("VX_OUT")
	b, err := json.Marshal(&w.res)
	if err != nil {
		fmt.Fprintln(os.Stderr, "vx: marshal:", err)
		os.Exit(2)
	}
	if err := os.WriteFile(out, b, 0o644); err != nil {
		fmt.Fprintln(os.Stderr, "vx: write:", err)
		os.Exit(2)
	}
}

// Tick tells the watchdog that progress was made.
func (w *W) Tick() { atomic.AddInt64(&w.tick, 1) }

// StartWatchdog reports a hang (as a violation of class "hang") if no Tick is
// seen for `limit`; the case is taken from CurCase.
func (w *W) StartWatchdog(limit time.Duration) {
	go func() {
		last := atomic.LoadInt64(&w.tick)
		lastChange := time.Now()
		for {
			time.Sleep(2 * time.Second)
			cur := atomic.LoadInt64(&w.tick)
			if cur != last {
				last, lastChange = cur, time.Now()
				continue
			}
			if time.Since(lastChange) > limit {
				detail, rep := "no progress", interface{}(nil)
				if w.CurCase != nil {
					detail, rep = w.CurCase()
				}
				w.Violation("hang", fmt.Sprintf("call did not return within %v: %s", limit, detail), rep)
				w.flush()
				os.Exit(0)
			}
		}
	}()
}

// SubRun executes this binary as `<ID> --sub args...` in a fresh process and returns its stdout.
func SubRun(id string, args ...string) ([]byte, error) {
	return SubRunEnv(id, nil, args...)
}

// SubRunEnv is SubRun with extra environment settings (they override the defaults, e.g. TZ).
func SubRunEnv(id string, env []string, args ...string) ([]byte, error) {
	// a helper process that does not come back within ten minutes is killed (a hang of the code under test must not
	// hang the check); the caller sees the error
	ctx, cancel := context.WithTimeout(context.Background(), 10*time.Minute)
	defer cancel()
	cmd := exec.CommandContext(ctx, os.Args[0], append([]string{id, "--sub"}, args...)...)
	cmd.Env = append(append(os.Environ(), "TZ=UTC", "VX_WORKER=", "GOMAXPROCS=2"), env...)
	var stderr strings.Builder
	cmd.Stderr = &stderr
	out, err := cmd.Output()
	if err != nil {
		return out, fmt.Errorf("%v: %s", err, tail(stderr.String(), 2000))
	}
	return out, nil
}

// Hash is FNV-1a 64.
func Hash(s string) uint64 {
	h := fnv.New64a()
	h.Write([]byte(s))
	return h.Sum64()
}

func HashB(b []byte) uint64 {
	h := fnv.New64a()
	h.Write(b)
	return h.Sum64()
}

// Merged is what the parent sees after all workers finished.
type Merged struct {
	Evals       int64
	Distinct    int64
	DistinctCap bool
	States      int64
	Transitions int64
	Traces      int64
	Fam         map[string]int64
	Violations  []Violation
	ViolCount   map[string]int64
	Known       map[string]string
	KnownCount  map[string]int64
	KnownReplay map[string]interface{}
	Samples     []interface{}
	Caps        []string
	Notes       []string
	Extra       map[string]interface{}
}

type finding struct {
	Property string `json:"property"`
	Key      string `json:"key"`
	Status   string `json:"status"`
	Commit   string `json:"commit,omitempty"`
	What     string `json:"what"`
}

func loadFindings() ([]finding, error) {
	b, err := os.ReadFile(filepath.Join(Root, "known_findings.json"))
	if err != nil {
		if os.IsNotExist(err) {
			return nil, nil
		}
		return nil, err
	}
	var f []finding
	if err := json.Unmarshal(b, &f); err != nil {
		return nil, err
	}
	return f, nil
}

// Main is the entry point of the harness binary.
func Main() {
	args := os.Args[1:]
	if len(args) < 1 {
		fmt.Fprintln(os.Stderr, "usage: vcheck <ID> [quick|thorough] | <ID> --replay <file>")
		os.Exit(2)
	}
	id := args[0]
	p := props[id]
	if p == nil {
		fmt.Fprintln(os.Stderr, "unknown property", id)
		os.Exit(2)
	}
	if len(args) >= 2 && args[1] == "--sub" {
		if p.Sub == nil {
			os.Exit(2)
		}
		p.Sub(args[2:])
		return
	}
	if len(args) >= 3 && args[1] == "--replay" {
		os.Exit(replay(p, args[2]))
	}
	tier := "quick"
	if len(args) >= 2 {
		tier = args[1]
	}
	if t := os.Getenv("VERIF_TIER"); t != "" && len(args) < 2 {
		tier = t
	}
	if tier != "quick" && tier != "thorough" {
		fmt.Fprintln(os.Stderr, "tier must be quick or thorough")
		os.Exit(2)
	}
	seed := int64(0)
	if s := os.Getenv("VERIF_SEED"); s != "" {
		if v, err := strconv.ParseInt(s, 10, 64); err == nil {
			seed = v
		}
	}
	if sh := os.Getenv("VX_WORKER"); sh != "" {
		runWorker(p, tier, seed, sh)
		return
	}
	os.Exit(runParent(p, tier, seed))
}

func budget(p *Prop, tier string) time.Duration {
	b := 150
	if tier == "thorough" {
		b = 3000
		if p.ThoroughBudget > 0 {
			b = p.ThoroughBudget
		}
	} else if p.QuickBudget > 0 {
		b = p.QuickBudget
	}
	if s := os.Getenv("VX_BUDGET"); s != "" {
		if v, err := strconv.Atoi(s); err == nil {
			b = v
		}
	}
	return time.Duration(b) * time.Second
}

func runWorker(p *Prop, tier string, seed int64, sh string) {
	var shard, n int
	fmt.Sscanf(sh, "%d/%d", &shard, &n)
	w := &W{ID: p.ID, Tier: tier, Seed: seed, Shard: shard, N: n,
		deadline: time.Now().Add(budget(p, tier)),
		distinct: map[uint64]struct{}{}, dcap: 4 << 20}
	w.res.Fam = map[string]int64{}
	w.res.ViolCount = map[string]int64{}
	w.res.Known = map[string]string{}
	w.res.KnownCount = map[string]int64{}
	w.res.KnownReplay = map[string]interface{}{}
	w.res.Extra = map[string]interface{}{}
	p.Run(w)
	w.flush()
}

func runParent(p *Prop, tier string, seed int64) int {
	start := time.Now()
	n := p.Workers
	if n == 0 {
		n = 16
	}
	if s := os.Getenv("VX_WORKERS"); s != "" {
		if v, err := strconv.Atoi(s); err == nil && v > 0 {
			n = v
		}
	}
	dir, err := os.MkdirTemp(filepath.Join(Root, ".build"), "run-"+p.ID+"-")
	if err != nil {
		os.MkdirAll(filepath.Join(Root, ".build"), 0o755)
		dir, err = os.MkdirTemp(filepath.Join(Root, ".build"), "run-"+p.ID+"-")
		if err != nil {
			fmt.Fprintln(os.Stderr, "vx:", err)
			return 2
		}
	}
	defer os.RemoveAll(dir)

	type wr struct {
		res workerResult
		err error
		out string
	}
	results := make([]wr, n)
	var wg sync.WaitGroup
	for i := 0; i < n; i++ {
		wg.Add(1)
		go func(i int) {
			defer wg.Done()
			outp := filepath.Join(dir, fmt.Sprintf("w%d.json", i))
			cmd := exec.Command(os.Args[0], p.ID, tier)
			cmd.Env = append(os.Environ(),
				fmt.Sprintf("VX_WORKER=%d/%d", i, n),
				"VX_OUT="+outp, "TZ=UTC", "VX_SCRATCH="+dir,
				fmt.Sprintf("VERIF_SEED=%d", seed))
			ob, err := cmd.CombinedOutput()
			results[i].out = string(ob)
			if err != nil {
				// a worker that flushed a harness error still wrote its file
				if b, e2 := os.ReadFile(outp); e2 == nil {
					json.Unmarshal(b, &results[i].res)
				}
				results[i].err = err
				return
			}
			b, err := os.ReadFile(outp)
			if err != nil {
				results[i].err = err
				return
			}
			results[i].err = json.Unmarshal(b, &results[i].res)
		}(i)
	}
	wg.Wait()

	m := &Merged{Fam: map[string]int64{}, ViolCount: map[string]int64{}, Known: map[string]string{},
		KnownCount: map[string]int64{}, KnownReplay: map[string]interface{}{}, Extra: map[string]interface{}{}}
	dset := map[uint64]struct{}{}
	sset := map[uint64]struct{}{}
	for i, r := range results {
		if r.err != nil || r.res.HarnessErr != "" {
			fmt.Fprintf(os.Stderr, "HARNESS-ERROR property=%s worker=%d err=%v msg=%s\n%s\n", p.ID, i, r.err, r.res.HarnessErr, tail(r.out, 4000))
			return 2
		}
		if strings.TrimSpace(r.out) != "" && os.Getenv("VX_VERBOSE") != "" {
			fmt.Fprintf(os.Stderr, "[worker %d] %s\n", i, tail(r.out, 2000))
		}
		m.Evals += r.res.Evals
		for _, h := range r.res.Distinct {
			dset[h] = struct{}{}
		}
		for _, h := range r.res.StateSet {
			sset[h] = struct{}{}
		}
		m.DistinctCap = m.DistinctCap || r.res.DistinctCap
		m.States += r.res.States
		m.Transitions += r.res.Transitions
		m.Traces += r.res.Traces
		for k, v := range r.res.Fam {
			m.Fam[k] += v
		}
		m.Violations = append(m.Violations, r.res.Violations...)
		for k, v := range r.res.ViolCount {
			m.ViolCount[k] += v
		}
		for k, v := range r.res.Known {
			if _, ok := m.Known[k]; !ok {
				m.Known[k] = v
				m.KnownReplay[k] = r.res.KnownReplay[k]
			}
		}
		for k, v := range r.res.KnownCount {
			m.KnownCount[k] += v
		}
		for _, s := range r.res.Samples {
			if len(m.Samples) < 6 {
				m.Samples = append(m.Samples, s)
			}
		}
		for _, c := range r.res.Caps {
			m.Caps = appendUniq(m.Caps, c)
		}
		for _, c := range r.res.Notes {
			m.Notes = appendUniq(m.Notes, c)
		}
		for k, v := range r.res.Extra {
			if _, ok := m.Extra[k]; !ok {
				m.Extra[k] = v
			}
		}
	}
	m.Distinct = int64(len(dset))
	m.States += int64(len(sset))

	// classify known findings
	fnd, err := loadFindings()
	if err != nil {
		fmt.Fprintln(os.Stderr, "HARNESS-ERROR cannot read known_findings.json:", err)
		return 2
	}
	open := map[string]finding{}
	for _, f := range fnd {
		if f.Property == p.ID && f.Status == "open" {
			open[f.Key] = f
		}
	}
	var knownKeys []string
	for k := range m.Known {
		knownKeys = append(knownKeys, k)
	}
	sort.Strings(knownKeys)
	var knownLines []string
	for _, k := range knownKeys {
		if f, ok := open[k]; ok {
			knownLines = append(knownLines, fmt.Sprintf("KNOWN-FINDING: property=%s %s: %s (cases=%d; e.g. %s)", p.ID, k, f.What, m.KnownCount[k], m.Known[k]))
		} else {
			// defect model matched but the finding is not listed as open: a violation.
			m.Violations = append(m.Violations, Violation{Key: k, Detail: m.Known[k], Replay: m.KnownReplay[k]})
			m.ViolCount[k] += m.KnownCount[k]
		}
	}

	if p.Post != nil {
		if err := p.Post(m); err != nil {
			if len(m.Violations) == 0 {
				fmt.Fprintf(os.Stderr, "HARNESS-ERROR property=%s vacuity/self-check: %v\n", p.ID, err)
				return 2
			}
			// an implementation that is broken badly enough makes the coverage counters collapse as well: the
			// violations are the finding and are reported; the guard's message goes into the caps
			m.Caps = append(m.Caps, "coverage self-check failed while violations were found: "+err.Error())
		}
	}

	// write replays
	rdir := filepath.Join(Root, "replays", p.ID)
	var vlines []string
	seenKey := map[string]int{}
	sort.SliceStable(m.Violations, func(i, j int) bool { return m.Violations[i].Key < m.Violations[j].Key })
	for _, v := range m.Violations {
		seenKey[v.Key]++
		if seenKey[v.Key] > 2 {
			continue
		}
		os.MkdirAll(rdir, 0o755)
		b, _ := json.MarshalIndent(map[string]interface{}{"property": p.ID, "key": v.Key, "detail": v.Detail, "replay": v.Replay}, "", " ")
		sum := sha256.Sum256(b)
		path := filepath.Join(rdir, hex.EncodeToString(sum[:6])+".json")
		os.WriteFile(path, b, 0o644)
		vlines = append(vlines, fmt.Sprintf("VIOLATION property=%s replay=%s key=%s count=%d detail=%s", p.ID, path, v.Key, m.ViolCount[v.Key], oneLine(v.Detail, 400)))
	}

	wall := time.Since(start).Seconds()
	exhaustive := len(m.Caps) == 0
	cov := map[string]interface{}{
		"evaluations":         m.Evals,
		"distinct_nontrivial": m.Distinct,
		"rule":                p.Rule,
		"samples":             m.Samples,
		"exhaustive":          exhaustive,
		"caps_hit":            m.Caps,
		"families":            m.Fam,
		"workers":             n,
	}
	if m.DistinctCap {
		cov["distinct_note"] = "distinct set capped per worker; distinct_nontrivial is a lower bound"
	}
	if p.Level == "model_checking" {
		cov["states"] = m.States
		cov["transitions"] = m.Transitions
		cov["traces_validated_against_impl"] = m.Traces
	}
	if len(m.Notes) > 0 {
		cov["notes"] = m.Notes
	}
	if len(m.KnownCount) > 0 {
		cov["known_finding_cases"] = m.KnownCount
	}
	for k, v := range m.Extra {
		cov[k] = v
	}
	if len(m.Samples) == 0 {
		cov["samples"] = []interface{}{"(no sample recorded)"}
	}
	assumptions := p.Assumptions
	if assumptions == nil {
		assumptions = []string{}
	}
	if m.Caps == nil {
		m.Caps = []string{}
		cov["caps_hit"] = m.Caps
	}
	ev := map[string]interface{}{
		"property_id": p.ID,
		"tier":        tier,
		"seed":        seed,
		"level":       p.Level,
		"coverage":    cov,
		"assumptions": assumptions,
		"wall_s":      wall,
		"violations":  len(vlines),
	}
	os.MkdirAll(filepath.Join(Root, "evidence"), 0o755)
	eb, _ := json.MarshalIndent(ev, "", " ")
	if err := os.WriteFile(filepath.Join(Root, "evidence", p.ID+".json"), append(eb, '\n'), 0o644); err != nil {
		fmt.Fprintln(os.Stderr, "HARNESS-ERROR writing evidence:", err)
		return 2
	}

	for _, l := range knownLines {
		fmt.Println(l)
	}
	for _, l := range vlines {
		fmt.Println(l)
	}
	fmt.Printf("%s %s: evaluations=%d distinct=%d states=%d transitions=%d traces=%d exhaustive=%v violations=%d known=%d wall=%.1fs\n",
		p.ID, tier, m.Evals, m.Distinct, m.States, m.Transitions, m.Traces, exhaustive, len(vlines), len(knownLines), wall)
	if len(m.Caps) > 0 {
		fmt.Println("caps:", strings.Join(m.Caps, "; "))
	}
	if len(vlines) > 0 {
		return 1
	}
	return 0
}

func replay(p *Prop, path string) int {
	b, err := os.ReadFile(path)
	if err != nil {
		fmt.Fprintln(os.Stderr, err)
		return 2
	}
	var doc struct {
		Replay json.RawMessage `json:"replay"`
		Key    string          `json:"key"`
		Detail string          `json:"detail"`
	}
	if err := json.Unmarshal(b, &doc); err != nil {
		fmt.Fprintln(os.Stderr, err)
		return 2
	}
	if p.Replay == nil {
		fmt.Println("no replay function for", p.ID, "- recorded detail:", doc.Detail)
		return 2
	}
	out, err := p.Replay(doc.Replay)
	fmt.Println(out)
	if err != nil {
		fmt.Printf("VIOLATION property=%s replay=%s key=%s detail=%s\n", p.ID, path, doc.Key, oneLine(err.Error(), 400))
		return 1
	}
	return 0
}

func appendUniq(l []string, s string) []string {
	for _, x := range l {
		if x == s {
			return l
		}
	}
	return append(l, s)
}

func tail(s string, n int) string {
	if len(s) > n {
		return s[len(s)-n:]
	}
	return s
}

func oneLine(s string, n int) string {
	s = strings.ReplaceAll(s, "\n", " | ")
	if len(s) > n {
		s = s[:n] + "..."
	}
	return s
}

// Hex helper for replay files.
func Hex(b []byte) string { return hex.EncodeToString(b) }

func UnHex(s string) []byte {
	b, _ := hex.DecodeString(s)
	return b
}
