package fitmodel

import "testing"

func TestCRCFast(t *testing.T) {
	d := []byte("123456789")
	if CRC(d) != 0xBB3D || CRCFast(0, d) != 0xBB3D {
		t.Fatalf("%x %x", CRC(d), CRCFast(0, d))
	}
}
