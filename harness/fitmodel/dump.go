package fitmodel

import (
	"fmt"
	"math"
	"reflect"
	"strconv"
	"strings"
	"time"
)

var timeType = reflect.TypeOf(time.Time{})

// FitEpoch is 1989-12-31T00:00:00Z as Unix seconds.
const FitEpoch = 631065600

// Dump is a canonical, deterministic deep printer used to compare decoded
// content. Floats are printed by bit pattern (NaN-safe), time.Time as
// unix-seconds/nanoseconds/zone offset, structs with a single unexported int32
// (coordinates) by that integer.
func Dump(v reflect.Value) string {
	var sb strings.Builder
	dump(&sb, v)
	return sb.String()
}

func DumpI(x interface{}) string { return Dump(reflect.ValueOf(x)) }

func dump(sb *strings.Builder, v reflect.Value) {
	if !v.IsValid() {
		sb.WriteString("<invalid>")
		return
	}
	switch v.Kind() {
	case reflect.Ptr, reflect.Interface:
		if v.IsNil() {
			sb.WriteString("nil")
			return
		}
		sb.WriteString("&")
		dump(sb, v.Elem())
	case reflect.Struct:
		if v.Type() == timeType {
			if v.CanInterface() {
				t := v.Interface().(time.Time)
				_, off := t.Zone()
				fmt.Fprintf(sb, "T(%d.%d%+d)", t.Unix(), t.Nanosecond(), off)
			} else {
				sb.WriteString("T(?)")
			}
			return
		}
		sb.WriteString(v.Type().Name())
		sb.WriteString("{")
		for i := 0; i < v.NumField(); i++ {
			if i > 0 {
				sb.WriteString(" ")
			}
			sb.WriteString(v.Type().Field(i).Name)
			sb.WriteString(":")
			dump(sb, v.Field(i))
		}
		sb.WriteString("}")
	case reflect.Slice:
		if v.IsNil() {
			sb.WriteString("nil[]")
			return
		}
		fallthrough
	case reflect.Array:
		sb.WriteString("[")
		for i := 0; i < v.Len(); i++ {
			if i > 0 {
				sb.WriteString(",")
			}
			dump(sb, v.Index(i))
		}
		sb.WriteString("]")
	case reflect.Float32:
		sb.WriteString("f32:" + strconv.FormatUint(uint64(math.Float32bits(float32(v.Float()))), 16))
	case reflect.Float64:
		sb.WriteString("f64:" + strconv.FormatUint(math.Float64bits(v.Float()), 16))
	case reflect.Int, reflect.Int8, reflect.Int16, reflect.Int32, reflect.Int64:
		sb.WriteString(strconv.FormatInt(v.Int(), 10))
	case reflect.Uint, reflect.Uint8, reflect.Uint16, reflect.Uint32, reflect.Uint64:
		sb.WriteString(strconv.FormatUint(v.Uint(), 10))
	case reflect.String:
		sb.WriteString(strconv.Quote(v.String()))
	case reflect.Bool:
		sb.WriteString(strconv.FormatBool(v.Bool()))
	case reflect.Map:
		sb.WriteString("map(" + strconv.Itoa(v.Len()) + ")")
	default:
		sb.WriteString("<" + v.Kind().String() + ">")
	}
}
