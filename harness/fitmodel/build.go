// Package fitmodel is the reference side: a FIT stream builder, a bitwise
// CRC-16/ARC, value denotation, and a strict grammar parser. It is written from
// the FIT protocol description, not from the implementation, and imports
// nothing from package fit.
package fitmodel

import (
	"encoding/binary"
)

// CRC is the bitwise reflected CRC-16 with polynomial 0xA001, init 0.
func CRC(data []byte) uint16 { return CRCUpdate(0, data) }

func CRCUpdate(c uint16, data []byte) uint16 {
	for _, b := range data {
		c ^= uint16(b)
		for i := 0; i < 8; i++ {
			if c&1 == 1 {
				c = (c >> 1) ^ 0xA001
			} else {
				c >>= 1
			}
		}
	}
	return c
}

// Base type bytes of the FIT protocol.
const (
	Enum    = 0x00
	Sint8   = 0x01
	Uint8   = 0x02
	Sint16  = 0x83
	Uint16  = 0x84
	Sint32  = 0x85
	Uint32  = 0x86
	String  = 0x07
	Float32 = 0x88
	Float64 = 0x89
	Uint8z  = 0x0A
	Uint16z = 0x8B
	Uint32z = 0x8C
	Byte    = 0x0D
	Sint64  = 0x8E
	Uint64  = 0x8F
	Uint64z = 0x90
)

// KnownBases lists the 17 base-type bytes defined by the protocol.
var KnownBases = []byte{Enum, Sint8, Uint8, Sint16, Uint16, Sint32, Uint32, String, Float32, Float64, Uint8z, Uint16z, Uint32z, Byte, Sint64, Uint64, Uint64z}

// BaseSize returns the element size of a protocol base type (0 if unknown).
func BaseSize(b byte) int {
	switch b {
	case Enum, Sint8, Uint8, String, Uint8z, Byte:
		return 1
	case Sint16, Uint16, Uint16z:
		return 2
	case Sint32, Uint32, Float32, Uint32z:
		return 4
	case Float64, Sint64, Uint64, Uint64z:
		return 8
	}
	return 0
}

func BaseSigned(b byte) bool {
	switch b {
	case Sint8, Sint16, Sint32, Sint64:
		return true
	}
	return false
}

func BaseFloat(b byte) bool { return b == Float32 || b == Float64 }

func BaseInteger(b byte) bool {
	switch b {
	case Sint8, Uint8, Sint16, Uint16, Sint32, Uint32, Uint8z, Uint16z, Uint32z, Sint64, Uint64, Uint64z:
		return true
	}
	return false
}

// BaseInvalidBits returns the invalid sentinel of an integer-like base type as
// raw bits (size bytes wide).
func BaseInvalidBits(b byte) uint64 {
	switch b {
	case Enum, Uint8, Byte:
		return 0xFF
	case Sint8:
		return 0x7F
	case Sint16:
		return 0x7FFF
	case Uint16:
		return 0xFFFF
	case Sint32:
		return 0x7FFFFFFF
	case Uint32, Float32:
		return 0xFFFFFFFF
	case Float64, Uint64:
		return 0xFFFFFFFFFFFFFFFF
	case Sint64:
		return 0x7FFFFFFFFFFFFFFF
	case Uint8z, Uint16z, Uint32z, Uint64z:
		return 0
	}
	return 0
}

// FieldDef is one field definition triple.
type FieldDef struct{ Num, Size, Base byte }

// DevDef is one developer field descriptor.
type DevDef struct{ Num, Size, Idx byte }

// Def is a definition record.
type Def struct {
	Local    byte
	Big      bool
	Global   uint16
	Fields   []FieldDef
	DevFlag  bool
	Dev      []DevDef
	Reserved byte
	ArchByte int // if >0, overrides the architecture byte with ArchByte-1
}

func (d Def) Order() binary.ByteOrder {
	if d.Big {
		return binary.BigEndian
	}
	return binary.LittleEndian
}

// Bytes serialises the definition record.
func (d Def) Bytes() []byte {
	h := byte(0x40) | (d.Local & 0x0F)
	if d.DevFlag {
		h |= 0x20
	}
	arch := byte(0)
	if d.Big {
		arch = 1
	}
	if d.ArchByte > 0 {
		arch = byte(d.ArchByte - 1)
	}
	out := []byte{h, d.Reserved, arch, 0, 0, byte(len(d.Fields))}
	d.Order().PutUint16(out[3:5], d.Global)
	for _, f := range d.Fields {
		out = append(out, f.Num, f.Size, f.Base)
	}
	if d.DevFlag {
		out = append(out, byte(len(d.Dev)))
		for _, f := range d.Dev {
			out = append(out, f.Num, f.Size, f.Idx)
		}
	}
	return out
}

// DataLen is the payload length of a data record under this definition.
func (d Def) DataLen() int {
	n := 0
	for _, f := range d.Fields {
		n += int(f.Size)
	}
	if d.DevFlag {
		for _, f := range d.Dev {
			n += int(f.Size)
		}
	}
	return n
}

// Data builds a normal-header data record.
func Data(local byte, payload []byte) []byte {
	return append([]byte{local & 0x0F}, payload...)
}

// Compressed builds a compressed-timestamp data record (local 0..3, offset 0..31).
func Compressed(local, offset byte, payload []byte) []byte {
	return append([]byte{0x80 | (local&3)<<5 | (offset & 0x1F)}, payload...)
}

// Header describes a file header.
type Header struct {
	Size     byte // 12 or 14
	Proto    byte
	Profile  uint16
	DataType string // ".FIT"
	CRCMode  int    // 0: correct CRC, 1: zero, 2: wrong
}

var DefaultHeader = Header{Size: 14, Proto: 0x20, Profile: 2115 + 0, DataType: ".FIT"}

// HeaderBytes serialises a header for a data area of n bytes.
func HeaderBytes(h Header, n uint32) []byte {
	out := make([]byte, 12, 14)
	out[0] = h.Size
	out[1] = h.Proto
	binary.LittleEndian.PutUint16(out[2:4], h.Profile)
	binary.LittleEndian.PutUint32(out[4:8], n)
	dt := h.DataType
	if dt == "" {
		dt = ".FIT"
	}
	copy(out[8:12], dt)
	if h.Size == 14 {
		var c uint16
		switch h.CRCMode {
		case 0:
			c = CRC(out[:12])
		case 1:
			c = 0
		case 2:
			c = CRC(out[:12]) ^ 0x5A5A
			if c == 0 {
				c = 1
			}
		}
		out = append(out, byte(c), byte(c>>8))
	}
	return out
}

// File assembles header + records + trailing CRC.
func File(h Header, records ...[]byte) []byte {
	var data []byte
	for _, r := range records {
		data = append(data, r...)
	}
	if h.Size == 0 {
		h = DefaultHeader
	}
	out := HeaderBytes(h, uint32(len(data)))
	out = append(out, data...)
	c := CRC(out)
	return append(out, byte(c), byte(c>>8))
}

// Concat joins byte slices into a fresh slice.
func Concat(parts ...[]byte) []byte {
	var out []byte
	for _, p := range parts {
		out = append(out, p...)
	}
	return out
}

// FileIdDef is the minimal file_id definition: type (field 0, enum).
func FileIdDef(local byte, big bool) Def {
	return Def{Local: local, Big: big, Global: 0, Fields: []FieldDef{{0, 1, Enum}}}
}

// FileIdRecords returns definition+data for a file_id of the given type on local type `local`.
func FileIdRecords(local byte, ftype byte) [][]byte {
	return [][]byte{FileIdDef(local, false).Bytes(), Data(local, []byte{ftype})}
}

// PutUint writes the low `size` bytes of v in the given order.
func PutUint(order binary.ByteOrder, size int, v uint64) []byte {
	b := make([]byte, size)
	if order == binary.LittleEndian {
		for i := 0; i < size; i++ {
			b[i] = byte(v >> (8 * uint(i)))
		}
	} else {
		for i := 0; i < size; i++ {
			b[size-1-i] = byte(v >> (8 * uint(i)))
		}
	}
	return b
}

// GetUint reads size bytes in the given order.
func GetUint(big bool, b []byte) uint64 {
	var v uint64
	n := len(b)
	for i := 0; i < n; i++ {
		if big {
			v = v<<8 | uint64(b[i])
		} else {
			v |= uint64(b[i]) << (8 * uint(i))
		}
	}
	return v
}

// SignExtend interprets the low `size` bytes of v as two's complement.
func SignExtend(v uint64, size int) int64 {
	shift := uint(64 - 8*size)
	return int64(v<<shift) >> shift
}

var crcTab = func() (t [256]uint16) {
	for i := range t {
		t[i] = CRCUpdate(0, []byte{byte(i)})
	}
	return
}()

// CRCFast is the byte-table form of CRCUpdate (table derived from the bitwise definition).
func CRCFast(c uint16, data []byte) uint16 {
	for _, b := range data {
		c = (c >> 8) ^ crcTab[byte(c)^b]
	}
	return c
}

// Seal writes data size, header CRC (if 14-byte header, mode correct) and the
// trailing CRC into buf, which must be header+data+2 bytes long. In-place variant of File.
func Seal(buf []byte) {
	hs := int(buf[0])
	n := len(buf) - hs - 2
	binary.LittleEndian.PutUint32(buf[4:8], uint32(n))
	if hs == 14 {
		c := CRCFast(0, buf[:12])
		buf[12], buf[13] = byte(c), byte(c>>8)
	}
	c := CRCFast(0, buf[:len(buf)-2])
	buf[len(buf)-2], buf[len(buf)-1] = byte(c), byte(c>>8)
}
