package fitmodel

import (
	"encoding/binary"
	"fmt"
)

// Strict FIT grammar parser (independent of the implementation).

type ParsedDef struct {
	Local   byte
	Big     bool
	Global  uint16
	Fields  []FieldDef
	DevFlag bool
	Dev     []DevDef
	Offset  int // offset of the record header in the file
}

type ParsedRec struct {
	Def        *ParsedDef
	Compressed bool
	TimeOffset byte
	Payload    []byte
	Fields     map[byte][]byte // field number -> wire bytes
	Offset     int
}

type Parsed struct {
	HeaderSize byte
	Proto      byte
	Profile    uint16
	DataSize   uint32
	HeaderCRC  uint16
	FileCRC    uint16
	Defs       []*ParsedDef
	Recs       []*ParsedRec
	Oddities   []string // accepted by the grammar, but not something an encoder may emit
}

// Parse checks b against the FIT file grammar: exactly one file, nothing after it.
func Parse(b []byte) (*Parsed, error) {
	p, n, err := ParseOne(b)
	if err != nil {
		return p, err
	}
	if n != len(b) {
		return p, fmt.Errorf("%d bytes follow the file", len(b)-n)
	}
	return p, nil
}

// ParseOne parses one file at the start of b and returns its length.
func ParseOne(b []byte) (*Parsed, int, error) {
	p := &Parsed{}
	if len(b) < 12 {
		return p, 0, fmt.Errorf("shorter than a header")
	}
	hs := int(b[0])
	if hs != 12 && hs != 14 {
		return p, 0, fmt.Errorf("header size %d", hs)
	}
	if len(b) < hs {
		return p, 0, fmt.Errorf("truncated header")
	}
	p.HeaderSize = b[0]
	p.Proto = b[1]
	p.Profile = binary.LittleEndian.Uint16(b[2:4])
	p.DataSize = binary.LittleEndian.Uint32(b[4:8])
	if string(b[8:12]) != ".FIT" {
		return p, 0, fmt.Errorf("data type %q", b[8:12])
	}
	if hs == 14 {
		p.HeaderCRC = binary.LittleEndian.Uint16(b[12:14])
		if p.HeaderCRC != 0 && p.HeaderCRC != CRC(b[:12]) {
			return p, 0, fmt.Errorf("header CRC %#04x, computed %#04x", p.HeaderCRC, CRC(b[:12]))
		}
	}
	end := hs + int(p.DataSize)
	if end+2 > len(b) {
		return p, 0, fmt.Errorf("data size %d exceeds the %d bytes that follow the header", p.DataSize, len(b)-hs)
	}
	p.FileCRC = binary.LittleEndian.Uint16(b[end : end+2])
	var crcErr error
	if want := CRC(b[:end]); want != p.FileCRC {
		// reported after the records were parsed, so that callers can still see the structure
		crcErr = fmt.Errorf("file CRC %#04x, computed %#04x", p.FileCRC, want)
	}
	var slots [16]*ParsedDef
	pos := hs
	need := func(n int, what string) error {
		if pos+n > end {
			return fmt.Errorf("%s at offset %d runs past the data area (%d)", what, pos, end)
		}
		return nil
	}
	for pos < end {
		h := b[pos]
		start := pos
		pos++
		switch {
		case h&0x80 == 0 && h&0x40 != 0: // definition
			d := &ParsedDef{Local: h & 0x0F, DevFlag: h&0x20 != 0, Offset: start}
			if h&0x10 != 0 {
				return p, 0, fmt.Errorf("definition header %#02x at %d has reserved bit 4 set", h, start)
			}
			if err := need(5, "definition"); err != nil {
				return p, 0, err
			}
			if b[pos] != 0 {
				return p, 0, fmt.Errorf("definition at %d: reserved byte %#02x", start, b[pos])
			}
			switch b[pos+1] {
			case 0:
			case 1:
				d.Big = true
			default:
				return p, 0, fmt.Errorf("definition at %d: architecture %d", start, b[pos+1])
			}
			if d.Big {
				d.Global = binary.BigEndian.Uint16(b[pos+2 : pos+4])
			} else {
				d.Global = binary.LittleEndian.Uint16(b[pos+2 : pos+4])
			}
			if d.Global == 0xFFFF {
				return p, 0, fmt.Errorf("definition at %d: global message number invalid", start)
			}
			nf := int(b[pos+4])
			pos += 5
			if err := need(3*nf, "field definitions"); err != nil {
				return p, 0, err
			}
			seen := map[byte]bool{}
			for i := 0; i < nf; i++ {
				fd := FieldDef{b[pos], b[pos+1], b[pos+2]}
				pos += 3
				bs := BaseSize(fd.Base)
				if bs == 0 {
					return p, 0, fmt.Errorf("definition at %d: field %d has unknown base type %#02x", start, fd.Num, fd.Base)
				}
				if (fd.Base&0x80 != 0) != (bs > 1) {
					return p, 0, fmt.Errorf("definition at %d: field %d base type %#02x has a wrong endian-ability flag", start, fd.Num, fd.Base)
				}
				if int(fd.Size)%bs != 0 {
					return p, 0, fmt.Errorf("definition at %d: field %d size %d is not a multiple of base size %d", start, fd.Num, fd.Size, bs)
				}
				if fd.Size == 0 {
					// legal for a reader to skip, but a writer must never produce it
					p.Oddities = append(p.Oddities, fmt.Sprintf("definition at %d: field %d has size 0", start, fd.Num))
				}
				if seen[fd.Num] {
					return p, 0, fmt.Errorf("definition at %d: field number %d appears twice", start, fd.Num)
				}
				seen[fd.Num] = true
				d.Fields = append(d.Fields, fd)
			}
			if d.DevFlag {
				if err := need(1, "developer field count"); err != nil {
					return p, 0, err
				}
				nd := int(b[pos])
				pos++
				if err := need(3*nd, "developer field descriptors"); err != nil {
					return p, 0, err
				}
				for i := 0; i < nd; i++ {
					d.Dev = append(d.Dev, DevDef{b[pos], b[pos+1], b[pos+2]})
					pos += 3
				}
			}
			slots[d.Local] = d
			p.Defs = append(p.Defs, d)
		default: // data (normal or compressed)
			r := &ParsedRec{Offset: start}
			var l byte
			if h&0x80 != 0 {
				r.Compressed = true
				l = (h >> 5) & 3
				r.TimeOffset = h & 0x1F
			} else {
				l = h & 0x0F
				if h&0x30 != 0 {
					return p, 0, fmt.Errorf("data header %#02x at %d has reserved bits set", h, start)
				}
			}
			d := slots[l]
			if d == nil {
				return p, 0, fmt.Errorf("data record at %d for local type %d which has no definition", start, l)
			}
			n := Def{Fields: d.Fields, DevFlag: d.DevFlag, Dev: d.Dev}.DataLen()
			if err := need(n, "data record"); err != nil {
				return p, 0, err
			}
			r.Def = d
			r.Payload = b[pos : pos+n]
			r.Fields = map[byte][]byte{}
			o := pos
			for _, fd := range d.Fields {
				r.Fields[fd.Num] = b[o : o+int(fd.Size)]
				o += int(fd.Size)
			}
			pos += n
			p.Recs = append(p.Recs, r)
		}
	}
	if pos != end {
		return p, 0, fmt.Errorf("records end at %d, data area ends at %d", pos, end)
	}
	if crcErr != nil {
		return p, end + 2, crcErr
	}
	return p, end + 2, nil
}
