#!/bin/bash
# tools/thorough_all.sh [IDs...] : run the thorough tier of the given (default: all) checks one after another on the
# unchanged tree and print one summary line each; the evidence files are put back afterwards (the committed evidence
# is the quick tier's). Takes about 2.5 hours for all 20.
cd /verif
ids="${*:-C02 C03 C05 C06 C07 C08 C10 C11 C12 C13 C14 C15 C16 C17 C18 C04 C19 C09 C20 C01}"
mkdir -p .build; rm -rf .build/evidence.quick; cp -a evidence .build/evidence.quick
for id in $ids; do
  s=$(date +%s)
  out=$(./check $id thorough 2>&1); rc=$?
  echo "$id rc=$rc $(( $(date +%s) - s ))s :: $(echo "$out" | grep -E "^$id thorough" | cut -c1-220)"
  echo "$out" | grep -E "VIOLATION|HARNESS|^caps" | cut -c1-300 | head -5
  mkdir -p .build/evidence.thorough; cp evidence/$id.json .build/evidence.thorough/ 2>/dev/null
done
rm -rf evidence; mv .build/evidence.quick evidence
