#!/bin/bash
# tools/try_patch.sh <patch> <ID>... : apply a patch to /repo, run the quick checks, always revert.
P=$(readlink -f "$1"); shift
cd /repo || exit 2
if ! git diff --quiet; then echo "/repo has uncommitted changes"; exit 2; fi
git apply "$P" || { echo "patch does not apply"; exit 2; }
mkdir -p /verif/.build; rm -rf /verif/.build/evidence.keep.$$; cp -a /verif/evidence /verif/.build/evidence.keep.$$
trap 'git -C /repo checkout -- . ; git -C /repo clean -fdq; rm -rf /verif/evidence; mv /verif/.build/evidence.keep.$$ /verif/evidence' EXIT
for id in "$@"; do
  out=$(/verif/check $id ${TIER:-quick} 2>&1); rc=$?
  echo "== $id rc=$rc"
  echo "$out" | grep -E "VIOLATION|HARNESS|KNOWN" | cut -c1-300 | head -${LINES_MAX:-6}
  echo "$out" | tail -1 | cut -c1-250
done
