#!/usr/bin/env python3
"""tools/store_round.py <outdir> <before.log> <after.log> <author note>

Stores an evaluated seeding round under seeded/: patch.diff, the demonstration (as demo_test.go.txt) and meta.json with the
evaluation result; prints the README table rows. before.log lines: "s01k C01 rc=1 VIOLATION ..." (committed checks);
after.log lines: "s01k: confirmed=1 == check C01 rc=1 :: VIOLATION ..." (tools/eval_round.sh, working tree).
"""
import json, os, re, shutil, sys

out, beforef, afterf, author = sys.argv[1:5]
before, after = {}, {}
for l in open(beforef):
    m = re.match(r"(s\d\d\w) (C\d\d) rc=(\d+)", l)
    if m:
        before[m.group(1)] = m.group(3) == "1" and "VIOLATION" in l
for l in open(afterf):
    m = re.match(r"(s\d\d\w): confirmed=(\d) == check (C\d\d) rc=(\d+)", l)
    if m:
        after[m.group(1)] = (m.group(2) == "1", m.group(4) == "1" and "VIOLATION" in l)
root = os.path.join(os.path.dirname(os.path.abspath(__file__)), "..", "seeded")
for d in sorted(os.listdir(out)):
    src = os.path.join(out, d)
    if not os.path.isfile(os.path.join(src, "meta.json")):
        continue
    conf, caught = after.get(d, (False, False))
    if not conf:
        print("NOT STORED (not confirmed):", d, file=sys.stderr)
        continue
    meta = json.load(open(os.path.join(src, "meta.json")))
    dst = os.path.join(root, d)
    os.makedirs(dst, exist_ok=True)
    shutil.copy(os.path.join(src, "patch.diff"), os.path.join(dst, "patch.diff"))
    for n in os.listdir(src):
        if n.startswith("demo_test.go"):
            shutil.copy(os.path.join(src, n), os.path.join(dst, "demo_test.go.txt"))
    keep = {k: meta[k] for k in ("property", "summary", "needs", "files", "demo_cmd", "demo_dir") if k in meta}
    keep["author"] = author
    keep["confirmed"] = "tools/eval_seed.sh: scratch worktree of /repo HEAD; demo passes on the unchanged tree, the pinned suite passes with the change, the demo fails with the change"
    keep["caught_by"] = meta["property"] if caught else "MISSED"
    keep["caught_before_strengthening"] = bool(before.get(d))
    keep["ran"] = "tools/eval_seed.sh seeded/%s (applies patch.diff to /repo, runs ./check <ID> quick, reverts)" % d
    json.dump(keep, open(os.path.join(dst, "meta.json"), "w"), indent=1)
    summ = re.sub(r"\s+", " ", str(meta.get("summary", "")))[:150].replace("|", "/")
    print("| %s | %s | %s | %s | %s |" % (d, meta["property"], summ, meta["property"] if caught else "MISSED", "yes" if before.get(d) else "no → strengthened"))
