#!/bin/bash
# tools/eval_seed.sh <dir with patch.diff, demo_test.go|main.go, meta.json> [check IDs...]
# 1. confirms in a scratch worktree that the change compiles, the pinned suite passes with it, and the
#    demonstration fails with it and passes without it; 2. runs the named checks (default: the property's) against
#    /repo with the change applied (always reverted). Prints a one-line verdict per step.
set -u
export GOFLAGS=-mod=mod GOPROXY=off GOSUMDB=off GOTOOLCHAIN=local
D=$(readlink -f "$1"); shift
PROP=$(python3 -c "import json,sys;print(json.load(open('$D/meta.json'))['property'])")
IDS="${*:-$PROP}"
WT=/tmp/seedeval.$$
git -C /repo worktree add -q --detach $WT HEAD || exit 2
rm -rf /verif/.build/evidence.keep.$$; cp -a /verif/evidence /verif/.build/evidence.keep.$$
cleanup() { rm -rf /verif/evidence; mv /verif/.build/evidence.keep.$$ /verif/evidence; rm -rf /verif/replays/*; git -C /repo worktree remove --force $WT 2>/dev/null; git -C /repo checkout -q -- . ; git -C /repo clean -fdq; }
trap cleanup EXIT
if [ -n "${SKIP_CONFIRM:-}" ]; then
  # seeds under seeded/ were confirmed when they were stored: only run the checks
  cd /verif
  echo "SEED CONFIRMED (earlier; confirmation skipped)"
  git -C /repo apply $D/patch.diff || { echo "patch does not apply to /repo"; exit 2; }
  for id in $IDS; do
    out=$(/verif/check $id ${TIER:-quick} 2>&1); rc=$?
    echo "== check $id rc=$rc"
    echo "$out" | grep -E "VIOLATION|HARNESS" | cut -c1-330 | head -3
  done
  exit 0
fi
cd $WT
demo=zz_seed_demo_test.go
# the demonstration's own -run pattern and -race flag, when its recorded command has them
RUNPAT=$(python3 -c "
import json,re
c=json.load(open('$D/meta.json')).get('demo_cmd','')
m=re.search(r\"-run[ =]+['\\\"]?([^'\\\" ]+)\", c)
print(m.group(1) if m else 'Seed|Demo|ZZ|zz')")
RACE=""; grep -q -- '-race' <(python3 -c "import json;print(json.load(open('$D/meta.json')).get('demo_cmd',''))") && RACE="-race"
# the package directory the demonstration belongs to (meta key demo_dir; default: the root package)
DEMODIR=$(python3 -c "import json;print(json.load(open('$D/meta.json')).get('demo_dir','.'))")
run_demo() {
  if ls $D/demo_test.go* >/dev/null 2>&1; then cp $D/demo_test.go* $WT/$DEMODIR/$demo; (cd $WT/$DEMODIR && CGO_ENABLED=${RACE:+1} go test $RACE -vet=off -count=1 -run "$RUNPAT" . >/tmp/seedeval.$$.log 2>&1); rc=$?; rm -f $WT/$DEMODIR/$demo; return $rc
  elif [ -f $D/main.go ]; then mkdir -p $WT/zzdemo; cp $D/main.go $WT/zzdemo/main.go; go run ./zzdemo >/tmp/seedeval.$$.log 2>&1; rc=$?; rm -rf $WT/zzdemo; return $rc
  else echo "no demo"; return 3; fi
}
run_demo; base=$?
echo "demo on unchanged tree: rc=$base (want 0)"
git apply $D/patch.diff || { echo "PATCH DOES NOT APPLY"; exit 2; }
go build ./... || { echo "DOES NOT COMPILE"; exit 2; }
go test -vet=off -count=1 ./... >/tmp/seedeval.$$.suite 2>&1; suite=$?
echo "pinned suite with change: rc=$suite (want 0)"; [ $suite -ne 0 ] && tail -5 /tmp/seedeval.$$.suite
run_demo; with=$?
echo "demo with change: rc=$with (want non-zero)"; [ $with -eq 0 ] && tail -5 /tmp/seedeval.$$.log
rm -f /tmp/seedeval.$$.*
cd /verif
if [ $base -ne 0 ] || [ $suite -ne 0 ] || [ $with -eq 0 ]; then echo "SEED NOT CONFIRMED"; exit 3; fi
echo "SEED CONFIRMED"
git -C /repo apply $D/patch.diff || { echo "patch does not apply to /repo"; exit 2; }
for id in $IDS; do
  out=$(/verif/check $id ${TIER:-quick} 2>&1); rc=$?
  echo "== check $id rc=$rc"
  echo "$out" | grep -E "VIOLATION|HARNESS" | cut -c1-330 | head -3
done
