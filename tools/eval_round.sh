#!/bin/bash
# tools/eval_round.sh <dir with s??x subdirs> : confirm + run the property's check for every seed; one summary line each
for d in "$1"/s*; do
  [ -f $d/meta.json ] || { echo "$(basename $d): no meta.json"; continue; }
  out=$(/verif/tools/eval_seed.sh $d 2>&1)
  conf=$(echo "$out" | grep -c "SEED CONFIRMED")
  rc=$(echo "$out" | grep "== check" | head -1)
  v=$(echo "$out" | grep VIOLATION | head -1 | cut -c1-220)
  echo "$(basename $d): confirmed=$conf $rc :: $v"
done
