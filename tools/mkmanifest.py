#!/usr/bin/env python3
"""Regenerates /verif/MANIFEST.json from the table below (kept valid at all times).
A property is claimed only once its check exists in harness/props or tools/check_<ID>.sh."""
import json, os, sys

V = "/verif"
ALL = ["C%02d" % i for i in range(1, 21)]

CHECKS = {
 "C01": dict(level="exploration",
   text="Bounded exhaustive input-shape exploration of the six decoding entry points under recover and a hang watchdog: the full single-field definition space the property names (message x field number x base-type byte x size x byte order; quick tier restricts field numbers and unknown base types as stated in evidence), header space, record-header space with every cut, and the corpus with cuts. Totality is a safety property over inputs, so exhaustive enumeration of the structured families is the strongest decision available short of proof.",
   note="Assumes: readers that never make progress are out of scope; arbitrary unstructured garbage is not enumerated. Panics are caught with recover, hangs with a 30 s watchdog.",
   technique="bounded exhaustive input enumeration on the real decoder (definition / header / record-header / cut spaces)", ref="3 C01"),
 "C15": dict(level="exploration",
   text="Exhaustive enumeration of every (message, field) entry of the compiled-in profile, every struct field and every container member, statically (reflection against the exported tables) and dynamically (one-field stream decoded, located, re-encoded).",
   note="Trusted: verif-tagged read-only exports mirror the tables; reference mapping base type -> Go kind / invalid value is written from the FIT base-type table.",
   technique="exhaustive configuration enumeration of the profile tables with reflection + decode/encode confirmation", ref="3 C15"),
 "C14": dict(level="model_checking",
   text="Complete explicit-state exploration of the checksum's transition system on the real code: all 65536 register states x 256 bytes against a bitwise CRC-16/ARC, plus Reset/residue from every state and all write partitions of short and long strings. The state space is finite and fully enumerated, so within the stated reference this is a complete decision.",
   note="Trusted: the 10-line bitwise reference CRC; Go runtime. States are reached through the public New().Write only.",
   technique="explicit-state enumeration of all (state,byte) transitions against a reference model", ref="3 C14"),
 "C17": dict(level="exploration",
   text="Exhaustive enumeration of all 2^32 semicircle values for both coordinate types and all 2^32 second counts against integer-exact reference arithmetic; printed form on every value in the thorough tier.",
   note="Trusted: float64 exactness argument (s*45 < 2^53); hook exports of decodeDateTime/encodeTime. +90 degrees latitude is a listed known finding.",
   technique="exhaustive input enumeration (2^32 x 3) against an exact reference", ref="3 C17"),
}

REASONS_PENDING = "check not built yet in this snapshot of /verif (planned per DESIGN.md section 3; model checking applies)"

def main():
    checks = []
    for pid in ALL:
        c = CHECKS.get(pid)
        if not c:
            continue
        checks.append({
            "property_id": pid,
            "quick_cmd": f"./check {pid} quick",
            "thorough_cmd": f"./check {pid} thorough",
            "evidence_file": f"evidence/{pid}.json",
            "replay_cmd_template": f"./check {pid} --replay {{path}}",
            "engine": c.get("engine", "vcheck"),
            "level_claimed": {"category": c["level"], "text": c["text"], "design_ref": "DESIGN.md section " + c["ref"]},
            "level_note": c["note"],
            "technique": c["technique"],
        })
    na = [{"property_id": p, "reason": REASONS_PENDING} for p in ALL if p not in CHECKS]
    m = {
        "version": 1,
        "setup_cmd": "./check setup",
        "hooks": {
            "guard": "verif",
            "enable": "go build -tags verif (harness module /verif/harness, replace github.com/tormoder/fit => /repo)",
            "baseline_off_cmd": "cd /repo && GOFLAGS=-mod=mod GOPROXY=off GOSUMDB=off GOTOOLCHAIN=local go test -vet=off -count=1 ./...",
            "source_commits": HOOK_COMMITS,
            "add_only": True,
        },
        "engines": [
            {"name": "vcheck", "path": "harness/", "serves_properties": sorted(CHECKS.keys()),
             "kind_free_text": "hand-written Go explorers (exhaustive input/sequence/environment/schedule enumeration sharded over worker processes) with a reference model (harness/fitmodel); evidence, replay files and known-finding classification in harness/vx"},
        ],
        "checks": checks,
        "not_applicable": na,
        "notes": "All checks rebuild the harness against /repo's working tree on every invocation (./check). Known findings: known_findings.json. Design: DESIGN.md.",
    }
    with open(os.path.join(V, "MANIFEST.json"), "w") as f:
        json.dump(m, f, indent=1)
        f.write("\n")
    try:
        import jsonschema
        jsonschema.validate(m, json.load(open("/root/.vp/MANIFEST.schema.json")))
        print("MANIFEST.json valid;", len(checks), "checks,", len(na), "not claimed")
    except ImportError:
        print("written (jsonschema not importable here)")

HOOK_COMMITS = ["aae6637"]

if __name__ == "__main__":
    main()
