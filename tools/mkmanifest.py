#!/usr/bin/env python3
"""Regenerates /verif/MANIFEST.json from the table below (kept valid at all times).
A property is claimed only once its check exists in harness/props or tools/check_<ID>.sh."""
import json, os, sys

V = "/verif"
ALL = ["C%02d" % i for i in range(1, 21)]

CHECKS = {
 "C19": dict(level="exploration",
   text="Configuration exploration through the real fitgen command built from the tree: every bundled workbook in both input forms twice, the repeat regenerating in place over a larger earlier output, the -sdk flag overriding / supplying the version of zip inputs, relative output directories from another working directory (deviation 0); class toggles (every unprotected row of one type disabled at once) and every single-row toggle of the product-profile column that an independent dependency analysis allows (deviation 1; quick tier: component/subfield-bearing messages of the newest workbook). Each output is checked for determinism, declared SDK version, agreement with an independent stdlib reading of the workbook (go/ast audit) and for compiling together with the support code (go/types, errors classified).",
   note="Dependency-closed subsets beyond deviation 1 are not enumerated (2^1000). Compile check is go/types with the source importer, not the gc back end. Stock output vs today's support code skew is a listed finding per workbook.",
   technique="deviation-bounded exhaustive configuration enumeration through the real command with an independent workbook reader as oracle", ref="3 C19"),
 "C20": dict(level="exploration",
   text="Exhaustive enumeration of every constant of every integer type in types.go and of all remaining values of 8- and 16-bit types (boundary families for wider types in the quick tier, all 2^32 values of every 32-bit type in the thorough tier) through a generated program that calls String() (constants collected from every file of the package); plus byte-for-byte regeneration of types_string.go with the repository's own stringer.",
   note="Type and constant inventory comes from go/types on types.go; the regeneration driver is added by build overlay (nothing written to /repo).",
   technique="exhaustive input enumeration + regeneration (translation) comparison", ref="3 C20"),
 "C08": dict(level="model_checking",
   text="Explicit exploration of call histories: every sequence up to the bound over a 39-call pool chosen to collide on package-level state (incl. near-twin inputs that differ only in a detail a lossy cache key would conflate), each history executed in its own fresh process; every position must return what the same call returns when made first in a fresh process, and solo calls are repeated across processes (Encode determinism). Behavioural states (vectors of one-step futures) are counted: a pure implementation has exactly one.",
   note="Fresh-process baseline means no in-process reset has to be trusted. The package-level distance accumulator (listed finding) is shadowed and attributed exactly. Map-iteration nondeterminism is observed through repeated fresh-process runs, not enumerated.",
   technique="explicit-state exploration of call histories with a fresh-process differential oracle", ref="3 C08"),
 "C09": dict(level="model_checking",
   text="Stateless schedule exploration on the real code under a cooperative scheduler with iterative preemption bounding. Scheduling points: (1) every Read/Write on harness-owned readers/writers (reads cut at record boundaries; the decoding calls again at byte granularity) for all unordered pairs of the 35 pool calls plus 3-thread and 2-calls-per-thread scenarios; (2) every access to a mutable package-level variable, through a build overlay generated from the current tree by tools in harness/cmd/vinstr (nothing written to /repo), each scenario in a fresh process, with an access-conflict oracle (variable written and touched by both goroutines, no locks in the package). Each thread must return its solo result under every schedule. A separate free-running pass of the same bodies under the Go race detector classifies every report by function signature.",
   note="Interleavings are sequentially consistent at the granularity of the scheduling points; weak-memory effects are only sampled by the race-detector pass. Preemption bound completed: 2 (quick) / 4 (thorough) for pairs. The access-level pass leaves out the calls that hit the listed accumulator finding; if the package starts using locks/atomics the access-conflict oracle stands down (never a false alarm) and the race pass remains.",
   technique="stateless model checking with a controlled scheduler (environment-call and instrumented-access scheduling points), preemption bounding + separate race-detector pass", ref="3 C09"),
 "C05": dict(level="exploration",
   text="Bounded exhaustive enumeration of Files built through the public API (17 file types x every container member x field subsets incl. union-definition mixes x boundary values x byte order x header form); every output is parsed by an independent strict FIT grammar parser and every wire value compared with a reference encoding of the Go value; File header/CRC fields checked after the call, also when they held stale values before it, and across encode / grow / encode / shrink / encode of the same File object; the same bytes whatever io.Writer receives them (7 writer kinds); strings that are not valid UTF-8 or are cut inside a wide rune (refused, or written well-formed).",
   note="Reference encoder and parser live in harness/fitmodel and harness/props/filegen.go. In-domain Files start from the all-invalid file_id (NewFile leaves Go zero values, which are outside the representable domain).",
   technique="bounded exhaustive input enumeration with an independent grammar parser as oracle", ref="3 C05"),
 "C06": dict(level="exploration",
   text="The same in-domain File family (plus all ordered field pairs per message in the thorough tier and local timestamps 18 zone offsets away from a UTC reference in the same or an earlier message, incl. offsets that are not whole minutes; several local timestamps in one real daylight-saving zone across its transitions; every ordered triple of string values per string field; strings with U+FFFD; arrays with an invalid element inside; stale output fields on every fourth File) is encoded and decoded back; per-member counts, order and every field are compared under exactly the four relaxations the property states.",
   note="Component destinations are predicted by the C18 reference expansion; accumulated destinations are excluded when their source is set (C18 findings).",
   technique="bounded exhaustive input enumeration, round-trip oracle with stated relaxations", ref="3 C06"),
 "C07": dict(level="exploration",
   text="A pool of tens of thousands of distinct accepted streams (model-generated families of C02/C12/C13/C18, out-of-profile-length strings and arrays, non-UTF-8 strings, string sequences longer-then-shorter, mix-family words, fully populated and sparse-after-rich messages, a stream for each of the 256 file-type bytes and each protocol-version byte, corpus and crasher inputs) is driven through decode-encode-decode-encode-decode in both byte orders; Encode must succeed, the output must pass CheckIntegrity, generation 2 must equal generation 1 up to profile lengths and generation 3 must equal generation 2.",
   note="Three listed findings (non-UTF-8 strings, one-pass expansion order, resized compressed_speed_distance) are attributed by exact defect models; accumulated destinations are excluded (C18 findings).",
   technique="bounded exhaustive input enumeration, multi-generation round-trip oracle", ref="3 C07"),
 "C03": dict(level="model_checking",
   text="A router model derived by reflection from the public container types (pointer member = last message, slice member = append in order) is replayed against the real decoder for every valid file type and every word of messages up to the bound, each message carrying its stream position; plus the accessor matrix, all 256 file-type bytes, type-changing file_id records, duplicate message ids and rich (every-field) messages. Shared 'mix' family: all words up to length 3 (quick) / 4 (thorough) over 12 definition shapes x 2 local types x normal/compressed data records (both byte orders, timestamp first/middle/absent, zero-field and developer-field definitions, unknown messages and fields, signed/array/local-time fields, unhosted message, second file_id), each decoded and compared message by message and field by field with a complete reference decoder (parser + value model + timestamp machine + router).",
   note="Model derivation trusts the container struct declarations, not the add() switches. Bound: words <=2 (quick) / <=3 (thorough) over 102 symbols, runs of 100 for append growth.",
   technique="explicit enumeration of operation sequences against a reflection-derived reference model", ref="3 C03"),
 "C12": dict(level="model_checking",
   text="The timestamp register machine of the property (reference or none, offset = reference mod 32, local time relative to the reference) is run in lock-step with the real decoder over all words up to the bound of explicit / compressed / local timestamp records, all 32x32 offset pairs, long runs with several rollovers, both byte orders, zero-field definitions, reference values with a zero low byte or below 0x10000000; a local timestamp at every whole-second distance within +-15 h of its reference (108 001 zone offsets). Shared 'mix' family: all words up to length 3 (quick) / 4 (thorough) over 12 definition shapes x 2 local types x normal/compressed data records (both byte orders, timestamp first/middle/absent, zero-field and developer-field definitions, unknown messages and fields, signed/array/local-time fields, unhosted message, second file_id), each decoded and compared message by message and field by field with a complete reference decoder (parser + value model + timestamp machine + router).",
   note="Alphabet excludes reference value 0, 32-bit overflow of the second counter and system-time references interacting with local time (property silent).",
   technique="explicit enumeration of record sequences against a reference state machine", ref="3 C12"),
 "C13": dict(level="model_checking",
   text="The definition-slot machine is explored two ways on the real decoder: all words up to the bound over define/data/compressed-data operations, and a breadth-first search over all 3125 reachable slot states with every one-step extension followed by a probe of every slot; chained files must not inherit slots; jumbo records (up to 130 050 bytes) on a neighbouring slot. Shared 'mix' family: all words up to length 3 (quick) / 4 (thorough) over 12 definition shapes x 2 local types x normal/compressed data records (both byte orders, timestamp first/middle/absent, zero-field and developer-field definitions, unknown messages and fields, signed/array/local-time fields, unhosted message, second file_id), each decoded and compared message by message and field by field with a complete reference decoder (parser + value model + timestamp machine + router).",
   note="Five local types x four definition variants in the words; all 16 local types at depth 2. Values are checked with the C02 model.",
   technique="explicit-state BFS over model slot states + exhaustive bounded words, each trace replayed on the decoder", ref="3 C13"),
 "C16": dict(level="model_checking",
   text="All words up to the bound over 12 record groups x every truncation offset x all 8 option combinations; content, error and bytes consumed must equal the option-free run and the unknown-item lists must equal the model counters (bounded by completed / in-progress records on failure). Whole streams also with the options passed in every order and repeated (19 configurations). A generic form of the same oracle (counters derived from the independent parser, content from the reference decoder) runs over the mix words, the shared streams and every device file of the corpus under all option configurations; DecodeChained over ordered pairs of mix-family files: per-member counters; all 16 x 16 local-type pairs; failure right after the file_id record.",
   note="Logger is a counting sink that formats its arguments (to execute the debug branches).",
   technique="explicit enumeration of record sequences x crash points x configurations against reference counters", ref="3 C16"),
 "C18": dict(level="model_checking",
   text="Reference expansion/accumulation model (bit slices; 12/8/16-bit accumulators that restart per file) in lock-step with the decoder over every component source x boundary patterns x every container, all words of accumulating records up to the bound, histories of up to 3 files decoded separately and chained, sources transmitted together with an explicit destination value, and record words with a further file_id record in between. Mismatches are classified by exact defect models, so only the four listed findings are tolerated.",
   note="Known findings K1-K3 are generated code pinned by TestGenerator goldens; their defect models shadow the package-level accumulator over the worker's whole decode history.",
   technique="explicit enumeration of record sequences and file histories against a reference model with defect-model attribution", ref="3 C18"),
 "C02": dict(level="exploration",
   text="Bounded exhaustive enumeration on the real decoder: every observable (message, field) entry x every definition of a stated compat set x both byte orders x a boundary payload alphabet x record contexts, compared with an independent value denotation model (zero/sign extension, arrays, strings, times, coordinates) and the all-invalid rule for absent fields; record independence on the corpus; every device file of the corpus against the complete reference decoder; developer fields in every number 1..255; coordinates transmitted as sint16/sint8. Shared 'mix' family: all words up to length 3 (quick) / 4 (thorough) over 12 definition shapes x 2 local types x normal/compressed data records (both byte orders, timestamp first/middle/absent, zero-field and developer-field definitions, unknown messages and fields, signed/array/local-time fields, unhosted message, second file_id), each decoded and compared message by message and field by field with a complete reference decoder (parser + value model + timestamp machine + router).",
   note="Model = harness/props/model.go (written from the FIT base-type rules). Value alphabets are boundary sets, not all 2^32 payloads. Messages that no file container exposes are not observable and not covered.",
   technique="bounded exhaustive input enumeration against a reference value model", ref="3 C02"),
 "C04": dict(level="fault_enumeration",
   text="Exhaustive fault enumeration: every burst of <=16 bits at every bit position of each base file (2^15 patterns per position) must be rejected by both Decode and CheckIntegrity; all 65536 stored header CRC values x header variants must get the same verdict from all header-checking APIs as the reference CRC gives; verdicts on valid and corrupted files must not depend on the reader's chunking (8 chunkings); Encode outputs above 64 and 128 KiB; records larger than the read buffer.",
   note="Base files are small (25-50 bytes) so that the burst space is complete; longer files in the thorough tier. Reference = bitwise CRC-16/ARC.",
   technique="exhaustive fault (bit-burst) enumeration + exhaustive header CRC value enumeration across APIs", ref="3 C04"),
 "C10": dict(level="model_checking",
   text="Stateless exploration of the reader environment: the harness owns the io.Reader and enumerates its answers at every Read with deviation bounding (bound 2 from two default behaviours), plus complete cut-set enumeration of the minimal file and uniform chunkings across the internal buffer size; every schedule must consume exactly the frame and give the schedule-independent result; chained decoding equals per-member decoding; every ordered pair (and triple of short words) of mix-family files through DecodeChained against the reference decoder per member; 15 reader kinds (bytes.Reader, bytes.Buffer, bufio, os.File, io.Pipe, iotest shapes ...) with exact consumption where the reader can tell; every way of writing a file_id record through DecodeHeaderAndFileID vs Decode vs DecodeChained; readers that answer (0, nil) hundreds of times.",
   note="Menu of reader answers is finite (full/1/half/len-1/empty<=2/data+EOF). Bound 2 completed; all 2^24 cut sets in the thorough tier.",
   technique="deviation-bounded exhaustive exploration of environment (Read-answer) schedules on the real decoder", ref="3 C10"),
 "C11": dict(level="fault_enumeration",
   text="Every cut offset and every read-fault offset (with/without data in the failing call) of every stream, through all six entry points and two read modes, against a frame model that says when an error is mandatory and which messages must be present in the partial File; the decoding calls bare and with decode options; streams whose trailing CRC has a zero byte or is 0x0000; 200-byte fields across the read-buffer boundary, first and last in the record.",
   note="Streams are built by the reference builder, which supplies the record boundaries for the partial-content oracle.",
   technique="exhaustive crash-point (cut) and fault-offset enumeration against a frame model", ref="3 C11"),
 "C01": dict(level="exploration",
   text="Bounded exhaustive input-shape exploration of the six decoding entry points under recover and a hang watchdog: the full single-field definition space the property names (message x field number x base-type byte x size x byte order; quick tier restricts field numbers and unknown base types as stated in evidence), header space, record-header space with every cut, and the corpus with cuts; the decoding calls are made bare and with decode options (all, each alone), which register deferred work before the header is read; headers that lie about the data size (every declared size on streams with long fields, under several read chunkings); a local timestamp at every whole-second zone offset within +-15 h; every record-header pair before the first file_id data record; every string field filled with all words over the UTF-8 byte classes. Totality is a safety property over inputs, so exhaustive enumeration of the structured families is the strongest decision available short of proof.",
   note="Assumes: readers that never make progress are out of scope; arbitrary unstructured garbage is not enumerated. Panics are caught with recover, hangs with a 30 s watchdog.",
   technique="bounded exhaustive input enumeration on the real decoder (definition / header / record-header / cut spaces)", ref="3 C01"),
 "C15": dict(level="exploration",
   text="Exhaustive enumeration of every (message, field) entry of the compiled-in profile, every struct field and every container member and every message File itself holds, and the header timestamp over every ordered pair of known messages on one local type, statically (reflection against the exported tables) and dynamically (one-field stream decoded, located, re-encoded).",
   note="Trusted: verif-tagged read-only exports mirror the tables; reference mapping base type -> Go kind / invalid value is written from the FIT base-type table.",
   technique="exhaustive configuration enumeration of the profile tables with reflection + decode/encode confirmation", ref="3 C15"),
 "C14": dict(level="model_checking",
   text="Complete explicit-state exploration of the checksum's transition system on the real code: all 65536 register states x 256 bytes against a bitwise CRC-16/ARC, plus Reset/residue from every state, all write partitions of short and long strings, io.Copy schedules, first-use histories (each entry point as the first call a fresh process makes into the package, and ordered pairs of them) every start alignment 0..16 of the data inside a larger buffer, data followed by its own checksum and zero padding, Sum/Size/BlockSize as observers in every state, and histories that go through package fit first. The state space is finite and fully enumerated, so within the stated reference this is a complete decision.",
   note="Trusted: the 10-line bitwise reference CRC; Go runtime. States are reached through the public New().Write only.",
   technique="explicit-state enumeration of all (state,byte) transitions against a reference model", ref="3 C14"),
 "C17": dict(level="exploration",
   text="Exhaustive enumeration of all 2^32 semicircle values for both coordinate types and all 2^32 second counts against integer-exact reference arithmetic; printed form on every value in the thorough tier; the same value types as the decoder produces them (131k boundary-spread values per field, both byte orders) must equal what the constructors give, also as the first record of a fresh decode.",
   note="Trusted: float64 exactness argument (s*45 < 2^53); hook exports of decodeDateTime/encodeTime. +90 degrees latitude is a listed known finding.",
   technique="exhaustive input enumeration (2^32 x 3) against an exact reference", ref="3 C17"),
}

REASONS_PENDING = "check not built yet in this snapshot of /verif (planned per DESIGN.md section 3; model checking applies)"
# families added in seeding rounds 11 and 12 (the process as an environment answer; oracles that do not compare the
# implementation with itself)
_ENV = {
 "tz": " The process time zone is an environment answer: a digest family is executed in fresh processes under TZ = UTC, Asia/Kathmandu, America/St_Johns, Pacific/Chatham and must not differ.",
 "procs": " The processor count is an environment answer: a family of large inputs is executed in fresh processes under GOMAXPROCS 1, 2, 3, 4, 7, 8, 16 and must give identical results.",
 "env": " Environment variables are environment answers: every variable the library sources read is varied in fresh processes; the behavioural digest must not change.",
}
for _id, _ks in {"C01": ["procs"], "C02": ["tz"], "C04": ["procs"], "C05": ["procs"], "C06": ["tz", "procs"], "C07": ["procs"], "C08": ["procs", "env"], "C10": ["env"], "C11": ["procs"], "C12": ["tz"], "C14": ["procs"], "C17": ["tz"]}.items():
    for _k in _ks:
        CHECKS[_id]["text"] += _ENV[_k]
_LONG = " Depth beyond the word bound is reached by long runs: a short unit repeated N times for N around 2^8, 2^12, 2^16 (see DESIGN 0.5 (13))."
for _id in ("C01", "C02", "C03", "C05", "C06", "C07", "C10", "C11", "C12", "C13", "C14", "C15", "C16", "C17", "C18", "C20"):
    CHECKS[_id]["text"] += _LONG
CHECKS["C05"]["text"] += " Expected wire values are computed from the File before Encode is called; array fields are also given as sub-slices of one shared backing array."
CHECKS["C06"]["text"] += " Reference values come from a second identical File that Encode never sees; every seventh File follows two failing Encode calls."
CHECKS["C07"]["text"] += " Generation 1 is taken from a second decode that Encode never sees."
CHECKS["C15"]["text"] += " Every entry of every known message is also declared with each of the 17 base types at four sizes in both byte orders: no reflection access may fail."
CHECKS["C19"]["text"] += " The output directory is an environment answer (already holding stale or half-written generated files); the generator also runs under three processor counts."
CHECKS["C20"]["text"] += " Through the command: fitgen into directories holding stale string tables must leave the tables of a fresh run; regeneration under seven processor counts."


def main():
    checks = []
    for pid in ALL:
        c = CHECKS.get(pid)
        if not c:
            continue
        checks.append({
            "property_id": pid,
            "quick_cmd": f"./check {pid} quick",
            "thorough_cmd": f"./check {pid} thorough",
            "evidence_file": f"evidence/{pid}.json",
            "replay_cmd_template": f"./check {pid} --replay {{path}}",
            "engine": c.get("engine", "vcheck"),
            "level_claimed": {"category": c["level"], "text": c["text"], "design_ref": "DESIGN.md section " + c["ref"]},
            "level_note": c["note"],
            "technique": c["technique"],
        })
    na = [{"property_id": p, "reason": REASONS_PENDING} for p in ALL if p not in CHECKS]
    m = {
        "version": 1,
        "setup_cmd": "./check setup",
        "hooks": {
            "guard": "verif",
            "enable": "go build -tags verif (harness module /verif/harness, replace github.com/tormoder/fit => /repo)",
            "baseline_off_cmd": "cd /repo && GOFLAGS=-mod=mod GOPROXY=off GOSUMDB=off GOTOOLCHAIN=local go test -vet=off -count=1 ./...",
            "source_commits": HOOK_COMMITS,
            "add_only": True,
        },
        "engines": [
            {"name": "vcheck", "path": "harness/", "serves_properties": sorted(CHECKS.keys()),
             "kind_free_text": "hand-written Go explorers (exhaustive input/sequence/environment/schedule enumeration sharded over worker processes) with a reference model (harness/fitmodel); evidence, replay files and known-finding classification in harness/vx"},
        ],
        "checks": checks,
        "not_applicable": na,
        "notes": "All checks rebuild the harness against /repo's working tree on every invocation (./check). Known findings: known_findings.json. Design: DESIGN.md.",
    }
    with open(os.path.join(V, "MANIFEST.json"), "w") as f:
        json.dump(m, f, indent=1)
        f.write("\n")
    try:
        import jsonschema
        jsonschema.validate(m, json.load(open("/root/.vp/MANIFEST.schema.json")))
        print("MANIFEST.json valid;", len(checks), "checks,", len(na), "not claimed")
    except ImportError:
        print("written (jsonschema not importable here)")

HOOK_COMMITS = ["aae6637"]

if __name__ == "__main__":
    main()
