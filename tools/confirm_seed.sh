#!/bin/bash
# tools/confirm_seed.sh <seed dir> : confirmation only, in a scratch worktree of /repo HEAD (never touches /repo's working
# tree or /verif/evidence, so several can run in parallel and next to a check run): the demonstration passes on the
# unchanged tree, the change compiles, the pinned suite passes with it, the demonstration fails with it.
set -u
export GOFLAGS=-mod=mod GOPROXY=off GOSUMDB=off GOTOOLCHAIN=local
D=$(readlink -f "$1")
N=$(basename $D)
WT=/tmp/seedconf.$N.$$
git -C /repo worktree add -q --detach $WT HEAD || exit 2
trap 'git -C /repo worktree remove --force $WT 2>/dev/null; rm -f /tmp/seedconf.$N.$$.*' EXIT
cd $WT
demo=zz_seed_demo_test.go
RUNPAT=$(python3 -c "
import json,re
c=json.load(open('$D/meta.json')).get('demo_cmd','')
m=re.search(r\"-run[ =]+['\\\"]?([^'\\\" ]+)\", c)
print(m.group(1) if m else 'Seed|Demo|ZZ|zz')")
RACE=""; grep -q -- '-race' <(python3 -c "import json;print(json.load(open('$D/meta.json')).get('demo_cmd',''))") && RACE="-race"
DEMODIR=$(python3 -c "import json;print(json.load(open('$D/meta.json')).get('demo_dir','.'))")
run_demo() {
  cp $D/demo_test.go* $WT/$DEMODIR/$demo; (cd $WT/$DEMODIR && CGO_ENABLED=${RACE:+1} go test $RACE -vet=off -count=1 -run "$RUNPAT" . >/tmp/seedconf.$N.$$.log 2>&1); rc=$?; rm -f $WT/$DEMODIR/$demo; return $rc
}
run_demo; base=$?
git apply $D/patch.diff || { echo "$N: PATCH DOES NOT APPLY"; exit 2; }
go build ./... || { echo "$N: DOES NOT COMPILE"; exit 2; }
go test -vet=off -count=1 ./... >/tmp/seedconf.$N.$$.suite 2>&1; suite=$?
run_demo; with=$?
if [ $base -ne 0 ] || [ $suite -ne 0 ] || [ $with -eq 0 ]; then echo "$N: NOT CONFIRMED base=$base suite=$suite with=$with"; tail -3 /tmp/seedconf.$N.$$.log; exit 3; fi
echo "$N: CONFIRMED (demo on unchanged tree rc=0, pinned suite with change rc=0, demo with change rc=$with)"
