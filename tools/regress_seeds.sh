#!/bin/bash
# tools/regress_seeds.sh [pattern] : re-confirm every seeded change and re-run the checks recorded in its meta.json
# (applies each patch to /repo and reverts it; do not use /repo meanwhile). One line per seed; exit 1 if a seed is missed.
cd /verif
miss=0
for d in seeded/${1:-s*}; do
  [ -f $d/meta.json ] || continue
  grep -q '"status": "obsolete' $d/meta.json && { echo "$(basename $d): obsolete, skipped"; continue; }
  ids=$(python3 -c "
import json,re;m=json.load(open('$d/meta.json'));print(' '.join(sorted(set(re.findall(r'C\d\d',m['caught_by'])))))")
  out=$(tools/eval_seed.sh $d $ids 2>&1)
  conf=$(echo "$out" | grep -c "SEED CONFIRMED")
  res=$(echo "$out" | grep "== check" | tr '\n' ' ')
  first=$(python3 -c "
import json,re;m=json.load(open('$d/meta.json'));print(m['property'])")
  ok=$(echo "$out" | grep -c "== check $first rc=1")
  [ "$conf" = 1 ] && [ "$ok" = 1 ] || { miss=1; echo "MISSED-OR-UNCONFIRMED $(basename $d)"; }
  echo "$(basename $d): confirmed=$conf $res"
done
exit $miss
